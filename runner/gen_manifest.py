#!/usr/bin/env python3
"""Writes MANIFEST.json from the table below (keeps it valid and in one place)."""
import json
import os

VERIF = os.path.dirname(os.path.dirname(os.path.abspath(__file__)))

CLAIMED = {
    "C20": dict(
        text="Theorems over ALL u64 values / all byte strings for the varint writer, reader and size function "
             "(round trip at any offset, size agreement, canonical form, unrolled reader = LEB128 loop), about a "
             "literal Gallina transcription of protobuf_utils.rs; model tied to the code by a differential "
             "correspondence run (real write_varint64/read_varint64_offset/inner_sizeof_varint/MessageBufReader/"
             "FileMessageReader vs the model evaluated by vm_compute) plus an independent property oracle.",
        note="Trusted: Coq kernel+vm_compute, the hand transcription (checked by the correspondence on seeded cases), "
             "harness and runner glue. Disk read errors and record lengths >= 2^63 are out of the model.",
        technique="Rocq proof (induction, bit-vector lemmas) + model/implementation correspondence",
        design="3/C20",
    ),
}

NOT_YET = {}

ALL = ["C%02d" % i for i in range(1, 21)]


def main():
    checks = []
    for pid in ALL:
        if pid not in CLAIMED:
            continue
        c = CLAIMED[pid]
        checks.append({
            "property_id": pid,
            "quick_cmd": "python3 runner/vp.py %s --tier quick" % pid,
            "thorough_cmd": "python3 runner/vp.py %s --tier thorough" % pid,
            "evidence_file": "/verif/evidence/%s.json" % pid,
            "replay_cmd_template": "python3 runner/vp.py %s --replay {path}" % pid,
            "engine": "rocq-model+correspondence",
            "level_claimed": {"category": "proof", "text": c["text"], "design_ref": "DESIGN.md section " + c["design"]},
            "level_note": c["note"],
            "technique": c["technique"],
        })
    na = [{"property_id": p, "reason": NOT_YET.get(p, "check not built yet in this round (planned, see DESIGN.md section 3); not claimed")}
          for p in ALL if p not in CLAIMED]
    man = {
        "version": 1,
        "setup_cmd": "./setup.sh",
        "hooks": {
            "guard": "--cfg rnacos_verif",
            "enable": "harness/.cargo/config.toml sets rustflags = [\"--cfg\", \"rnacos_verif\"] for the harness build of /repo",
            "baseline_off_cmd": "cd /repo && cargo test --workspace --no-fail-fast --offline",
            "source_commits": json.load(open(os.path.join(VERIF, "hooks.json")))["commits"],
            "add_only": True,
        },
        "engines": [{
            "name": "rocq-model+correspondence", "path": "/verif/coq + /verif/harness + /verif/runner",
            "serves_properties": sorted(CLAIMED),
            "kind_free_text": "Rocq (Coq 8.16) theorems about executable Gallina models; models tied to /repo by a differential "
                              "correspondence harness (real Rust code vs vm_compute) and by source translators",
        }],
        "checks": checks,
        "not_applicable": na,
        "notes": "See DESIGN.md. known_findings.json lists recorded findings and fixed defects.",
    }
    with open(os.path.join(VERIF, "MANIFEST.json"), "w") as f:
        json.dump(man, f, indent=1)


if __name__ == "__main__":
    main()
