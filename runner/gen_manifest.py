#!/usr/bin/env python3
"""Writes MANIFEST.json from the table below (keeps it valid and in one place)."""
import json
import os

VERIF = os.path.dirname(os.path.dirname(os.path.abspath(__file__)))

import glob
import importlib
import sys

sys.path.insert(0, os.path.dirname(os.path.abspath(__file__)))

CLAIMED = {}
for f in sorted(glob.glob(os.path.join(os.path.dirname(os.path.abspath(__file__)), "checks", "c[0-9]*.py"))):
    name = os.path.basename(f)[:-3]
    mod = importlib.import_module("checks." + name)
    if getattr(mod, "MANIFEST", None):
        CLAIMED[name.upper()] = mod.MANIFEST

NOT_YET = {}   # property id -> reason, for properties that stay unclaimed

ALL = ["C%02d" % i for i in range(1, 21)]


def main():
    checks = []
    for pid in ALL:
        if pid not in CLAIMED:
            continue
        c = CLAIMED[pid]
        checks.append({
            "property_id": pid,
            "quick_cmd": "python3 runner/vp.py %s --tier quick" % pid,
            "thorough_cmd": "python3 runner/vp.py %s --tier thorough" % pid,
            "evidence_file": "/verif/evidence/%s.json" % pid,
            "replay_cmd_template": "python3 runner/vp.py %s --replay {path}" % pid,
            "engine": "rocq-model+correspondence",
            "level_claimed": {"category": "proof", "text": c["text"], "design_ref": "DESIGN.md section " + c["design"]},
            "level_note": c["note"],
            "technique": c["technique"],
        })
    na = [{"property_id": p, "reason": NOT_YET.get(p, "check not built yet in this round (planned, see DESIGN.md section 3); not claimed")}
          for p in ALL if p not in CLAIMED]
    man = {
        "version": 1,
        "setup_cmd": "./setup.sh",
        "hooks": {
            "guard": "--cfg rnacos_verif",
            "enable": "harness/.cargo/config.toml sets rustflags = [\"--cfg\", \"rnacos_verif\"] for the harness build of /repo",
            "baseline_off_cmd": "cd /repo && cargo test --workspace --no-fail-fast --offline",
            "source_commits": json.load(open(os.path.join(VERIF, "hooks.json")))["commits"],
            "add_only": True,
        },
        "engines": [{
            "name": "rocq-model+correspondence", "path": "/verif/coq + /verif/harness + /verif/runner",
            "serves_properties": sorted(CLAIMED),
            "kind_free_text": "Rocq (Coq 8.16) theorems about executable Gallina models; models tied to /repo by a differential "
                              "correspondence harness (real Rust code vs vm_compute) and by source translators",
        }],
        "checks": checks,
        "not_applicable": na,
        "notes": "See DESIGN.md. known_findings.json lists recorded findings and fixed defects.",
    }
    with open(os.path.join(VERIF, "MANIFEST.json"), "w") as f:
        json.dump(man, f, indent=1)


if __name__ == "__main__":
    main()
