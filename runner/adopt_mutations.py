#!/usr/bin/env python3
"""usage: runner/adopt_mutations.py <scratch worktree> <tag e.g. C14> <filter prefix e.g. c14_m> <n>
Confirms each mutation out/m<i> of a mutation agent in its scratch worktree (runner/confirm_seeded.sh),
and copies the confirmed ones to seeded/<tag>-m<i>/ with the confirmation log in meta.json."""
import json
import os
import re
import shutil
import subprocess
import sys

VERIF = os.path.dirname(os.path.dirname(os.path.abspath(__file__)))
W, TAG, PREFIX, N = sys.argv[1], sys.argv[2], sys.argv[3], int(sys.argv[4])
for i in range(1, N + 1):
    m = os.path.join(W, "out", "m%d" % i)
    if not os.path.exists(os.path.join(m, "patch.diff")):
        print("m%d: missing" % i)
        continue
    p = subprocess.run([os.path.join(VERIF, "runner", "confirm_seeded.sh"), W, m, "%s%d" % (PREFIX, i)],
                       stdout=subprocess.PIPE, stderr=subprocess.STDOUT, text=True)
    log = p.stdout
    parts = re.split(r"^--- ", log, flags=re.M)
    ok_without = "test result: ok" in parts[1] if len(parts) > 1 else False
    fail_with = "test result: FAILED" in parts[2] if len(parts) > 2 else False
    pinned = re.search(r"test result: FAILED\. (\d+) passed; (\d+) failed", parts[3]) if len(parts) > 3 else None
    failed_names = re.findall(r"^test (\S+) \.\.\. FAILED", parts[3], flags=re.M) if len(parts) > 3 else []
    other_fail = [n for n in failed_names if PREFIX[:3] not in n.lower() and "write_index_equal_error_when_index_mismatch" not in n]
    confirmed = ok_without and fail_with and pinned is not None and int(pinned.group(1)) >= 36 and not other_fail
    print("m%d: demo-ok-without=%s demo-fails-with=%s pinned=%s other-failures=%s => %s"
          % (i, ok_without, fail_with, pinned.group(0) if pinned else None, other_fail, "CONFIRMED" if confirmed else "REJECTED"))
    if not confirmed:
        print(log[-1500:])
        continue
    meta = json.load(open(os.path.join(m, "meta.json")))
    d = os.path.join(VERIF, "seeded", "%s-m%d" % (TAG, i))
    os.makedirs(d, exist_ok=True)
    shutil.copy(os.path.join(m, "patch.diff"), d)
    shutil.copy(os.path.join(m, "demo.diff"), d)
    meta["confirmed_by_lead"] = {"how": "runner/confirm_seeded.sh in a scratch worktree: demo passes without the change; with the "
                                        "change the crate builds, the 36 pinned lib tests pass (known always-fail unchanged), demo fails",
                                 "log": log.strip().splitlines()}
    meta.setdefault("checks", [meta["property"]])
    json.dump(meta, open(os.path.join(d, "meta.json"), "w"), indent=1)
