"""C08 / C04: a follower killed DURING a snapshot install.
A leader writes a history and compacts; node 2 joins under the crashfs shim (LD_PRELOAD, no source change) and is caught up
by InstallSnapshot; its journal of file mutations is recorded.  For crash points inside the install window (the received
snapshot file being written .. catalogue / membership / last_applied saved .. log replaced) node 2's data directory image of
that journal prefix is materialised and node 2 is started on it, next to the running leader.  It must end up serving what the
leader serves (it may be caught up again by log entries or by another snapshot): an image from which it can never recover -
a last_applied beyond what snapshot + log reproduce, a catalogue naming a file that is not there - is a violation."""
import os
import shutil
import time

import nodelib
from nodelib import Cluster, wait_until
from nodescen import GROUP, apply_history, fatal_storage_errors, gen_history, read_all, wait_member, wait_serves


def scenario_install_crash_images(binary, rng, shim_so, parse_journal, apply_mut, write_image, n_images=4, writes=70, threshold=20,
                                  inspect=None):
    obs = {"scenario": "install_crash_images", "errors": [], "images": []}
    with Cluster(binary, nodelib.DEFAULT_WORKROOT, "ici") as c:
        n1 = c.node(1, auto_init=True, snapshot_log_size=threshold)
        n1.start()
        n1.wait_ready()
        ops = gen_history(rng, writes, tenants=("",))
        obs["write_errors"] = apply_history(n1, ops)
        snaps, _ = wait_until(n1.snapshot_files, 30.0)
        obs["leader_snapshot_files"] = snaps
        keys = sorted(set((op[1], op[2]) for op in ops if op[0] in ("pub", "del")))
        n2 = c.node(2, join_addr=n1.raft_addr, snapshot_log_size=100000)
        jpath = os.path.join(n2.workdir, "journal")
        os.makedirs(n2.data_dir, exist_ok=True)
        n2.extra_env = {"LD_PRELOAD": shim_so, "CRASHFS_ROOT": n2.data_dir, "CRASHFS_JOURNAL": jpath}
        n2.start()
        try:
            n2.wait_ready(need_leader=False)
        except RuntimeError as e:
            obs["errors"].append(str(e)[:300])
        m, _ = wait_member(n1, 2)
        obs["joined"] = bool(m)
        n1.publish("probe", GROUP, "p0")
        ok, _ = wait_serves(n2, "probe", "p0", 40.0)
        obs["caught_up"] = bool(ok)
        time.sleep(0.5)
        n2.kill9()
        if not (m and ok):
            return obs
        j = parse_journal(jpath, os.path.realpath(n2.data_dir))
        name = lambda mm: mm[1]
        obs["journal_len"] = len(j)
        first = next((i for i, mm in enumerate(j) if mm[0] == "C" and name(mm).startswith("snapshot_")), None)
        if first is None:
            obs["errors"].append("node 2 was caught up without a snapshot install (no snapshot file in its journal)")
            return obs
        # the install window: from the creation of the received snapshot file to a dozen mutations behind its last write
        last_w = max(i for i, mm in enumerate(j) if mm[0] == "W" and name(mm).startswith("snapshot_"))
        window = list(range(first + 1, min(len(j), last_w + 14) + 1))
        # the mutations of finalize_snapshot_installation (behind the last write of the received file) first, then the rest
        tail = [p for p in window if p > last_w]
        head = [p for p in window if p <= last_w]
        rng.shuffle(head)
        points = sorted((tail + head)[:n_images])
        obs["window"] = [first, last_w, len(window)]
        n2.extra_env = {}
        for pi, p in enumerate(points):
            files = {}
            for mm in j[:p]:
                apply_mut(files, mm)
            shutil.rmtree(n2.data_dir, ignore_errors=True)
            write_image(n2.data_dir, files)
            rec = {"journal_prefix": p, "tail": [[mm[0], name(mm)] + ([mm[2]] if len(mm) > 2 and not isinstance(mm[2], bytes) else []) for mm in j[max(0, p - 6):p]]}
            if inspect is not None:
                # what the real recovery code reads from this image (on a copy): last_applied vs what snapshot + log reproduce
                cp = n2.data_dir + ".inspect"
                shutil.rmtree(cp, ignore_errors=True)
                shutil.copytree(n2.data_dir, cp)
                try:
                    rec["recovered"] = inspect(cp)
                finally:
                    shutil.rmtree(cp, ignore_errors=True)
            try:
                n2.start()
                n2.wait_ready(need_leader=False)
            except RuntimeError as e:
                rec["start_error"] = str(e)[:200]
            probe = "p%d" % (pi + 1)
            n1.publish("probe", GROUP, probe)
            ok, secs = wait_serves(n2, "probe", probe, 45.0)
            if not ok and n2.alive():
                # a slow machine is not a failure: once more, with a fresh probe and a longer wait
                probe = probe + "b"
                n1.publish("probe", GROUP, probe)
                ok, secs = wait_serves(n2, "probe", probe, 90.0)
                rec["slow"] = True
            rec["follows"] = bool(ok)
            time.sleep(0.5)
            ref = read_all(n1, keys)
            got = read_all(n2, keys) if n2.alive() else {}
            rec["diff"] = [{"key": k, "leader": ref[k], "node2": got.get(k)} for k in ref if ref[k] != got.get(k)][:10]
            rec["n_keys"] = len(ref)
            rec["log_tail"] = n2.log_grep("panicked|fatal|ERROR", limit=4) if hasattr(n2, "log_grep") else []
            obs["images"].append(rec)
            if n2.alive():
                n2.kill9()
        obs["fatal_leader"] = [f for f in fatal_storage_errors(c) if f.get("node") == 1]
    return obs

