#!/usr/bin/env python3
"""Run the checks against the behaviour-preserving refactorings kept under /verif/harmless/r<i>/.
For each: apply patch.diff to /repo, run the quick check of every property whose anchors name the changed
file, undo.  A VIOLATION here is a false alarm (or, for translator-tied checks, a broken tie that the
check must report as `no-failing-input-found`).  Results: harmless/RESULTS.json.
usage: python3 runner/harmless.py [r1 r2 ...]"""
import json
import os
import re
import subprocess
import sys
import time

VERIF = os.path.dirname(os.path.dirname(os.path.abspath(__file__)))
REPO = os.path.join(os.path.dirname(VERIF), "repo")


def sh(cmd, **kw):
    return subprocess.run(cmd, shell=True, stdout=subprocess.PIPE, stderr=subprocess.STDOUT, text=True, **kw)


def props_for(files):
    out = []
    for l in open(os.path.join(VERIF, "properties.jsonl")):
        d = json.loads(l)
        if any(f in d["anchors"]["files"] for f in files):
            out.append(d["id"])
    return out


def main():
    hdir = os.path.join(VERIF, "harmless")
    ids = sys.argv[1:] or sorted((d for d in os.listdir(hdir) if os.path.isdir(os.path.join(hdir, d))), key=lambda x: int(x[1:]))
    if sh("git -C %s status --porcelain --untracked-files=no" % REPO).stdout.strip():
        print("repo not clean; refusing")
        sys.exit(2)
    res_path = os.path.join(hdir, "RESULTS.json")
    results = json.load(open(res_path)) if os.path.exists(res_path) else {}
    for rid in ids:
        d = os.path.join(hdir, rid)
        patch = open(os.path.join(d, "patch.diff")).read()
        files = re.findall(r"^\+\+\+ b/(\S+)", patch, flags=re.M)
        props = props_for(files)
        r = sh("git -C %s apply %s" % (REPO, os.path.join(d, "patch.diff")))
        if r.returncode != 0:
            print("%s: patch does not apply" % rid)
            results[rid] = {"applied": False, "files": files}
            continue
        out = {}
        try:
            for p in props:
                t = time.time()
                rr = sh("python3 runner/vp.py %s --tier quick" % p, cwd=VERIF, env=dict(os.environ, VERIF_SEED="11"))
                viol = [l for l in rr.stdout.splitlines() if l.startswith("VIOLATION")]
                out[p] = {"rc": rr.returncode, "wall_s": round(time.time() - t, 1), "violation": bool(viol),
                          "only_broken_tie": bool(viol) and all("no-failing-input-found" in l for l in viol), "lines": viol[:3]}
                print("%s %s / %s: rc=%s %s" % (rid, files, p, rr.returncode, ("; ".join(viol[:1])[:160] if viol else "quiet")))
        finally:
            sh("git -C %s checkout -- ." % REPO)
            sh("git -C %s clean -fdq src" % REPO)
        results[rid] = {"applied": True, "files": files, "checks": out}
        json.dump(results, open(res_path, "w"), indent=1)
    alarms = [(k, p) for k, v in results.items() if v.get("applied") for p, c in v["checks"].items() if c["violation"]]
    print("harmless: %d run, alarms: %s" % (len(ids), alarms))


if __name__ == "__main__":
    main()
