#!/bin/sh
# usage: runner/mkworkspace.sh <name>   -> /tmp/w/<name>/{repo,verif}: private clones for a builder
set -e
W=/tmp/w/$1
mkdir -p "$W"
git clone -q /repo "$W/repo"
git clone -q /verif "$W/verif"
git -C "$W/repo" checkout -q -b work
git -C "$W/verif" checkout -q -b work
git -C "$W/repo" config user.name builder; git -C "$W/repo" config user.email builder@example.invalid
git -C "$W/verif" config user.name builder; git -C "$W/verif" config user.email builder@example.invalid
echo "$W"
