#!/usr/bin/env python3
"""Multi-process test harness for the REAL r-nacos binary (python3 standard library only).

The library starts `rnacos` server processes on loopback ports (one data dir per node, all of
them below <verif>/.work/), drives them through the public HTTP API and returns plain
observations (dicts).  It never decides anything: verdicts belong to runner/checks/*.py.

Facts about the server this file relies on (r-nacos src/main.rs, src/common/mod.rs,
src/raft/network/mod.rs, src/starter.rs):

  * configuration = environment variables only; `rnacos -e <file>` loads exactly that env file
    instead of searching `.env` in cwd and all its parents (we pass an empty file);
  * RNACOS_SDK_HOST is the bind address of the http and the grpc server (we use 127.0.0.1);
  * HTTP routes on RNACOS_HTTP_PORT (no auth unless RNACOS_ENABLE_OPEN_API_AUTH=true):
        POST/GET/DELETE /nacos/v1/cs/configs             dataId, group, tenant, content
        GET/POST/PUT/DELETE /nacos/v1/console/namespaces customNamespaceId, namespaceName
        GET  /nacos/v1/raft/metrics        -> async-raft RaftMetrics as JSON
        POST /nacos/v1/raft/close-write    -> {"ok":1} | {"ok":0,"msg":..} (needs the marker
                                              file <data dir>/close_raft_mark)
        POST /nacos/v1/raft/joinnode       JSON [node_id, "ip:grpc_port"]   (leader only)
        POST /nacos/v1/raft/change-membership  JSON [id, id, ...]           (leader only)
    (`/init` and `/add-learner` exist in management.rs but are NOT routed);
  * RNACOS_RAFT_AUTO_INIT=true: a node with an empty raft log initialises a single-voter
    cluster {self}; RNACOS_RAFT_JOIN_ADDR=<leader ip:grpc_port>: a node with an empty raft log
    sends, 500 ms after start-up, a JoinNode request over grpc to that address; the receiver
    appends NodeAddr, add_non_voter(id) (= log/snapshot catch-up), change_membership(all+id);
  * RaftMetrics = {id, state, current_term, last_log_index, last_applied, current_leader,
    membership_config:{members:[..], members_after_consensus:null|[..]}}; there is NO snapshot
    field, hence snapshots are observed through the `snapshot_<n>` files of the data dir.
"""
import atexit
import ctypes
import fcntl
import json
import os
import re
import shutil
import signal
import socket
import subprocess
import sys
import time
import urllib.error
import urllib.parse
import urllib.request

VERIF = os.path.dirname(os.path.dirname(os.path.abspath(__file__)))
WORK = os.path.join(VERIF, ".work")
DEFAULT_REPO = os.environ.get("VERIF_REPO", os.path.join(os.path.dirname(VERIF), "repo"))
DEFAULT_TARGET = os.path.join(WORK, "target-node")
DEFAULT_WORKROOT = os.path.join(WORK, "nodes")

HTTP_TIMEOUT = 8.0
START_TIMEOUT = 60.0

# ----------------------------------------------------------------------------------------------
# build
# ----------------------------------------------------------------------------------------------


def binary_path(target_dir=DEFAULT_TARGET):
    return os.path.join(target_dir, "debug", "rnacos")


def build_binary(repo=DEFAULT_REPO, target_dir=DEFAULT_TARGET, timeout=3000):
    """cargo build --offline --bin rnacos (no cfg flags) -> (ok, log, path). Serialised by a
    file lock so that concurrent checks do not fight for the target dir."""
    os.makedirs(WORK, exist_ok=True)
    path = binary_path(target_dir)
    env = dict(os.environ)
    env["CARGO_TARGET_DIR"] = target_dir
    env["CARGO_NET_OFFLINE"] = "true"
    env.pop("RUSTFLAGS", None)
    with open(os.path.join(WORK, "node-build.lock"), "w") as lock:
        fcntl.flock(lock, fcntl.LOCK_EX)
        try:
            p = subprocess.run(
                ["cargo", "build", "--offline", "--bin", "rnacos"],
                cwd=repo,
                env=env,
                stdout=subprocess.PIPE,
                stderr=subprocess.STDOUT,
                timeout=timeout,
            )
            out = p.stdout.decode("utf-8", "replace")
            ok = p.returncode == 0 and os.path.isfile(path)
        except subprocess.TimeoutExpired as e:
            out = (e.stdout or b"").decode("utf-8", "replace") + "\n[build timeout]"
            ok = False
        except OSError as e:
            out = "cannot run cargo: %s" % e
            ok = False
        finally:
            fcntl.flock(lock, fcntl.LOCK_UN)
    return ok, out[-4000:], path


# ----------------------------------------------------------------------------------------------
# ports / http
# ----------------------------------------------------------------------------------------------


def free_ports(n):
    """n distinct free loopback TCP ports (bind to port 0, collect, close)."""
    socks, ports = [], []
    try:
        while len(ports) < n:
            s = socket.socket(socket.AF_INET, socket.SOCK_STREAM)
            s.bind(("127.0.0.1", 0))
            socks.append(s)
            port = s.getsockname()[1]
            if port not in ports:
                ports.append(port)
    finally:
        for s in socks:
            s.close()
    return ports


_OPENER = urllib.request.build_opener(urllib.request.ProxyHandler({}))


def http(method, url, form=None, body=None, headers=None, timeout=HTTP_TIMEOUT):
    """-> (status, text). status 0 = no HTTP answer (refused / reset / timeout), text = reason."""
    data = None
    hdrs = dict(headers or {})
    if form is not None:
        data = urllib.parse.urlencode(form).encode("utf-8")
        hdrs.setdefault("Content-Type", "application/x-www-form-urlencoded")
    elif body is not None:
        data = body if isinstance(body, bytes) else body.encode("utf-8")
    req = urllib.request.Request(url, data=data, headers=hdrs, method=method)
    try:
        with _OPENER.open(req, timeout=timeout) as r:
            return r.status, r.read().decode("utf-8", "replace")
    except urllib.error.HTTPError as e:
        try:
            txt = e.read().decode("utf-8", "replace")
        except Exception:  # noqa: BLE001
            txt = ""
        return e.code, txt
    except Exception as e:  # noqa: BLE001  URLError, socket.timeout, ConnectionError, ...
        return 0, "ERR %s: %s" % (type(e).__name__, e)


# ----------------------------------------------------------------------------------------------
# process bookkeeping: children are only ever signalled through their saved PID
# ----------------------------------------------------------------------------------------------

_LIVE = set()


def _kill_all_live():
    for n in list(_LIVE):
        try:
            n.kill9()
        except Exception:  # noqa: BLE001
            pass


atexit.register(_kill_all_live)

_PR_SET_PDEATHSIG = 1


def _child_setup():
    # the child dies with the harness even if the harness is SIGKILLed
    if os.environ.get("NODELIB_NO_PDEATHSIG") != "1":
        try:
            ctypes.CDLL(None, use_errno=True).prctl(_PR_SET_PDEATHSIG, signal.SIGKILL, 0, 0, 0)
        except Exception:  # noqa: BLE001
            pass


class Node:
    """One rnacos server process. workdir/{data/, node.log, env_empty}."""

    def __init__(
        self,
        binary,
        workdir,
        node_id,
        http_port,
        grpc_port,
        console_port,
        join_addr=None,
        auto_init=False,
        snapshot_log_size=None,
        extra_env=None,
        rust_log="info",
    ):
        self.binary = binary
        self.workdir = os.path.abspath(workdir)
        self.data_dir = os.path.join(self.workdir, "data")
        self.log_path = os.path.join(self.workdir, "node.log")
        self.node_id = int(node_id)
        self.http_port = http_port
        self.grpc_port = grpc_port
        self.console_port = console_port
        self.join_addr = join_addr
        self.auto_init = bool(auto_init)
        self.snapshot_log_size = snapshot_log_size
        self.extra_env = dict(extra_env or {})
        self.rust_log = rust_log
        self.proc = None
        self.pid = None
        self.starts = 0
        self.base = "http://127.0.0.1:%d" % http_port

    # -- addresses ---------------------------------------------------------------------------
    @property
    def raft_addr(self):
        return "127.0.0.1:%d" % self.grpc_port

    def env(self):
        e = {
            k: v
            for k, v in os.environ.items()
            if not k.startswith("RNACOS_") and k not in ("RUST_LOG", "RUST_BACKTRACE")
        }
        e.update(
            {
                "RNACOS_DATA_DIR": self.data_dir,
                "RNACOS_SDK_HOST": "127.0.0.1",
                "RNACOS_HTTP_PORT": str(self.http_port),
                "RNACOS_GRPC_PORT": str(self.grpc_port),
                "RNACOS_HTTP_CONSOLE_PORT": str(self.console_port),
                "RNACOS_HTTP_WORKERS": "2",
                "RNACOS_RAFT_NODE_ID": str(self.node_id),
                "RNACOS_RAFT_NODE_ADDR": self.raft_addr,
                "RNACOS_RAFT_AUTO_INIT": "true" if self.auto_init else "false",
                "RNACOS_RAFT_JOIN_ADDR": self.join_addr or "",
                "RNACOS_ENABLE_NO_AUTH_CONSOLE": "true",
                "RNACOS_ENABLE_OPEN_API_AUTH": "false",
                "RNACOS_CONSOLE_ENABLE_CAPTCHA": "false",
                "RNACOS_ENABLE_METRICS": "false",
                "RNACOS_LDAP_ENABLE": "false",
                "RNACOS_OAUTH2_ENABLE": "false",
                "RUST_LOG": self.rust_log,
                "RUST_BACKTRACE": "1",
            }
        )
        if self.snapshot_log_size is not None:
            e["RNACOS_RAFT_SNAPSHOT_LOG_SIZE"] = str(self.snapshot_log_size)
        e.update(self.extra_env)
        return e

    # -- life cycle --------------------------------------------------------------------------
    def start(self):
        if self.alive():
            raise RuntimeError("node %d already running (pid %s)" % (self.node_id, self.pid))
        os.makedirs(self.data_dir, exist_ok=True)
        env_file = os.path.join(self.workdir, "env_empty")
        if not os.path.exists(env_file):
            open(env_file, "w").close()
        self.starts += 1
        with open(self.log_path, "ab") as logf:
            logf.write(("\n==== nodelib start #%d %s ====\n" % (self.starts, time.ctime())).encode())
            logf.flush()
            self.proc = subprocess.Popen(
                [self.binary, "-e", env_file],
                cwd=self.workdir,
                env=self.env(),
                stdin=subprocess.DEVNULL,
                stdout=logf,
                stderr=subprocess.STDOUT,
                start_new_session=True,
                preexec_fn=_child_setup,
            )
        self.pid = self.proc.pid
        _LIVE.add(self)
        return self

    def alive(self):
        return self.proc is not None and self.proc.poll() is None

    def _signal(self, sig):
        if self.alive():
            try:
                os.kill(self.pid, sig)
                return True
            except ProcessLookupError:
                pass
        return False

    def _reap(self, timeout):
        if self.proc is None:
            return None
        try:
            return self.proc.wait(timeout=timeout)
        except subprocess.TimeoutExpired:
            return None

    def stop(self, grace=5.0):
        """SIGTERM (after SIGCONT, a stopped process would not see it), then SIGKILL."""
        rc = None
        if self.alive():
            self._signal(signal.SIGCONT)
            self._signal(signal.SIGTERM)
            rc = self._reap(grace)
            if rc is None:
                self._signal(signal.SIGKILL)
                rc = self._reap(10.0)
        elif self.proc is not None:
            rc = self.proc.returncode
        _LIVE.discard(self)
        return rc

    def kill9(self):
        rc = None
        if self.alive():
            self._signal(signal.SIGKILL)
            rc = self._reap(10.0)
        elif self.proc is not None:
            rc = self.proc.returncode
        _LIVE.discard(self)
        return rc

    def sigstop(self):
        return self._signal(signal.SIGSTOP)

    def sigcont(self):
        return self._signal(signal.SIGCONT)

    def restart(self, hard=False, wait=True, timeout=START_TIMEOUT):
        """stop (SIGKILL when hard) + start on the same data dir. After a restart neither
        auto-init nor auto-join do anything (the raft log is not empty any more)."""
        (self.kill9 if hard else self.stop)()
        self._wait_port_closed()
        self.start()
        return self.wait_ready(timeout) if wait else None

    def _wait_port_closed(self, timeout=5.0):
        end = time.time() + timeout
        while time.time() < end:
            s = socket.socket(socket.AF_INET, socket.SOCK_STREAM)
            s.settimeout(0.3)
            try:
                if s.connect_ex(("127.0.0.1", self.http_port)) != 0:
                    return True
            finally:
                s.close()
            time.sleep(0.1)
        return False

    def wait_ready(self, timeout=START_TIMEOUT, need_leader=None):
        """Poll GET /nacos/v1/raft/metrics until the node answers; with need_leader (default:
        the node auto-inits or auto-joins) also until current_leader is known, and for an
        auto-init node until it is that leader itself. -> seconds waited. Raises on failure."""
        if need_leader is None:
            need_leader = self.auto_init or bool(self.join_addr)
        t0 = time.time()
        last = None
        while time.time() - t0 < timeout:
            if not self.alive():
                raise RuntimeError(
                    "node %d exited rc=%s during start-up\n%s"
                    % (self.node_id, self.proc.returncode, self.log_tail())
                )
            last = self.metrics(timeout=2.0)
            if last is not None:
                leader = last.get("current_leader")
                if not need_leader:
                    return time.time() - t0
                if leader is not None and last.get("last_applied", 0) > 0:
                    single = self.auto_init and self.starts == 1 and not self.join_addr
                    if not single or (leader == self.node_id and last.get("state") == "Leader"):
                        return time.time() - t0
            time.sleep(0.2)
        raise RuntimeError(
            "node %d not ready after %.0fs, last metrics=%r\n%s"
            % (self.node_id, timeout, last, self.log_tail())
        )

    def log_tail(self, n=30):
        try:
            with open(self.log_path, "rb") as f:
                return "\n".join(f.read().decode("utf-8", "replace").splitlines()[-n:])
        except OSError:
            return ""

    def log_grep(self, pattern, limit=20):
        rx = re.compile(pattern)
        out = []
        try:
            with open(self.log_path, "rb") as f:
                for line in f.read().decode("utf-8", "replace").splitlines():
                    if rx.search(line):
                        out.append(line[:300])
        except OSError:
            pass
        return out[-limit:]

    def snapshot_files(self):
        """names of the snapshot_<n> files below the data dir (relative paths)."""
        found = []
        for root, _dirs, files in os.walk(self.data_dir):
            for f in files:
                if f.startswith("snapshot_"):
                    p = os.path.join(root, f)
                    try:
                        size = os.path.getsize(p)
                    except OSError:
                        size = -1
                    found.append({"file": os.path.relpath(p, self.data_dir), "size": size})
        return sorted(found, key=lambda d: d["file"])

    def cleanup(self, remove=True):
        self.stop()
        if remove and os.environ.get("NODELIB_KEEP") != "1":
            shutil.rmtree(self.workdir, ignore_errors=True)

    def __enter__(self):
        return self

    def __exit__(self, *a):
        self.cleanup()
        return False

    # -- HTTP API ----------------------------------------------------------------------------
    def url(self, path):
        return self.base + path

    def publish(self, data_id, group, content, tenant="", timeout=HTTP_TIMEOUT):
        form = {"dataId": data_id, "group": group, "content": content}
        if tenant:
            form["tenant"] = tenant
        return http("POST", self.url("/nacos/v1/cs/configs"), form=form, timeout=timeout)

    def get_config(self, data_id, group, tenant="", timeout=HTTP_TIMEOUT):
        q = {"dataId": data_id, "group": group}
        if tenant:
            q["tenant"] = tenant
        return http(
            "GET", self.url("/nacos/v1/cs/configs?" + urllib.parse.urlencode(q)), timeout=timeout
        )

    def delete_config(self, data_id, group, tenant="", timeout=HTTP_TIMEOUT):
        q = {"dataId": data_id, "group": group}
        if tenant:
            q["tenant"] = tenant
        return http(
            "DELETE",
            self.url("/nacos/v1/cs/configs?" + urllib.parse.urlencode(q)),
            timeout=timeout,
        )

    def metrics(self, timeout=HTTP_TIMEOUT):
        """GET /nacos/v1/raft/metrics -> dict, or None when the node does not answer."""
        st, body = http("GET", self.url("/nacos/v1/raft/metrics"), timeout=timeout)
        if st != 200:
            return None
        try:
            return json.loads(body)
        except ValueError:
            return None

    def close_write(self, timeout=HTTP_TIMEOUT):
        return http("POST", self.url("/nacos/v1/raft/close-write"), body=b"", timeout=timeout)

    def namespaces(self, timeout=HTTP_TIMEOUT):
        """-> (status, sorted list of {id, name}) from GET /nacos/v1/console/namespaces."""
        st, body = http("GET", self.url("/nacos/v1/console/namespaces"), timeout=timeout)
        items = []
        if st == 200:
            try:
                for it in json.loads(body).get("data") or []:
                    items.append(
                        {"id": it.get("namespace") or "", "name": it.get("namespaceShowName")}
                    )
            except (ValueError, AttributeError):
                return st, body
        else:
            return st, body
        return st, sorted(items, key=lambda d: d["id"])

    def add_namespace(self, ns_id, name, timeout=HTTP_TIMEOUT):
        return http(
            "POST",
            self.url("/nacos/v1/console/namespaces"),
            form={"customNamespaceId": ns_id, "namespaceName": name},
            timeout=timeout,
        )

    def joinnode(self, node_id, raft_addr, timeout=HTTP_TIMEOUT):
        """POST /nacos/v1/raft/joinnode on the LEADER: NodeAddr + add_non_voter + membership."""
        return http(
            "POST",
            self.url("/nacos/v1/raft/joinnode"),
            body=json.dumps([int(node_id), raft_addr]),
            headers={"Content-Type": "application/json"},
            timeout=timeout,
        )

    def change_membership(self, ids, timeout=HTTP_TIMEOUT):
        return http(
            "POST",
            self.url("/nacos/v1/raft/change-membership"),
            body=json.dumps(sorted(int(i) for i in ids)),
            headers={"Content-Type": "application/json"},
            timeout=timeout,
        )


class Cluster:
    """Owns a work directory and the nodes started in it; `with Cluster(...) as c:` kills every
    child (by saved PID) and removes the directory on exit (kept when NODELIB_KEEP=1)."""

    def __init__(self, binary, workroot, name):
        self.binary = binary
        os.makedirs(workroot, exist_ok=True)
        self.dir = os.path.join(
            os.path.abspath(workroot), "%s-%d-%d" % (name, os.getpid(), int(time.time() * 1000))
        )
        if not (self.dir + os.sep).startswith(os.path.abspath(WORK) + os.sep):
            raise RuntimeError("work dir %s must live below %s" % (self.dir, WORK))
        os.makedirs(self.dir)
        self.nodes = []

    def node(self, node_id, **kw):
        h, g, c = free_ports(3)
        n = Node(self.binary, os.path.join(self.dir, "n%d" % node_id), node_id, h, g, c, **kw)
        self.nodes.append(n)
        return n

    def close(self):
        for n in self.nodes:
            try:
                n.stop(grace=3.0)
            except Exception:  # noqa: BLE001
                pass
        if os.environ.get("NODELIB_KEEP") != "1":
            shutil.rmtree(self.dir, ignore_errors=True)

    def __enter__(self):
        return self

    def __exit__(self, *a):
        self.close()
        return False


def wait_until(pred, timeout, step=0.25):
    """-> (value, seconds) with value = first truthy pred() or the last falsy one."""
    t0 = time.time()
    v = None
    while True:
        v = pred()
        if v or time.time() - t0 >= timeout:
            return v, time.time() - t0
        time.sleep(step)


def wait_caught_up(follower, leader, timeout=60.0):
    """until follower.last_applied >= leader.last_log_index (both read in the same poll)."""

    def pred():
        ml, mf = leader.metrics(timeout=3.0), follower.metrics(timeout=3.0)
        if ml and mf and mf.get("last_applied", 0) >= ml.get("last_log_index", 1 << 62):
            return {"leader": ml, "follower": mf}
        return None

    v, secs = wait_until(pred, timeout)
    return v, secs


def _ms(t0):
    return int((time.time() - t0) * 1000)


# ----------------------------------------------------------------------------------------------
# scenario A: acknowledgement of a write that the (write-closed) raft store refuses
# ----------------------------------------------------------------------------------------------


def scenario_ack_single(binary, workroot=DEFAULT_WORKROOT):
    obs = {"scenario": "ack_single", "steps": {}, "timings_ms": {}}
    T0 = time.time()
    key, group = "ack.test", "G"
    with Cluster(binary, workroot, "ack") as c:
        n = c.node(1, auto_init=True)
        t = time.time()
        n.start()
        n.wait_ready()
        obs["timings_ms"]["start"] = _ms(t)
        obs["ports"] = {"http": n.http_port, "grpc": n.grpc_port, "console": n.console_port}
        s = obs["steps"]
        s["metrics_ready"] = n.metrics()
        s["publish_one"] = n.publish(key, group, "one")
        s["get_after_one"] = n.get_config(key, group)
        s["close_write_without_mark"] = n.close_write()
        with open(os.path.join(n.data_dir, "close_raft_mark"), "w"):
            pass
        s["close_write"] = n.close_write()
        m0 = n.metrics()
        t = time.time()
        s["publish_two"] = n.publish(key, group, "two")
        obs["timings_ms"]["publish_two"] = _ms(t)
        s["get_after_two"] = n.get_config(key, group)
        time.sleep(1.0)
        s["get_after_two_1s"] = n.get_config(key, group)
        t = time.time()
        s["delete"] = n.delete_config(key, group)
        obs["timings_ms"]["delete"] = _ms(t)
        s["get_after_delete"] = n.get_config(key, group)
        s["publish_new_key"] = n.publish("ack.test2", group, "x")
        s["get_new_key"] = n.get_config("ack.test2", group)
        m1 = n.metrics()
        s["metrics_before_closed_writes"] = m0
        s["metrics_after_closed_writes"] = m1
        s["log_close_write"] = n.log_grep(r"close_write|close write|CloseWrite|raft write", 10)
        s["log_errors"] = n.log_grep(r" ERROR | WARN ", 10)
        s["alive_at_end"] = n.alive()
    obs["timings_ms"]["total"] = _ms(T0)
    return obs


# ----------------------------------------------------------------------------------------------
# scenario B: a node that joins late is caught up by snapshot install
# ----------------------------------------------------------------------------------------------


def _read_all(node, keys, group, tenant_keys=()):
    """-> {key: value | None(404) | 'HTTP <status> <body>'}"""
    out = {}
    for k in keys:
        st, body = node.get_config(k, group)
        out[k] = body if st == 200 else (None if st == 404 else "HTTP %d %s" % (st, body[:80]))
    for ten, k in tenant_keys:
        st, body = node.get_config(k, group, tenant=ten)
        out[ten + "/" + k] = (
            body if st == 200 else (None if st == 404 else "HTTP %d %s" % (st, body[:80]))
        )
    return out


def _diff(ref, got, index_of=None):
    d = []
    for k in ref:
        if ref[k] != got.get(k):
            e = {"key": k, "node1": ref[k], "node2": got.get(k)}
            if index_of and k in index_of:
                e["log_index"] = index_of[k]
            d.append(e)
    return d


def _summ(diff, total, cap=400):
    idx = [e["log_index"] for e in diff if "log_index" in e]
    return {
        "checked": total,
        "differing": len(diff),
        "differing_log_index_min": min(idx) if idx else None,
        "differing_log_index_max": max(idx) if idx else None,
        "diff": diff[:cap],
    }


def scenario_late_join(binary, workroot=DEFAULT_WORKROOT, writes=200, threshold=50):
    obs = {
        "scenario": "late_join",
        "writes": writes,
        "threshold": threshold,
        "timings_ms": {},
        "errors": [],
    }
    T0 = time.time()
    group = "G"
    with Cluster(binary, workroot, "latejoin") as c:
        n1 = c.node(1, auto_init=True, snapshot_log_size=threshold)
        t = time.time()
        n1.start()
        n1.wait_ready()
        obs["timings_ms"]["start_node1"] = _ms(t)

        # ---- phase 1: history on the single node -------------------------------------------
        t = time.time()
        index_of = {}  # key -> raft log index of the LAST write to that key
        bad = []

        def w(op, key, *a, **kw):
            st, body = getattr(n1, op)(key, group, *a, **kw)
            if st != 200 or body.strip() != "true":
                bad.append([op, key, st, body[:100]])
            m = n1.metrics()
            ten = kw.get("tenant")
            index_of[(ten + "/" + key) if ten else key] = m["last_log_index"] if m else None

        obs["namespace_add"] = [n1.add_namespace("ns1", "ns-one"), n1.add_namespace("ns2", "ns-two")]
        keys = ["k%d" % i for i in range(writes)]
        for i, k in enumerate(keys):
            w("publish", k, "v%d" % i)
        overwritten = [keys[i] for i in range(0, writes, 10)]
        for k in overwritten:
            w("publish", k, "w" + k[1:])
        deleted = [keys[i] for i in range(5, writes, 25)]
        for k in deleted:
            w("delete_config", k)
        tenant_keys = [("ns1", "t0"), ("ns1", "t1"), ("ns2", "t0")]
        for ten, k in tenant_keys:
            w("publish", k, "tv-%s-%s" % (ten, k), tenant=ten)
        obs["write_errors"] = bad
        obs["timings_ms"]["history_writes"] = _ms(t)

        snaps, secs = wait_until(n1.snapshot_files, 30.0)
        obs["node1_snapshot_files_before_join"] = snaps
        obs["timings_ms"]["wait_snapshot_node1"] = int(secs * 1000)
        # a few writes that are NOT covered by any snapshot of node 1 (less than `threshold`
        # entries after the last one): they must reach node 2 as ordinary log entries
        tail_keys = ["tail%d" % i for i in range(5)]
        time.sleep(1.0)
        for i, k in enumerate(tail_keys):
            w("publish", k, "tailv%d" % i)
        m1 = n1.metrics()
        obs["node1_metrics_before_join"] = m1
        obs["node1_snapshot_files_at_join"] = n1.snapshot_files()
        obs["node1_log_snapshot_lines"] = n1.log_grep(r"(?i)snapshot", 12)
        all_keys = keys + tail_keys
        ref = _read_all(n1, all_keys, group, tenant_keys)
        ref_ns = n1.namespaces()
        obs["node1_present_keys"] = sum(1 for v in ref.values() if v is not None)
        obs["node1_namespaces"] = ref_ns

        # ---- phase 2: node 2 (then node 3) joins -------------------------------------------
        n2 = c.node(2, join_addr=n1.raft_addr, snapshot_log_size=threshold)
        t = time.time()
        n2.start()
        try:
            n2.wait_ready()
        except RuntimeError as e:
            obs["errors"].append("node2 wait_ready: %s" % str(e)[:600])
        obs["timings_ms"]["start_node2"] = _ms(t)
        v, secs = wait_caught_up(n2, n1, 60.0)
        obs["node2_caught_up"] = bool(v)
        obs["timings_ms"]["node2_catch_up_after_ready"] = int(secs * 1000)
        memb, secs = wait_until(
            lambda: (lambda m: m if m and 2 in m["membership_config"]["members"]
                     and not m["membership_config"]["members_after_consensus"] else None)(n2.metrics()),
            20.0,
        )
        obs["node2_metrics_after_join"] = memb or n2.metrics()
        obs["node1_metrics_after_join"] = n1.metrics()
        obs["node2_snapshot_files_after_join"] = n2.snapshot_files()
        obs["node2_snapshot_installed"] = bool(obs["node2_snapshot_files_after_join"])
        obs["node2_log_install_lines"] = n2.log_grep(r"(?i)install|snapshot", 12)

        got = _read_all(n2, all_keys, group, tenant_keys)
        d = _diff(ref, got, index_of)
        obs["before_restart"] = _summ(d, len(ref))
        obs["before_restart"]["tail_keys_served"] = {k: got.get(k) for k in tail_keys}
        obs["before_restart"]["node2_namespaces"] = n2.namespaces()
        obs["before_restart"]["namespaces_equal"] = n2.namespaces() == ref_ns
        obs["before_restart"]["node2_present_keys"] = sum(1 for v in got.values() if v is not None)

        n3 = c.node(3, join_addr=n1.raft_addr, snapshot_log_size=threshold)
        t = time.time()
        n3.start()
        try:
            n3.wait_ready()
        except RuntimeError as e:
            obs["errors"].append("node3 wait_ready: %s" % str(e)[:600])
        v3, secs = wait_caught_up(n3, n1, 60.0)
        obs["node3_caught_up"] = bool(v3)
        obs["timings_ms"]["node3_join_total"] = _ms(t)
        wait_until(
            lambda: (lambda m: m and 3 in m["membership_config"]["members"]
                     and not m["membership_config"]["members_after_consensus"])(n1.metrics()),
            20.0,
        )
        obs["node3_metrics_after_join"] = n3.metrics()
        obs["node3_snapshot_files_after_join"] = n3.snapshot_files()
        got3 = _read_all(n3, all_keys, group, tenant_keys)
        obs["node3_before_restart"] = _summ(_diff(ref, got3, index_of), len(ref), cap=5)

        # ---- phase 3: ordinary replication after the install --------------------------------
        post_keys = ["post%d" % i for i in range(5)]
        post_res = [n1.publish(k, group, "postv%d" % i) for i, k in enumerate(post_keys)]
        wait_caught_up(n2, n1, 20.0)
        time.sleep(0.5)
        ref_post = _read_all(n1, post_keys, group)
        got_post = _read_all(n2, post_keys, group)
        obs["post_install_writes"] = {
            "publish_results": post_res,
            "node1": ref_post,
            "node2": got_post,
            "differing": len(_diff(ref_post, got_post)),
        }
        # did the missing keys heal meanwhile (without restart)?
        got_b = _read_all(n2, all_keys, group, tenant_keys)
        obs["before_restart_second_read"] = _summ(_diff(ref, got_b, index_of), len(ref), cap=5)

        # ---- phase 4: restart node 2 -------------------------------------------------------
        t = time.time()
        try:
            n2.restart()
        except RuntimeError as e:
            obs["errors"].append("node2 restart: %s" % str(e)[:600])
        v, secs = wait_caught_up(n2, n1, 60.0)
        obs["node2_caught_up_after_restart"] = bool(v)
        obs["timings_ms"]["node2_restart_total"] = _ms(t)
        ref2 = _read_all(n1, all_keys + post_keys, group, tenant_keys)
        got2 = _read_all(n2, all_keys + post_keys, group, tenant_keys)
        obs["after_restart"] = _summ(_diff(ref2, got2, index_of), len(ref2))
        obs["after_restart"]["node2_namespaces"] = n2.namespaces()
        obs["after_restart"]["namespaces_equal"] = n2.namespaces() == n1.namespaces()
        obs["after_restart"]["node2_present_keys"] = sum(1 for v in got2.values() if v is not None)
        obs["node2_metrics_after_restart"] = n2.metrics()
        obs["node1_metrics_end"] = n1.metrics()
        obs["node2_log_errors"] = n2.log_grep(r" ERROR | WARN |panicked", 10)
        obs["node1_log_errors"] = n1.log_grep(r" ERROR | WARN |panicked", 10)
        obs["ports"] = {
            str(n.node_id): {"http": n.http_port, "grpc": n.grpc_port, "console": n.console_port}
            for n in c.nodes
        }
    obs["timings_ms"]["total"] = _ms(T0)
    return obs


# ----------------------------------------------------------------------------------------------
# scenario C (cheap extra): writes through a follower, with and without a reachable leader
# ----------------------------------------------------------------------------------------------


def scenario_follower_write(binary, workroot=DEFAULT_WORKROOT, voters=3):
    obs = {"scenario": "follower_write", "voters": voters, "timings_ms": {}, "errors": []}
    T0 = time.time()
    group = "G"
    with Cluster(binary, workroot, "follower%d" % voters) as c:
        n1 = c.node(1, auto_init=True)
        n1.start()
        n1.wait_ready()
        others = []
        for i in range(2, voters + 1):
            n = c.node(i, join_addr=n1.raft_addr)
            n.start()
            n.wait_ready()
            wait_caught_up(n, n1, 30.0)
            wait_until(
                lambda i=i: (lambda m: m and i in m["membership_config"]["members"]
                             and not m["membership_config"]["members_after_consensus"])(n1.metrics()),
                20.0,
            )
            others.append(n)
        n2 = others[0]
        obs["metrics_start"] = {str(n.node_id): n.metrics() for n in c.nodes}
        t = time.time()
        obs["publish_on_follower_leader_up"] = n2.publish("f.key", group, "f1")
        obs["timings_ms"]["publish_on_follower_leader_up"] = _ms(t)
        obs["get_on_follower_immediately"] = n2.get_config("f.key", group)
        time.sleep(1.5)
        obs["get_everywhere_leader_up"] = {
            str(n.node_id): n.get_config("f.key", group) for n in c.nodes
        }
        n1.sigstop()
        t = time.time()
        obs["publish_on_follower_leader_stopped_immediately"] = n2.publish(
            "f.key", group, "f2", timeout=20.0
        )
        obs["timings_ms"]["publish_leader_stopped_immediately"] = _ms(t)
        obs["get_on_follower_after_f2"] = n2.get_config("f.key", group)
        newl, secs = wait_until(
            lambda: (lambda m: m if m and m.get("current_leader") not in (None, 1) else None)(
                n2.metrics()
            ),
            15.0,
        )
        obs["new_leader_metrics_node2"] = newl or n2.metrics()
        obs["timings_ms"]["wait_new_leader"] = int(secs * 1000)
        t = time.time()
        obs["publish_on_follower_leader_stopped_later"] = n2.publish(
            "f.key", group, "f3", timeout=20.0
        )
        obs["timings_ms"]["publish_leader_stopped_later"] = _ms(t)
        obs["get_on_follower_after_f3"] = n2.get_config("f.key", group)
        obs["metrics_leader_stopped"] = {str(n.node_id): n.metrics(timeout=2.0) for n in others}
        n1.sigcont()
        time.sleep(6.0)
        obs["metrics_after_cont"] = {str(n.node_id): n.metrics() for n in c.nodes}
        obs["get_everywhere_after_cont"] = {
            str(n.node_id): n.get_config("f.key", group) for n in c.nodes
        }
    obs["timings_ms"]["total"] = _ms(T0)
    return obs


SCENARIOS = {
    "ack": scenario_ack_single,
    "latejoin": scenario_late_join,
    "follower": scenario_follower_write,
}


def main(argv=None):
    import argparse

    ap = argparse.ArgumentParser(description=__doc__.splitlines()[0])
    ap.add_argument("scenario", choices=sorted(SCENARIOS) + ["build"])
    ap.add_argument("--work", default=DEFAULT_WORKROOT)
    ap.add_argument("--binary", default=None)
    ap.add_argument("--repo", default=DEFAULT_REPO)
    ap.add_argument("--target", default=DEFAULT_TARGET)
    ap.add_argument("--writes", type=int, default=200)
    ap.add_argument("--threshold", type=int, default=50)
    ap.add_argument("--voters", type=int, default=3)
    ap.add_argument("--build", action="store_true", help="(re)build the binary first")
    a = ap.parse_args(argv)

    # make SIGTERM / SIGINT run the atexit clean-up
    for sig in (signal.SIGTERM, signal.SIGINT, signal.SIGHUP):
        signal.signal(sig, lambda *_: sys.exit(130))

    binary = a.binary or binary_path(a.target)
    if a.build or a.scenario == "build" or not os.path.isfile(binary):
        ok, log, binary = build_binary(a.repo, a.target)
        if not ok:
            print(json.dumps({"build_ok": False, "log": log}, indent=1))
            return 2
        if a.scenario == "build":
            print(json.dumps({"build_ok": True, "binary": binary}))
            return 0
    if a.scenario == "latejoin":
        obs = scenario_late_join(binary, a.work, writes=a.writes, threshold=a.threshold)
    elif a.scenario == "follower":
        obs = scenario_follower_write(binary, a.work, voters=a.voters)
    else:
        obs = scenario_ack_single(binary, a.work)
    print(json.dumps(obs, indent=1, ensure_ascii=False))
    return 0


if __name__ == "__main__":
    sys.exit(main())
