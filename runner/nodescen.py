"""Scenarios on the REAL rnacos binary (multi-process, loopback) for C06 and C08.
Only observations are produced here; verdicts are taken in runner/checks/c06.py / c08.py."""
import os
import time

import nodelib
from nodelib import Cluster, wait_until

GROUP = "G"


def wait_member(leader, node_id, timeout=40.0):
    """until the LEADER's committed membership contains node_id (joiner metrics are unreliable)"""
    def pred():
        m = leader.metrics(timeout=3.0)
        if m and node_id in m["membership_config"]["members"] and not m["membership_config"]["members_after_consensus"]:
            return m
        return None
    return wait_until(pred, timeout)


def wait_serves(node, key, value, timeout=30.0, tenant=""):
    def pred():
        st, body = node.get_config(key, GROUP, tenant=tenant)
        return (st == 200 and body == value) or None
    return wait_until(pred, timeout)


def read_all(node, keys):
    """keys: list of (tenant, dataId) -> {"tenant/dataId": value | None | 'HTTP ..'}"""
    out = {}
    for ten, k in keys:
        st, body = node.get_config(k, GROUP, tenant=ten)
        out[ten + "/" + k] = body if st == 200 else (None if st == 404 else "HTTP %d %s" % (st, body[:60]))
    return out


def apply_history(leader, ops):
    """ops: list of ("pub", tenant, key, value) | ("del", tenant, key) | ("ns", id, name).
    Returns list of (op, status, body) for ops that were not answered with success."""
    bad = []
    for op in ops:
        if op[0] == "pub":
            st, body = leader.publish(op[2], GROUP, op[3], tenant=op[1])
        elif op[0] == "del":
            st, body = leader.delete_config(op[2], GROUP, tenant=op[1])
        else:
            st, body = leader.add_namespace(op[1], op[2])
        if st != 200:
            bad.append([list(op), st, body[:100]])
    return bad


def expected_state(ops):
    """sequential spec of the acknowledged history: key -> value | None"""
    st = {}
    for op in ops:
        if op[0] == "pub":
            st[op[1] + "/" + op[2]] = op[3]
        elif op[0] == "del":
            st[op[1] + "/" + op[2]] = None
    return st


def gen_history(rng, n, tenants=("", "ns1")):
    ops = [("ns", "ns1", "ns-one")]
    keys = ["k%d" % i for i in range(max(4, n // 3))]
    for i in range(n):
        ten = rng.choice(tenants)
        k = rng.choice(keys)
        if rng.random() < 0.2:
            ops.append(("del", ten, k))
        else:
            ops.append(("pub", ten, k, "v%d-%d" % (i, rng.randrange(1000))))
    return ops


def fatal_storage_errors(cluster):
    """a Raft core shut down by its storage layer is never acceptable in these scenarios"""
    out = []
    for n in cluster.nodes:
        for line in n.log_grep(r"fatal storage error|log write index not equal|panicked at", 4):
            out.append({"node": n.node_id, "line": line[:240]})
    return out


def scenario_late_join(binary, rng, writes=90, threshold=30, restart=True):
    """leader alone writes a history long enough to be compacted; node 2 joins and is caught
    up by snapshot install; compare what node 2 serves with the leader, before and after a
    restart of node 2."""
    obs = {"scenario": "late_join", "writes": writes, "threshold": threshold, "errors": []}
    with Cluster(binary, nodelib.DEFAULT_WORKROOT, "lj") as c:
        n1 = c.node(1, auto_init=True, snapshot_log_size=threshold)
        n1.start()
        n1.wait_ready()
        ops = gen_history(rng, writes)
        obs["write_errors"] = apply_history(n1, ops)
        snaps, _ = wait_until(n1.snapshot_files, 30.0)
        obs["leader_snapshot_files"] = snaps
        keys = sorted(set((op[1], op[2]) for op in ops if op[0] in ("pub", "del")))
        ref = read_all(n1, keys)
        obs["leader_vs_spec_diff"] = [k for k, v in expected_state(ops).items() if ref.get(k) != v]
        n2 = c.node(2, join_addr=n1.raft_addr, snapshot_log_size=threshold)
        n2.start()
        try:
            n2.wait_ready(need_leader=False)
        except RuntimeError as e:
            obs["errors"].append(str(e)[:300])
        m, secs = wait_member(n1, 2)
        obs["joined"] = bool(m)
        obs["join_wait_s"] = round(secs, 1)
        # a probe written after the join travels as an ordinary log entry
        n1.publish("probe", GROUP, "p1")
        ok, secs = wait_serves(n2, "probe", "p1", 30.0)
        obs["probe_served"] = bool(ok)
        time.sleep(1.0)
        got = read_all(n2, keys)
        obs["before_restart_diff"] = [{"key": k, "leader": ref[k], "joiner": got.get(k)} for k in ref if ref[k] != got.get(k)]
        obs["leader_namespaces"] = n1.namespaces()
        obs["joiner_namespaces"] = n2.namespaces()
        obs["joiner_metrics"] = n2.metrics()
        obs["leader_metrics"] = n1.metrics()
        if restart:
            try:
                n2.restart(wait=False)
                n2.wait_ready(need_leader=False)
            except RuntimeError as e:
                obs["errors"].append(str(e)[:300])
            n1.publish("probe", GROUP, "p2")
            ok, secs = wait_serves(n2, "probe", "p2", 30.0)
            obs["probe_served_after_restart"] = bool(ok)
            ref2 = read_all(n1, keys)
            got2 = read_all(n2, keys)
            obs["after_restart_diff"] = [{"key": k, "leader": ref2[k], "joiner": got2.get(k)} for k in ref2 if ref2[k] != got2.get(k)]
            obs["joiner_namespaces_after_restart"] = n2.namespaces()
            obs["joiner_metrics_after_restart"] = n2.metrics()
            obs["leader_metrics_after_restart"] = n1.metrics()
        obs["n_keys"] = len(keys)
        obs["sample_ops"] = [list(o) for o in ops[:6]]
        obs["fatal"] = fatal_storage_errors(c)
    return obs


def scenario_far_behind(binary, rng, threshold=30, fill=1700, freeze=True):
    """3 voters; node 3 is stopped; the leader removes a key node 3 has, overwrites another and
    writes more than the snapshot threshold; node 3 restarts and is caught up by snapshot."""
    obs = {"scenario": "far_behind", "threshold": threshold, "errors": []}
    with Cluster(binary, nodelib.DEFAULT_WORKROOT, "fb") as c:
        n1 = c.node(1, auto_init=True, snapshot_log_size=threshold)
        n1.start()
        n1.wait_ready()
        others = []
        for i in (2, 3):
            n = c.node(i, join_addr=n1.raft_addr, snapshot_log_size=threshold)
            n.start()
            try:
                n.wait_ready(need_leader=False)
            except RuntimeError as e:
                obs["errors"].append(str(e)[:300])
            m, _ = wait_member(n1, i)
            if not m:
                obs["errors"].append("node %d did not join" % i)
            others.append(n)
        n2, n3 = others
        base = [("pub", "", "stay", "s0"), ("pub", "", "gone", "g0"), ("pub", "", "chg", "c0")]
        obs["write_errors"] = apply_history(n1, base)
        ok, _ = wait_serves(n3, "chg", "c0", 20.0)
        obs["n3_has_base"] = bool(ok)
        if freeze:
            n3.sigstop()      # the process keeps its in-memory state while it falls behind
        else:
            n3.stop()
        ops = [("del", "", "gone"), ("pub", "", "chg", "c1")] + [("pub", "", "fill%d" % i, "f%d" % i) for i in range(fill)]
        obs["write_errors"] += apply_history(n1, ops)
        snaps, _ = wait_until(n1.snapshot_files, 30.0)
        obs["leader_snapshot_files"] = snaps
        time.sleep(1.0)
        if freeze:
            n3.sigcont()
        else:
            n3.start()
            try:
                n3.wait_ready(need_leader=False)
            except RuntimeError as e:
                obs["errors"].append(str(e)[:300])
        n1.publish("probe", GROUP, "p1")
        ok, secs = wait_serves(n3, "probe", "p1", 60.0)
        obs["probe_wait_s"] = round(secs, 1)
        obs["metrics_after"] = {str(n.node_id): n.metrics() for n in (n1, n2, n3)}
        obs["probe_served"] = bool(ok)
        time.sleep(1.0)
        keys = [("", "stay"), ("", "gone"), ("", "chg")] + [("", "fill%d" % i) for i in range(fill)]
        ref = read_all(n1, keys)
        got = read_all(n3, keys)
        obs["diff"] = [{"key": k, "leader": ref[k], "node3": got.get(k)} for k in ref if ref[k] != got.get(k)]
        obs["node3_snapshot_files"] = n3.snapshot_files()
        obs["fatal"] = fatal_storage_errors(c)
        obs["n_keys"] = len(keys)
    return obs


def scenario_ack(binary, rng):
    """single node; file-gated close-write makes every later apply fail: a publish/remove that
    cannot be committed must be answered with an error"""
    obs = {"scenario": "ack", "steps": []}
    with Cluster(binary, nodelib.DEFAULT_WORKROOT, "ack") as c:
        n = c.node(1, auto_init=True)
        n.start()
        n.wait_ready()
        key = "ack%d" % rng.randrange(1000)
        steps = obs["steps"]
        steps.append(["publish", key, "one", n.publish(key, GROUP, "one")])
        steps.append(["get", key, None, n.get_config(key, GROUP)])
        open(os.path.join(n.data_dir, "close_raft_mark"), "w").close()
        steps.append(["close-write", None, None, n.close_write()])
        steps.append(["publish", key, "two", n.publish(key, GROUP, "two")])
        steps.append(["get", key, None, n.get_config(key, GROUP)])
        steps.append(["delete", key, None, n.delete_config(key, GROUP)])
        steps.append(["get", key, None, n.get_config(key, GROUP)])
        steps.append(["publish", key + "n", "x", n.publish(key + "n", GROUP, "x")])
        steps.append(["get", key + "n", None, n.get_config(key + "n", GROUP)])
        obs["alive"] = n.alive()
    return obs


def find_leader(nodes):
    for n in nodes:
        m = n.metrics(timeout=2.0) if n.alive() else None
        if m and m.get("state") == "Leader":
            return n
    return None


def scenario_stale_leader(binary, rng, burst=6):
    """3 voters; the LEADER is frozen (SIGSTOP) until the others have elected a new one, then it is
    continued and writes are sent to it at once: it still believes it is the leader (routing = local)
    but raft.client_write can no longer commit through it.  Such a write must be answered with an
    error, or - if answered with success - must be served by every node after quiescence."""
    obs = {"scenario": "stale_leader", "errors": [], "history": []}
    with Cluster(binary, nodelib.DEFAULT_WORKROOT, "sl") as c:
        n1 = c.node(1, auto_init=True)
        n1.start()
        n1.wait_ready()
        nodes = [n1]
        for i in (2, 3):
            n = c.node(i, join_addr=n1.raft_addr)
            n.start()
            try:
                n.wait_ready(need_leader=False)
            except RuntimeError as e:
                obs["errors"].append(str(e)[:300])
            m, _ = wait_member(n1, i)
            if not m:
                obs["errors"].append("node %d did not join" % i)
            nodes.append(n)
        keys = ["s%d" % i for i in range(3)]
        i = 0
        for k in keys:
            st, body = n1.publish(k, GROUP, "base-" + k, timeout=10.0)
            obs["history"].append({"i": i, "node": 1, "op": "pub", "key": k, "value": "base-" + k, "status": st, "body": body[:60]})
            i += 1
        # phase 0: rotate the leadership once.  (A cluster formed by joins keeps its followers as
        # non-voters inside the FIRST leader's raft core - recorded finding - so the stale-leader
        # experiment is made with a leader that came out of an election.)
        first = find_leader(nodes) or n1
        first.sigstop()
        rot, secs = wait_until(lambda: find_leader([n for n in nodes if n is not first]), 25.0)
        first.sigcont()
        obs["rotated_to"] = rot.node_id if rot else None
        if rot:
            rot.publish("rot", GROUP, "r")
            for n in nodes:
                ok, _ = wait_serves(n, "rot", "r", 40.0)
                if not ok:
                    obs["errors"].append("node %d does not follow after the rotation" % n.node_id)
        old = find_leader(nodes) or rot or n1
        obs["elected_leader_frozen"] = old.node_id
        others = [n for n in nodes if n is not old]
        # a write that is PENDING in the elected leader when it is deposed: both followers are frozen, the
        # publish is sent (it cannot commit), then the leader is frozen and the followers are continued
        import threading
        pend = {}
        for n in others:
            n.sigstop()

        def _pending():
            pend["res"] = old.publish("pend", GROUP, "pending-write", timeout=60.0)
        th = threading.Thread(target=_pending, daemon=True)
        th.start()
        time.sleep(0.8)
        pend_i = i
        i += 1
        old.sigstop()
        for n in others:
            n.sigcont()
        newl, secs = wait_until(lambda: find_leader(others), 25.0)
        obs["new_leader"] = newl.node_id if newl else None
        obs["election_wait_s"] = round(secs, 1)
        if newl:
            st, body = newl.publish(keys[0], GROUP, "new-leader-write", timeout=10.0)
            obs["history"].append({"i": i, "node": newl.node_id, "op": "pub", "key": keys[0], "value": "new-leader-write", "status": st, "body": body[:60]})
            i += 1
        old.sigcont()
        th.join(30.0)
        st, body = pend.get("res", (0, "no answer"))
        keys.append("pend")
        obs["pending_answer"] = [st, body[:80]]
        obs["history"].append({"i": pend_i, "node": old.node_id, "op": "pub", "key": "pend", "value": "pending-write", "status": st, "body": body[:60]})
        for j in range(burst):                      # at once: the old leader has not yet seen the new term
            # every write goes to its own key, so that a lost acknowledged write cannot be masked by a later one
            if j % 3 == 2:
                k = keys[1 + (j // 3) % 2]
                st, body = old.delete_config(k, GROUP, timeout=10.0)
                obs["history"].append({"i": i, "node": old.node_id, "op": "del", "key": k, "status": st, "body": body[:60]})
            else:
                k = "stale%d" % j
                keys.append(k)
                v = "stale-%d" % j
                st, body = old.publish(k, GROUP, v, timeout=10.0)
                obs["history"].append({"i": i, "node": old.node_id, "op": "pub", "key": k, "value": v, "status": st, "body": body[:60]})
            i += 1
        time.sleep(3.0)
        tgt = find_leader(nodes) or others[0]
        tgt.publish("probe", GROUP, "q")
        for n in nodes:
            ok, _ = wait_serves(n, "probe", "q", 40.0)
            if not ok:
                obs["errors"].append("node %d does not serve the probe after quiescence" % n.node_id)
        time.sleep(1.0)
        obs["final"] = {str(n.node_id): read_all(n, [("", k) for k in keys]) for n in nodes}
        obs["fatal"] = fatal_storage_errors(c)
    return obs


def scenario_routed_failures(binary, rng):
    """writes RECEIVED BY A FOLLOWER while the leader it routes them to cannot answer.
    (a) the leader is frozen (SIGSTOP): a publish and a remove at a follower, client time-out 8 s - the routed rpc gets no
        answer; an answer of success is legitimate only if the write is committed, so the frozen leader is then killed
        (-9) and the surviving majority must serve every acknowledged write;
    (b) right after the kill a publish at the same follower (it may still route to the dead address): an error answer
        must leave that follower serving what the others serve (no uncommitted value kept)."""
    obs = {"scenario": "routed_failures", "errors": [], "history": []}
    with Cluster(binary, nodelib.DEFAULT_WORKROOT, "rf") as c:
        n1 = c.node(1, auto_init=True)
        n1.start()
        n1.wait_ready()
        nodes = [n1]
        for i in (2, 3):
            n = c.node(i, join_addr=n1.raft_addr)
            n.start()
            try:
                n.wait_ready(need_leader=False)
            except RuntimeError as e:
                obs["errors"].append(str(e)[:300])
            m, _ = wait_member(n1, i)
            if not m:
                obs["errors"].append("node %d did not join" % i)
            nodes.append(n)
        keys = ["ra", "rb", "rc", "rd"]
        i = 0
        for k in keys:
            st, body = n1.publish(k, GROUP, "base-" + k, timeout=10.0)
            obs["history"].append({"i": i, "node": 1, "op": "pub", "key": k, "value": "base-" + k, "status": st, "body": body[:60]})
            i += 1
        for n in nodes:
            ok, _ = wait_serves(n, keys[-1], "base-" + keys[-1], 30.0)
            if not ok:
                obs["errors"].append("node %d does not follow" % n.node_id)
        leader = find_leader(nodes) or n1
        others = [n for n in nodes if n is not leader]
        f = rng.choice(others)
        obs["leader"], obs["follower"] = leader.node_id, f.node_id
        leader.sigstop()

        def rec(op, k, v, res):
            nonlocal i
            st, body = res
            obs["history"].append({"i": i, "node": f.node_id, "op": op, "key": k, "value": v, "status": st, "body": (body or "")[:60]})
            i += 1
        t = time.time()
        rec("pub", "ra", "routed-1", f.publish("ra", GROUP, "routed-1", timeout=8.0))
        obs["publish_frozen_s"] = round(time.time() - t, 1)
        rec("del", "rc", None, f.delete_config("rc", GROUP, timeout=8.0))
        obs["follower_serves_frozen"] = read_all(f, [("", k) for k in keys])
        leader.kill9()
        rec("pub", "rb", "routed-2", f.publish("rb", GROUP, "routed-2", timeout=8.0))
        obs["follower_serves_killed"] = read_all(f, [("", k) for k in keys])
        newl, secs = wait_until(lambda: find_leader(others), 30.0)
        obs["new_leader"] = newl.node_id if newl else None
        if newl:
            rec("pub", "rd", "after-election", newl.publish("rd", GROUP, "after-election", timeout=10.0))
            newl.publish("probe", GROUP, "q", timeout=10.0)
            for n in others:
                ok, _ = wait_serves(n, "probe", "q", 40.0)
                if not ok:
                    obs["errors"].append("node %d does not serve the probe after the election" % n.node_id)
        time.sleep(1.0)
        obs["final"] = {str(n.node_id): read_all(n, [("", k) for k in keys]) for n in others}
        obs["fatal"] = fatal_storage_errors(c)
    return obs


def scenario_no_majority(binary, rng):
    """3 voters formed by joins, first leader; BOTH followers frozen: a publish cannot be committed by a
    majority and must not be answered with success.  If it is, the leader is then killed and the
    followers continued: the acknowledged write is lost although only a minority failed."""
    obs = {"scenario": "no_majority", "errors": []}
    with Cluster(binary, nodelib.DEFAULT_WORKROOT, "nm") as c:
        n1 = c.node(1, auto_init=True)
        n1.start()
        n1.wait_ready()
        nodes = [n1]
        for i in (2, 3):
            n = c.node(i, join_addr=n1.raft_addr)
            n.start()
            try:
                n.wait_ready(need_leader=False)
            except RuntimeError as e:
                obs["errors"].append(str(e)[:300])
            m, _ = wait_member(n1, i)
            if not m:
                obs["errors"].append("node %d did not join" % i)
            nodes.append(n)
        n1.publish("base", GROUP, "b")
        for n in nodes:
            wait_serves(n, "base", "b", 20.0)
        nodes[1].sigstop()
        nodes[2].sigstop()
        t = time.time()
        obs["publish_without_majority"] = n1.publish("lonely", GROUP, "x", timeout=6.0)
        obs["publish_s"] = round(time.time() - t, 2)
        obs["leader_serves"] = n1.get_config("lonely", GROUP)
        n1.kill9()
        nodes[1].sigcont()
        nodes[2].sigcont()
        newl, secs = wait_until(lambda: find_leader(nodes[1:]), 30.0)
        obs["new_leader"] = newl.node_id if newl else None
        if newl:
            newl.publish("probe", GROUP, "q", timeout=10.0)
            for n in nodes[1:]:
                wait_serves(n, "probe", "q", 30.0)
        obs["followers_serve"] = {str(n.node_id): n.get_config("lonely", GROUP) for n in nodes[1:]}
    return obs


def scenario_cluster_writes(binary, rng, n_ops=40, fault=None):
    """3 voters; writes addressed to arbitrary nodes; optional fault on a minority
    (kill -9 / SIGSTOP+SIGCONT / restart); after quiescence every live node must serve, for
    every key, the value of the last acknowledged write (or of a later unacknowledged one)."""
    obs = {"scenario": "cluster_writes", "fault": fault, "errors": [], "history": []}
    with Cluster(binary, nodelib.DEFAULT_WORKROOT, "cw") as c:
        n1 = c.node(1, auto_init=True)
        n1.start()
        n1.wait_ready()
        nodes = [n1]
        for i in (2, 3):
            n = c.node(i, join_addr=n1.raft_addr)
            n.start()
            try:
                n.wait_ready(need_leader=False)
            except RuntimeError as e:
                obs["errors"].append(str(e)[:300])
            m, _ = wait_member(n1, i)
            if not m:
                obs["errors"].append("node %d did not join" % i)
            nodes.append(n)
        keys = ["c%d" % i for i in range(5)]
        victim = None
        fault_at = n_ops // 2 if fault else None
        for i in range(n_ops):
            if fault and i == fault_at:
                victim = nodes[rng.choice([1, 2])]          # a follower (minority)
                if fault == "kill9":
                    victim.kill9()
                elif fault == "sigstop":
                    victim.sigstop()
                elif fault == "restart":
                    victim.restart(hard=True, wait=False)
            if fault and victim is not None and i == fault_at + n_ops // 4:
                if fault == "sigstop":
                    victim.sigcont()
                elif fault == "kill9":
                    victim.start()
            live = [n for n in nodes if n.alive() and not (fault == "sigstop" and n is victim and fault_at <= i < fault_at + n_ops // 4)]
            tgt = rng.choice(live)
            k = rng.choice(keys)
            if rng.random() < 0.15:
                st, body = tgt.delete_config(k, GROUP, timeout=10.0)
                obs["history"].append({"i": i, "node": tgt.node_id, "op": "del", "key": k, "status": st, "body": body[:60]})
            else:
                v = "w%d" % i
                st, body = tgt.publish(k, GROUP, v, timeout=10.0)
                obs["history"].append({"i": i, "node": tgt.node_id, "op": "pub", "key": k, "value": v, "status": st, "body": body[:60]})
        # quiescence
        time.sleep(2.0)
        for n in nodes:
            if not n.alive():
                n.start()
        for n in nodes:
            try:
                n.wait_ready(need_leader=False)
            except RuntimeError as e:
                obs["errors"].append(str(e)[:200])
        n1.publish("probe", GROUP, "q")
        for n in nodes:
            ok, _ = wait_serves(n, "probe", "q", 30.0)
            if not ok:
                obs["errors"].append("node %d does not serve the probe after quiescence" % n.node_id)
        time.sleep(1.0)
        obs["final"] = {str(n.node_id): read_all(n, [("", k) for k in keys]) for n in nodes}
        obs["fatal"] = fatal_storage_errors(c)
    return obs
