#!/usr/bin/env python3
"""Run the checks against the seeded breaking changes kept under /verif/seeded/<id>/.

usage: python3 runner/seeded.py [--tier quick] [id ...]

For each seeded change: `git -C /repo apply patch.diff`, run the check(s) of the property it
breaks, undo (`git -C /repo checkout -- .`), record whether a VIOLATION was reported and
whether it came with a failing input.  Results go to seeded/RESULTS.json (not evidence).
/repo must be clean before and is left clean afterwards.
"""
import json
import os
import subprocess
import sys
import time

VERIF = os.path.dirname(os.path.dirname(os.path.abspath(__file__)))
REPO = os.path.join(os.path.dirname(VERIF), "repo")


def sh(cmd, **kw):
    return subprocess.run(cmd, shell=True, stdout=subprocess.PIPE, stderr=subprocess.STDOUT, text=True, **kw)


def main():
    args = [a for a in sys.argv[1:] if not a.startswith("--")]
    tier = "quick"
    if "--tier" in sys.argv:
        tier = sys.argv[sys.argv.index("--tier") + 1]
        args = [a for a in args if a != tier]
    sdir = os.path.join(VERIF, "seeded")
    ids = args or sorted(d for d in os.listdir(sdir) if os.path.isdir(os.path.join(sdir, d)))
    if sh("git -C %s status --porcelain --untracked-files=no" % REPO).stdout.strip():
        print("repo not clean; refusing")
        sys.exit(2)
    res_path = os.path.join(sdir, "RESULTS.json")
    results = json.load(open(res_path)) if os.path.exists(res_path) else {}
    for sid in ids:
        d = os.path.join(sdir, sid)
        meta = json.load(open(os.path.join(d, "meta.json")))
        props = meta.get("checks") or [meta["property"]]
        r = sh("git -C %s apply %s" % (REPO, os.path.join(d, "patch.diff")))
        if r.returncode != 0:
            print("%s: patch does not apply: %s" % (sid, r.stdout[-300:]))
            results[sid] = {"applied": False}
            continue
        out = {}
        try:
            for p in props:
                t = time.time()
                rr = sh("python3 runner/vp.py %s --tier %s" % (p, tier), cwd=VERIF,
                        env=dict(os.environ, VERIF_SEED=os.environ.get("VERIF_SEED", "7")))
                lines = [l for l in rr.stdout.splitlines() if l.startswith("VIOLATION") or l.startswith("KNOWN-FINDING")]
                viol = [l for l in lines if l.startswith("VIOLATION")]
                out[p] = {
                    "rc": rr.returncode, "wall_s": round(time.time() - t, 1),
                    "violation": bool(viol),
                    "with_failing_input": any("no-failing-input-found" not in l for l in viol),
                    "lines": lines[:6],
                }
                print("%s / %s: rc=%s %s" % (sid, p, rr.returncode, "; ".join(viol[:2]) or "NOT DETECTED"))
        finally:
            sh("git -C %s checkout -- ." % REPO)
            sh("git -C %s clean -fdq src" % REPO)
        results[sid] = {"applied": True, "property": meta["property"], "checks": out,
                        "detected": any(v["violation"] for v in out.values())}
        if meta.get("superseded"):
            # a repair made this change harmless (its demonstration passes with the change): the checks must be QUIET
            results[sid]["superseded"] = meta["superseded"]
            results[sid]["false_alarm_on_harmless_change"] = results[sid]["detected"]
        with open(res_path, "w") as f:
            json.dump(results, f, indent=1)
    nd = [k for k, v in results.items() if v.get("applied") and not v.get("detected") and not v.get("superseded")]
    print("seeded: %d run, %d not detected %s" % (len(ids), len(nd), nd))


if __name__ == "__main__":
    main()
