#!/usr/bin/env python3
"""usage: python3 runner/vp.py <Cxx> [--tier quick|thorough] [--replay file]"""
import argparse
import importlib
import os
import sys

sys.path.insert(0, os.path.dirname(os.path.abspath(__file__)))
import lib  # noqa: E402


def main():
    ap = argparse.ArgumentParser()
    ap.add_argument("prop")
    ap.add_argument("--tier", default=os.environ.get("VERIF_TIER", "quick"))
    ap.add_argument("--replay", default=None)
    a = ap.parse_args()
    seed = int(os.environ.get("VERIF_SEED", "20260925"))
    tier = a.tier if a.tier in ("quick", "thorough") else "quick"
    mod = importlib.import_module("checks." + a.prop.lower())
    chk = lib.Check(a.prop, tier, seed)
    try:
        mod.run(chk, replay=a.replay)
    except lib.HarnessHang as ex:
        chk.violation("the implementation %s" % ex.how, {"suite": ex.suite, "case": ex.case, "failure": ex.how}, True)
    except Exception as ex:  # machinery failure: the property is not shown to hold
        import traceback
        tb = traceback.format_exc()
        lib.log(tb)
        chk.violation("check machinery failed: %s" % ex, {"broken": "machinery", "error": tb[-3000:]}, False)
    sys.exit(chk.finish())


if __name__ == "__main__":
    main()
