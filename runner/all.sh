#!/bin/sh
# usage: runner/all.sh [tier] [ids...]  — runs checks sequentially, prints one summary line each
TIER=${1:-quick}; shift
IDS=${@:-$(python3 -c "import json;print(' '.join(c['property_id'] for c in json.load(open('MANIFEST.json'))['checks']))")}
for p in $IDS; do
  s=$(date +%s)
  out=$(python3 runner/vp.py $p --tier $TIER 2>&1)
  rc=$?
  e=$(date +%s)
  echo "$p rc=$rc $((e-s))s $(echo "$out" | grep -c '^VIOLATION') violations $(echo "$out" | grep -c '^KNOWN-FINDING') known"
  echo "$out" | grep '^VIOLATION' | head -3
done
