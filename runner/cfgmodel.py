"""Shared translation layer of the config-centre checks (C09, C10, C19):
python-level ops  ->  harness JSON ops (suite `config`)  and  Coq `sop` terms (SM/Script.v),
plus canonical forms of both sides' outputs.

A python-level op is a tuple:
  ('add', keystr, content, type, desc, hid, table_id, time, user)    ConfigRaftCmd::ConfigAdd
  ('del', keystr)                                                    ConfigRaftCmd::ConfigRemove
  ('full', (d,g,t), content, [(id,content,time,user)], type, desc, last_id)   ConfigRaftCmd::SetFullValue
  ('tmp', (d,g,t), content)                                          ConfigCmd::SetTmpValue
  ('get', (d,g,t))   ('page', {...})   ('hist', (d,g,t), off, lim)
  ('listen', lid, [((d,g,t), md5)], time)   ('tick', now)
  ('sub', client, [((d,g,t), md5)])  ('unsub', client, [(d,g,t)])  ('unsub_client', client)
  ('dump_listener',) ('dump_sub',) ('dump_seq',) ('dump_cache',) ('dump_index',)
  ('next_state',) ('set_last_id', n) ('section', n)
  ('keyrt', (d,g,t)) ('keyparse', s) ('valid', s)
  ('node', i) ('restart', i) ('snapshot', sid) ('load', sid)
"""
import hashlib

SEP = "\x02"
TMP_NOW = 7777777777777      # the [now] given to the model for ConfigValue::new (wall clock in the code)
TICK_NOW = 10 ** 9           # logical "now" of a tick: after every past deadline, before every future one


def md5hex(s):
    return hashlib.md5(s.encode("utf-8")).hexdigest()


def fnv64(b):
    h = 0xcbf29ce484222325
    for x in b:
        h ^= x
        h = (h * 0x100000001b3) & 0xFFFFFFFFFFFFFFFF
    return h


def content_json(c):
    b = c.encode("utf-8")
    if len(b) <= 200:
        return {"c": c}
    return {"n": len(b), "h": str(fnv64(b))}


def build_key(k):
    d, g, t = k
    return d + SEP + g if t == "" else d + SEP + g + SEP + t


def parse_key(s):
    l = s.split(SEP)
    l += ["", "", ""]
    return (l[0], l[1], l[2])


class Enc:
    """content / string encodings of one case: python str <-> Coq byte list"""

    def __init__(self):
        self.c2r = {}
        self.r2c = {}

    def content(self, c):
        """representation of a content in the model: its UTF-8 bytes when short, else an
        injective digest starting with byte 255 (never a UTF-8 byte)"""
        if c in self.c2r:
            return self.c2r[c]
        b = c.encode("utf-8")
        if len(b) <= 24:
            r = tuple(b)
        else:
            r = (255,) + tuple(hashlib.sha1(b).digest()[:10]) + tuple(str(len(b)).encode())
        if r in self.r2c and self.r2c[r] != c:
            raise RuntimeError("content representation collision")
        self.c2r[c] = r
        self.r2c[r] = c
        return r

    def table(self):
        """the md5 table handed to the model: hashlib md5 of every content of the case"""
        return "[" + ";".join("(%s,%s)" % (cbytes(r), cstr(md5hex(c))) for c, r in sorted(self.c2r.items())) + "]"

    def back(self, r):
        r = tuple(r)
        if r in self.r2c:
            return self.r2c[r]
        return bytes(r).decode("utf-8", "replace")


def cbytes(b):
    return "[" + ";".join(str(x) for x in b) + "]"


def cstr(s):
    return cbytes(s.encode("utf-8"))


def copt(v, f):
    return "None" if v is None else "(Some %s)" % f(v)


def cN(n):
    return str(n)


def cZ(n):
    return "(%d)%%Z" % n


def ckey(k):
    return "(mkKey %s %s %s)" % (cstr(k[0]), cstr(k[1]), cstr(k[2]))


def clist(xs):
    return "[" + ";".join(xs) + "]"


def cqparam(p):
    return "(mkQ %s %s %s %s %s perm_all %s %d %d)" % (
        copt(p.get("tenant"), cstr), copt(p.get("group"), cstr), copt(p.get("data_id"), cstr),
        copt(p.get("like_group"), cstr), copt(p.get("like_data_id"), cstr),
        "true" if p.get("ctx") else "false", p.get("offset", 0), p.get("limit", 0))


def coq_op(op, enc):
    n = op[0]
    if n == "add":
        _, ks, c, ty, desc, hid, tid, tm, user = op
        return "SMsg (MRaft (ConfigAdd %s %s %s %s %d %s %d %s))" % (
            cstr(ks), cbytes(enc.content(c)), copt(ty, cstr), copt(desc, cstr), hid, copt(tid, cN), tm, copt(user, cstr))
    if n == "del":
        return "SMsg (MRaft (ConfigRemove %s))" % cstr(op[1])
    if n == "full":
        _, k, c, hist, ty, desc, last = op
        hs = clist(["mkHist %d %s %d %s" % (i, cbytes(enc.content(hc)), t, copt(u, cstr)) for i, hc, t, u in hist])
        return "SMsg (MRaft (SetFullValue %s (mkDO %s %s %s %s) %s))" % (
            ckey(k), cbytes(enc.content(c)), hs, copt(ty, cstr), copt(desc, cstr), copt(last, cN))
    if n == "tmp":
        return "SMsg (MTmp %s %s %d)" % (ckey(op[1]), cbytes(enc.content(op[2])), TMP_NOW)
    if n == "get":
        return "SGet %s" % ckey(op[1])
    if n == "page":
        return "SPage %s" % cqparam(op[1])
    if n == "hist":
        return "SHist %s %s %s" % (ckey(op[1]), copt(op[2], cN), copt(op[3], cN))
    if n == "listen":
        items = clist(["(%s,%s)" % (ckey(k), cstr(m)) for k, m in op[2]])
        return "SMsg (MListen %d %s %s)" % (op[1], items, cZ(op[3]))
    if n == "tick":
        return "SMsg (MTick %s)" % cZ(op[1])
    if n == "sub":
        items = clist(["(%s,%s)" % (ckey(k), cstr(m)) for k, m in op[2]])
        return "SMsg (MSub %s %s)" % (cstr(op[1]), items)
    if n == "unsub":
        return "SMsg (MUnsub %s %s)" % (cstr(op[1]), clist([ckey(k) for k in op[2]]))
    if n == "unsub_client":
        return "SMsg (MUnsubClient %s)" % cstr(op[1])
    simple = {"dump_listener": "SDumpL", "dump_sub": "SDumpS", "dump_seq": "SDumpSeq",
              "dump_cache": "SDumpCache", "dump_index": "SDumpIndex", "next_state": "SNextState"}
    if n in simple:
        return simple[n]
    if n == "set_last_id":
        return "SSetLastId %d" % op[1]
    if n == "section":
        return "SSection %d" % op[1]
    if n == "keyrt":
        return "SKeyRt %s" % ckey(op[1])
    if n == "keyparse":
        return "SKeyParse %s" % cstr(op[1])
    if n == "valid":
        return "SValid %s" % cstr(op[1])
    if n == "node":
        return "SNode %d%%nat" % op[1]
    if n == "restart":
        return "SRestart %d%%nat" % op[1]
    if n == "snapshot":
        return "SSnapshot %d" % op[1]
    if n == "load":
        return "SLoad %d" % op[1]
    if n == "alloc":
        return "SAlloc"
    if n == "settle":
        return "SSettle %d" % {"commit": 0, "lose": 1, "lose_inside": 2, "lose_boundary": 3}[op[1]]
    if n in ("apply_next", "catch_up"):
        # contents "c<pos>" of the entries this op may apply are registered by coq_script
        return "SApplyNext %s %s" % (cstr(op[1]), "true" if n == "catch_up" else "false")
    if n == "log":
        return "SLog"
    if n == "conn":
        return "SConn %s" % cstr(op[1])
    raise ValueError("unknown op " + n)


def coq_script(ops):
    enc = Enc()
    # the harness publishes "c<pos>" for the pos-th committed entry: at most one entry per alloc
    for i in range(sum(1 for o in ops if o[0] == "alloc")):
        enc.content("c%d" % i)
    body = clist([coq_op(o, enc) for o in ops])
    return "script %s %s" % (enc.table(), body), enc


def harness_op(op):
    n = op[0]
    if n == "add":
        return ["add"] + list(op[1:])
    if n == "full":
        _, k, c, hist, ty, desc, last = op
        return ["full", list(k), c, [list(h) for h in hist], ty, desc, last]
    if n in ("tmp", "get", "keyrt"):
        return [n, list(op[1])] + list(op[2:])
    if n == "hist":
        return ["hist", list(op[1]), op[2], op[3]]
    if n == "listen":
        return ["listen", op[1], [[list(k), m] for k, m in op[2]], {"abs": op[3]}]
    if n == "tick":
        return ["tick"]
    if n == "sub":
        return ["sub", op[1], [[list(k), m] for k, m in op[2]]]
    if n == "unsub":
        return ["unsub", op[1], [list(k) for k in op[2]]]
    return list(op)


def harness_case(ops):
    return {"ops": [harness_op(o) for o in ops]}


# ------------------------------------------------------------------ canonical forms
def _s(b):
    return bytes(b).decode("utf-8", "replace")


def _opt(v, f=lambda x: x):
    if v == "None":
        return None
    return f(v[1])


def _key(d):
    return (_s(d["k_data"]), _s(d["k_group"]), _s(d["k_tenant"]))


def _bool(v):
    return v == "true"


def canon_model(out, enc):
    """one parsed `sout` value -> canonical python value"""
    if out == "OOk":
        return "ok"
    tag = out[0]
    if tag == "OEv":
        ans, ntf, changed = [], [], None
        for e in out[1]:
            if e[0] == "EAnswer":
                r = e[2]
                ans.append([e[1], None if r == "LNull" else [list(_key(k)) for k in r[1]]])
            elif e[0] == "ENotify":
                ntf.append([list(_key(e[1])), sorted(_s(c) for c in e[2])])
            elif e[0] == "EChanged":
                changed = [list(_key(k)) for k in e[2]]
        return {"ans": sorted(ans, key=lambda x: x[0]), "ntf": ntf, "changed": changed}
    if tag == "OGet":
        r = _opt(out[1])
        if r is None:
            return None
        c, m, ty, desc, lm = r
        return {"content": content_json(enc.back(c)), "md5": _s(m), "type": _opt(ty, _s), "desc": _opt(desc, _s),
                "lastmod": lm}
    if tag == "OPage":
        l = []
        for k, desc, cm in out[2]:
            cm = _opt(cm)
            l.append({"key": list(_key(k)), "desc": _opt(desc, _s),
                      "content": None if cm is None else content_json(enc.back(cm[0])),
                      "md5": None if cm is None else _s(cm[1])})
        return {"size": out[1], "list": l}
    if tag == "OHist":
        return {"size": out[1], "list": [{"id": h["h_id"], "content": content_json(enc.back(h["h_content"])),
                                          "time": h["h_time"], "user": _opt(h["h_user"], _s)} for h in out[2]]}
    if tag == "ODumpL":
        return {"version": out[1], "listener": [[list(_key(k)), list(vs)] for k, vs in out[2]],
                "time": [list(vs) for _, vs in out[3]], "senders": sorted(out[4])}
    if tag == "ODumpS":
        return {"listener": [[list(_key(k)), sorted(_s(c) for c in cs)] for k, cs in out[1]],
                "client_keys": [[_s(c), [list(_key(k)) for k in ks]] for c, ks in out[2]]}
    if tag == "ODumpSeq":
        return {"last": out[1], "cache": out[2], "batch": out[3], "end": out[4]}
    if tag == "ODumpCache":
        return [{"key": list(_key(k)), "md5": _s(m), "tmp": _bool(t), "hids": list(h)} for k, m, t, h in out[1]]
    if tag == "ODumpIndex":
        return {"size": out[1], "keys": [list(_key(k)) for k in out[2]]}
    if tag == "ONext":
        r = _opt(out[1])
        return None if r is None else [r[0], _opt(r[1])]
    if tag == "OSection":
        return [out[1], out[2]]
    if tag == "OKeyRt":
        return {"built": _s(out[1]), "back": list(_key(out[2])), "same": _bool(out[3])}
    if tag == "OKey":
        return list(_key(out[1]))
    if tag == "OValid":
        return _bool(out[1])
    if tag == "OSettle":
        r = _opt(out[1])
        return "none" if r is None else ("committed" if r == "true" else "lost")
    if tag == "OCount":
        return out[1]
    if tag == "OLog":
        return [[i, _opt(m)] for i, m in out[1]]
    if tag == "OSnap":
        return {"config_keys": sorted(_s(k) for k in out[1]), "seq": [["SEQ_CONFIG", out[2]]]}
    raise ValueError("unknown model output %r" % (tag,))


MSG_OPS = ("add", "del", "full", "tmp", "listen", "tick", "sub", "unsub", "unsub_client")


def canon_impl(op, o):
    """one harness output {"r":..,"ans":[..]} -> canonical python value (same shape as canon_model)"""
    n = op[0]
    r = o["r"]
    if n in MSG_OPS:
        ans = sorted([[a[0], a[1]] for a in o["ans"]], key=lambda x: x[0])
        ntf = None
        if o.get("ntf") is not None:
            ntf = sorted([[x[1], x[0]] for x in o["ntf"]])      # [key, client] pairs delivered on the streams
        changed = None
        if n == "sub" and isinstance(r, dict) and r.get("changed"):
            changed = r["changed"]
        return {"ans": ans, "ntf": ntf, "changed": changed, "status": r if n != "sub" else "ok"}
    if n == "hist":
        if not isinstance(r, dict):
            return r
        return {"size": r["size"], "list": [{"id": h["id"], "content": h["content"], "time": h["time"], "user": h["user"]}
                                            for h in r["list"]]}
    if n == "dump_listener":
        return {"version": r["version"], "listener": r["listener"], "time": [vs for _, vs in r["time"]],
                "senders": r["senders"]}
    if n == "valid":
        return r
    if n == "alloc":
        return r
    if n in ("node", "restart", "load", "set_last_id", "conn"):
        return "ok" if r == "ok" else r
    return r


def same(op, m, i, conns=None):
    """compare canonical model and implementation outputs of one op; returns None or a description"""
    n = op[0]
    if n in MSG_OPS:
        if i.get("status") != "ok":
            return "implementation returned %r" % (i.get("status"),)
        if m["ans"] != i["ans"]:
            return "listener answers differ: model %r impl %r" % (m["ans"], i["ans"])
        if (m["changed"] or None) != (i["changed"] or None):
            return "Subscribe result differs: model %r impl %r" % (m["changed"], i["changed"])
        if conns is not None and i["ntf"] is not None:
            # NotifyConfig(key, clients) of the model vs ConfigChangeNotifyRequest payloads that reached
            # the connected clients' streams
            want = sorted([k, c] for k, cs in m["ntf"] for c in cs if c in conns)
            if want != i["ntf"]:
                return "subscriber notifications differ: model %r delivered %r" % (want, i["ntf"])
        return None
    if n == "get":
        if m is None or i is None:
            return None if m == i else "get: model %r impl %r" % (m, i)
        mm = dict(m)
        ii = dict(i)
        if mm["lastmod"] == TMP_NOW:       # wall clock of ConfigValue::new: not compared
            mm.pop("lastmod")
            ii.pop("lastmod")
        return None if mm == ii else "get: model %r impl %r" % (mm, ii)
    if n == "valid":
        # the model predicate is a necessary condition; exact on ASCII-only strings
        if i["is_valid"] and not m:
            return "is_valid accepted a string the model's necessary condition rejects"
        if all(ord(ch) < 128 for ch in op[1]) and i["is_valid"] != m:
            return "is_valid differs on an ASCII string: model %r impl %r" % (m, i["is_valid"])
        return None
    return None if m == i else "%s: model %r impl %r" % (n, str(m)[:300], str(i)[:300])
