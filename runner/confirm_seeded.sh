#!/bin/sh
# usage: runner/confirm_seeded.sh <scratch worktree> <dir with patch.diff demo.diff> <cargo test filter>
# Confirms: (1) demo passes without the change, (2) with the change the crate builds, the pinned
# lib tests still pass (36; one known always-fail), (3) the demo fails with the change.
W=$1; M=$2; F=$3
cd "$W" || exit 2
git checkout -q -- . && git clean -fdq src
git apply "$M/demo.diff" || { echo "demo.diff does not apply"; exit 2; }
echo "--- demo without the change"
CARGO_NET_OFFLINE=true cargo test --offline --lib "$F" 2>&1 | grep -E "^test result|error" | head -3
git apply "$M/patch.diff" || { echo "patch.diff does not apply"; exit 2; }
echo "--- demo with the change"
CARGO_NET_OFFLINE=true cargo test --offline --lib "$F" 2>&1 | grep -E "^test result|error(\[|:)" | head -3
echo "--- pinned tests with the change (demo tests excluded from the count by name)"
CARGO_NET_OFFLINE=true cargo test --offline --lib 2>&1 | grep -E "^test .*FAILED|^test result" | head -12
git checkout -q -- . && git clean -fdq src
