"""C03 — Raft log: truncation removes exactly the suffix; the log stays appendable."""
import json

import lib
from checks import raftlog_common as rc

TARGETS = ["Props/C03.v", "RaftLog/LogScript.v", "RaftLog/ManagerScript.v", "RaftLog/Examples.v"]

MANIFEST = dict(
    text="Theorems (Rocq, all log states satisfying the invariant WF, all cut points k >= first index, all "
         "re-appended payloads) about the literal model of LogInnerManager::strip_log_to / "
         "get_file_index_by_log_index / move_to_index_by_count (after the recorded repairs): truncate_exact "
         "(abstract log = prefix below k), removed_bytes_gone (data and index area hold nothing of the suffix), "
         "append_after_truncate_accepted, removed_bytes_never_reparse and truncate_then_reopen (truncate, "
         "re-append shorter/equal/longer, reopen = abstract log). Manager layer (several files, pointer files, "
         "split-off positions): truncate_exact_multi_file / manager_truncate (delete-from k leaves exactly the "
         "abstract prefix below k whichever files it touches, drops or reopens, and re-establishes the catalogue "
         "invariant), append_after_truncate_accepted_multi_file, truncate-then-any-history-then-restart via the "
         "manager simulation mgr_refines_alog (the old routing theorem manager_truncate_partial is kept); scope: "
         "k at or above the first entry and above the newest snapshot pointer (a cut AT a pointer file's index "
         "is refuted formally: mgr_strip_rep_needs_head_ok). Model tied to the code by differential runs of the real LogInnerManager and FileStore "
         "on nasty cut histories (first, 128j, 128j+-1, end-1, end; pointer and rollover catalogues; cuts in closed "
         "files; id re-use) plus an independent property oracle.",
    note="Trusted: Coq kernel+vm_compute, the hand transcription (checked by the correspondence), harness and runner "
         "glue. Outside the model: crash between the steps of a truncation (C04), cuts at or below a snapshot pointer "
         "(never issued by Raft), the 2 GB data limit.",
    technique="Rocq proof (refinement + invariant) + model/implementation correspondence + property oracle",
    design="3/C03",
)


def run(chk, replay=None):
    tier, rng = chk.tier, chk.rng
    proofs_ok = chk.proofs(TARGETS)
    ok, out = lib.harness_build()
    if not ok:
        chk.violation("harness does not build against /repo", {"broken": "harness build", "log": out[-3000:]}, False)
        return
    lf_cases = rc.gen_cuts(rng, 1 if tier == "quick" else 5) + rc.gen_offset_width(rng) + rc.gen_small_limit(rng)
    _gm, growth_impl = rc.gen_growth(rng)
    fs_cases = (rc.gen_fs_pointer_shapes(rng) + rc.gen_fs_rollover(rng, tier)
                + rc.gen_fs_random(rng, 25 if tier == "quick" else 400, 30 if tier == "quick" else 60))
    if replay:
        rp = json.load(open(replay))["replay"]
        if isinstance(rp, dict) and "case" in rp:
            (lf_cases if rp.get("suite") == "logfile" else fs_cases).insert(0, rp["case"])

    n1, nt1, mm1, d1 = rc.run_logfile_part(chk, lf_cases, growth_impl, "c03lf")
    n2, nt2, mm2, d2 = rc.run_filestore_part(chk, fs_cases, "c03fs")

    if not proofs_ok:
        chk.violation("proof obligations of C03 no longer check: %s" % chk.proof_failure[:300],
                      {"broken": "theorem", "detail": chk.proof_failure}, False)

    chk.cov["evaluations"] = n1 + n2
    chk.cov["distinct_nontrivial"] = len(nt1) + len(nt2)
    chk.cov["rule"] = ("history non-trivial = contains an effective cut (on/next to a 128-record index boundary, at the first "
                       "index, at end-1, in a closed file, above a pointer) followed by a re-append and/or a reopen; counted as "
                       "distinct (generator tag, feature set)")
    chk.cov["samples"] = [rc.short_case(lf_cases[0]), rc.short_case(lf_cases[len(lf_cases) // 2]),
                          rc.short_case(fs_cases[0]), rc.short_case(fs_cases[len(fs_cases) // 2])]
    chk.cov["input_distribution"] = {
        "logfile_histories_model_compared": len(lf_cases), "logfile_histories_oracle_only(>1MiB files)": len(growth_impl),
        "logfile_by_generator": d1, "filestore_histories": len(fs_cases), "filestore_by_generator": d2,
        "cuts_total": sum(1 for c in lf_cases + fs_cases for o in c["ops"] if o[0] in ("s", "d")),
        "ops_total": sum(len(c["ops"]) for c in lf_cases + fs_cases + growth_impl),
        "model_impl_mismatches": mm1 + mm2}
    chk.assumptions += [
        "cut points k >= first index of the file / above the newest snapshot pointer (Raft never truncates compacted entries)",
        "records are never (index 0, term 0, empty value)",
        "graceful close before reopen (crash points are C04); requests are awaited one at a time",
        "append_after_truncate_accepted assumes the 2 GB data limit is not exhausted below k"]
