"""C16 — With auth on, no data endpoint (HTTP or gRPC) is served without a valid token."""
import json
import os
import sys
import time

import lib

sys.path.insert(0, os.path.join(lib.VERIF, "translators"))
import actix_routes  # noqa: E402
import openapi_tables  # noqa: E402
from rustparse import Refuse  # noqa: E402

sys.path.insert(0, os.path.dirname(os.path.abspath(__file__)))
from c17 import cps, cps_list, opt, failed_lemma, pct_decode_router  # noqa: E402

TARGETS = ["Props/C16.v", "Auth/OpenApiExamples.v", "Auth/OpenApiRegression.v", "Auth/OpenApiScript.v"]

MANIFEST = dict(
    text="Theorems about an executable Gallina model of ApiCheckAuthMiddleware (is_check_path, header/query/body token "
         "extraction, pass) and of the gRPC decision (fill_token_session + InvokerHandler::handle) over tables that a translator "
         "regenerates from the Rust source on every run (IGNORE_PATH, the two regex literals — only the shape (?i)/lit/.* is "
         "accepted —, which path the decision looks at, the 8848 route table, gRPC registrations, ignore_auth / cluster lists; the "
         "decision expressions are pinned textually). The matcher theorem is over ALL strings (induction): any path containing "
         "/nacos/ or /rnacos/v1/ in any letter case is checked unless literally ignored; routes_covered links every raw spelling "
         "the router decodes onto a route under the prefixes to the check. Model, translated tables and the route dispatch model "
         "are validated against the real middleware + real app_config in an in-process actix service (every route x method x token "
         "carrier x token value x spelling) and against the real gRPC decision for every request type.",
    note="Defect found and repaired in the repo (fix commit): the decision was taken on the raw request path while the router "
         "matches the percent-decoded path, so POST /n%61cos/v1/cs/configs was served without a token; the regression lemma "
         "raw_path_decision_refuted documents it. Trusted: Coq kernel+vm_compute, the translator (output validated by the sweep), "
         "serde_urlencoded's parsing of accessToken (its outcome is an input of the model; the harness glue predicts it for the "
         "generated carriers and a wrong prediction shows as a mismatch), the session cache (expiry is TTL, exercised with 1 s).",
    technique="Rocq proof (induction over strings + finite enumeration) + source translator + model/implementation correspondence",
    design="3/C16",
)

FIXED_ALLOWED = {"/nacos/metrics", "/nacos/v1/raft/close-write"}
LOGIN_HANDLER = "login"
NO_SESSION_NEEDED = {"ServerCheckRequest", "HealthCheckRequest", "RaftAppendRequest", "RaftSnapshotRequest", "RaftVoteRequest",
                     "RaftRouteRequest", "NamingRouteRequest"}
CLUSTER_INTERNAL = NO_SESSION_NEEDED - {"ServerCheckRequest", "HealthCheckRequest"}

HEADER = "From RN Require Import Auth.StrX Auth.Route Auth.OpenApi Auth.Grpc Auth.OpenApiScript.\nOpen Scope N_scope.\n"


def api_session(token, ttl=3600):
    return {"token": token, "ttl": ttl, "session": {"username": "u-" + token, "roles": ["0"], "extend_infos": {}}}


def concrete_path(pattern, rng):
    """a path served by the pattern (dynamic parts filled in)"""
    k = actix_routes.parse_pattern(pattern)
    if k[0] == "exact":
        return k[1]
    if k[0] == "prefix":
        return k[1] + rng.choice(["x", "v1/x", "index.html"])
    out = []
    for e in k[1]:
        out.append(e[1] if e[0] == "lit" else ("seg%d" % rng.randrange(10) if e[0] == "seg" else "t/ail"))
    return "".join(out)


def spellings(p, rng):
    out = [("trailing-slash", p + "/")]
    slashes = [k for k in range(1, len(p)) if p[k] == "/"]
    if slashes:
        i = rng.choice(slashes)
        out.append(("dup-slash", p[:i] + "/" + p[i:]))
        out.append(("pct-slash", p[:i] + "%2F" + p[i + 1:]))
        out.append(("dot-segment", p[:i] + "/." + p[i:]))
    out.append(("dup-slash-front", "/" + p))
    letters = [k for k in range(len(p)) if p[k].isalpha()]
    k = rng.choice(letters)
    out.append(("case", p[:k] + p[k].upper() + p[k + 1:]))
    out.append(("case-all", p.upper()))
    # encode a letter of the prefix word itself ("/nacos/" or "/rnacos/v1/") — the spelling of the repaired defect
    first = [k for k in range(len(p)) if p[k].isalpha()][:5]
    k = rng.choice(first)
    out.append(("pct-prefix-letter", p[:k] + "%%%02x" % ord(p[k]) + p[k + 1:]))
    k = rng.choice(letters)
    out.append(("pct-letter", p[:k] + "%%%02X" % ord(p[k]) + p[k + 1:]))
    out.append(("pct-all", "/" + "".join("%%%02x" % ord(c) if c != "/" else "/" for c in p[1:])))
    out.append(("pct-percent", p[:k] + "%25" + p[k:]))
    out.append(("pct-broken", p + "%4"))
    out.append(("matrix", p + ";x=1"))
    out.append(("suffix", p + ".json"))
    return out


# (name, headers builder, query builder, body builder) for a token value T (None = absent: carrier not used)
def carrier_request(name, tok):
    """-> (headers, query, body, model inputs: authorization, access, qtok, btok)"""
    h, q, b = [], "", None
    A = X = Q = B = None
    form = ["Content-Type", "application/x-www-form-urlencoded"]
    if name == "none":
        pass
    elif name == "authorization-bearer":
        h.append(["Authorization", "Bearer " + tok]); A = "Bearer " + tok
    elif name == "authorization-raw":
        h.append(["Authorization", tok]); A = tok
    elif name == "authorization-bearer-lower-tab":
        h.append(["Authorization", "bearer\t" + tok + " "]); A = "bearer\t" + tok + " "
    elif name == "authorization-basic":
        h.append(["Authorization", "Basic " + tok]); A = "Basic " + tok
    elif name == "accesstoken-header":
        h.append(["accessToken", tok]); X = tok
    elif name == "query":
        q = "accessToken=" + tok; Q = tok
    elif name == "query-among-others":
        q = "dataId=a&accessToken=" + tok + "&group=g"; Q = tok
    elif name == "query-encoded":
        enc = "%%%02x" % ord(tok[0]) + tok[1:] if tok else "%20"
        q = "accessToken=" + enc; Q = None          # a value that needs decoding cannot be borrowed: parse error
    elif name == "query-duplicate":
        q = "accessToken=" + tok + "&accessToken=" + tok; Q = None      # serde: duplicate field -> parse error
    elif name == "body":
        h.append(form); b = "accessToken=" + tok; B = tok
    elif name == "body-among-others":
        h.append(form); b = "dataId=a&group=g&accessToken=" + tok; B = tok
    elif name == "header-garbage+query":
        h.append(["Authorization", "nope"]); q = "accessToken=" + tok; A = "nope"; Q = tok
    elif name == "accesstoken-garbage+authorization":
        h.append(["accessToken", "nope"]); h.append(["Authorization", "Bearer " + tok]); X = "nope"; A = "Bearer " + tok
    elif name == "query-garbage+body":
        h.append(form); q = "accessToken=nope"; b = "accessToken=" + tok; Q = "nope"; B = tok
    elif name == "query-empty+body":
        h.append(form); q = "accessToken="; b = "accessToken=" + tok; Q = ""; B = tok
    else:
        raise ValueError(name)
    return h, q, b, (A, X, Q, B)


CARRIERS = ["authorization-bearer", "authorization-raw", "authorization-bearer-lower-tab", "authorization-basic",
            "accesstoken-header", "query", "query-among-others", "query-encoded", "query-duplicate", "body", "body-among-others",
            "header-garbage+query", "accesstoken-garbage+authorization", "query-garbage+body", "query-empty+body"]
VALUES = [("empty", ""), ("garbage", "nope-0123456789abcdef"), ("expired", "tok-exp"), ("valid", "tok-ok")]


def run(chk, replay=None):
    tier = chk.tier
    rng = chk.rng
    t_all = time.time()
    gen1 = os.path.join(lib.COQ, "Gen", "OpenApiTables.v")
    gen2 = os.path.join(lib.COQ, "Gen", "GrpcTables.v")
    info = None
    try:
        t1, t2, info = openapi_tables.generate(lib.REPO)
        openapi_tables.write_if_changed(gen1, t1)
        openapi_tables.write_if_changed(gen2, t2)
    except Refuse as ex:
        chk.violation("translator openapi_tables refuses the source (broken tie): %s" % ex,
                      {"broken": "translator", "translator": "translators/openapi_tables.py", "detail": str(ex)}, False)
    proofs_ok = chk.proofs(TARGETS)
    if not proofs_ok:
        chk.violation("proof obligations of C16 no longer check: %s%s" % (failed_lemma(chk.proof_failure), chk.proof_failure[:300]),
                      {"broken": "theorem", "detail": chk.proof_failure}, False)
        ok_model, out_model = lib.coq_build(["Auth/OpenApiScript.v"])
        if not ok_model:
            chk.violation("the executable model does not build: %s" % out_model[-300:], {"broken": "model build", "log": out_model[-3000:]}, False)
            return
    ok, out = lib.harness_build()
    if not ok:
        chk.violation("harness does not build against the repo", {"broken": "harness build", "log": out[-3000:]}, False)
        return
    if info is None:
        chk.cov["discharged"] = 0
        fallback_sweep(chk)
        chk.violations.sort(key=lambda v: not v[2])
        return
    if replay:
        rp = json.load(open(replay))["replay"]
        case = rp.get("case") if isinstance(rp, dict) else None
        if case:
            res = lib.harness_run("auth", [case])[0]
            lib.log("replay result: %s" % json.dumps(res)[:4000])
            chk.notes["replay_result"] = res

    services = info["services"]
    flat = actix_routes.flatten(services)
    ignore = info["auth"]["ignore"]
    nontrivial = set()
    n_eval = 0
    mism = 0

    def under_prefix(pattern):
        return pattern.startswith("/nacos/") or pattern.startswith("/rnacos/v1/")

    # ---- 1. the Regex statics ---------------------------------------------------------------------------
    base = ["/nacos/", "/NACOS/", "/nacos", "nacos/", "/nacosx/", "x/nacos/y", "//nacos//", "/nacoſ/", "/NACOſ/v1", "/rnacos/v1/", "/RNACOS/V1/",
            "/rnacos/v1", "/rnacos/v2/", "/rnacos/V1/x", "/rnacoſ/v1/", "/rnacos/v１/", "/n%61cos/", "\n/nacos/\n", "/nacos/\n", "",
            "/", "/nacos/metrics", "/nacos/metrics/", "/NACOS/metrics", "/nacos/v1/auth/login", "/nacos/v1/auth/login/", "/nacos/v1/raft/close-write"]
    base += list(ignore) + [p for p, _, _ in flat][:30]
    specials = [0x17F, 0x212A, 0x130, 0x131, 0xDF, 0x0, 0xA, 0x2F, 0x25, 0x53, 0x73, 0x4B, 0x6B, 0xFF0F, 0xFF11, 0x31, 0x32]
    for w in ["/nacos/", "/rnacos/v1/"]:
        for i in range(len(w)):
            for cp in specials + [ord(w[i].upper()), ord(w[i].lower())]:
                base.append("a" + w[:i] + chr(cp) + w[i + 1:] + "b")
    alphabet = "/nNaAcCoOsSrRvV12ſ%\n x"
    for _ in range(500 if tier == "quick" else 6000):
        base.append("".join(rng.choice(alphabet) for _ in range(rng.randrange(0, 14))))
    base = sorted(set(base))
    rimpl = lib.harness_run("auth", [{"k": "regex", "s": [[ord(c) for c in s] for s in base]}])[0]["out"]
    rmodel = lib.coq_eval_sharded("c16r", HEADER, ["map path_preds %s" % cps_list(base[i:i + 250]) for i in range(0, len(base), 250)], per=1)
    rm = [x for shard in rmodel for x in shard]
    for s, a, b in zip(base, rimpl, rm):
        n_eval += 1
        mb = {"api": b[0] == "true", "rnacos_api": b[1] == "true", "ignore": b[2] == "true"}
        if a != mb:
            mism += 1
            chk.violation("model != implementation (path predicates) on %r: model=%s impl=%s" % (s, mb, a),
                          {"suite": "auth", "case": {"k": "regex", "s": [[ord(c) for c in s]]}, "model": mb, "impl": a,
                           "correspondence": "Auth.StrX.re_slash_words vs API_PATH / R_NACOS_API_PATH / IGNORE_PATH"}, False)
        if a["api"] or a["rnacos_api"] or a["ignore"]:
            nontrivial.add(("regex", s))

    # ---- 2. HTTP: the real ApiCheckAuth + the real app_config (auth enabled) ------------------------------
    sessions = [api_session("tok-ok"), api_session("tok-exp", ttl=1)]
    valid = ["tok-ok"]
    reqs = []       # (request json, meta, model tuple)

    def add(method, path, carrier, vname, tok, meta):
        h, q, b, (A, X, Q, B) = carrier_request(carrier, tok) if carrier != "none" else ([], "", None, (None, None, None, None))
        if b is not None and method == "GET":
            pass        # a GET with a body: the body is ignored by peek_body_token
        uri = path + (("&" if "?" in path else "?") + q if q else "")
        rq = {"method": method, "uri": uri, "headers": h}
        if b is not None:
            rq["body"] = b
        reqs.append((rq, dict(meta, method=method, path=path, carrier=carrier, value=vname), (A, X, Q, B, path.split("?")[0], method)))

    routes = []
    for pattern, m, hdl in flat:
        routes.append((pattern, m, hdl, concrete_path(pattern, rng)))
    other = {"GET": "POST", "POST": "GET", "PUT": "PATCH", "DELETE": "GET", "PATCH": "HEAD"}
    for pattern, m, hdl, p in routes:
        if "/sse/" in pattern and not pattern.endswith("session_id}") and not pattern.endswith("session_id}/"):
            pass
        add(m, p, "none", "absent", None, dict(route=pattern, kind="literal", handler=hdl))
        carriers = CARRIERS if (under_prefix(pattern) or tier != "quick") else ["authorization-bearer", "query", "body"]
        for c in carriers:
            for vname, tok in VALUES:
                add(m, p, c, vname, tok, dict(route=pattern, kind="literal", handler=hdl))
        add(other[m], p, "none", "absent", None, dict(route=pattern, kind="other-method", handler=hdl))
        add(other[m], p, "accesstoken-header", "valid", "tok-ok", dict(route=pattern, kind="other-method", handler=hdl))
    for pattern, m, hdl, p in routes:
        if not under_prefix(pattern):
            continue
        for cls_name, sp in spellings(p, rng):
            add(m, sp, "none", "absent", None, dict(route=pattern, kind="spelling:" + cls_name, handler=None))
            add(m, sp, "accesstoken-header", "valid", "tok-ok", dict(route=pattern, kind="spelling:" + cls_name, handler=None))
            add(m, sp, "query", "garbage", "nope", dict(route=pattern, kind="spelling:" + cls_name, handler=None))
    for p in ["/", "/nacos", "/nacos/", "/nacos/v1", "/nacos/v1/", "/nacos/v9/cs/configs", "/rnacos/v1/", "/rnacos/v1/nothing", "/rnacos/v2/x",
              "/metrics/", "/x/nacos/y"]:
        add("GET", p, "none", "absent", None, dict(route=p, kind="unregistered", handler=None))
        add("GET", p, "accesstoken-header", "valid", "tok-ok", dict(route=p, kind="unregistered", handler=None))

    case = {"k": "http", "sessions": sessions, "sleep_ms": 2300, "reqs": [r for r, _, _ in reqs]}
    t0 = time.time()
    canary = {"method": "GET", "uri": "/nacos/v1/ns/operator/metrics", "headers": [["accessToken", "tok-ok"]]}
    case["reqs"] = [canary] + case["reqs"]
    for attempt in (1, 2):
        res = lib.harness_run("auth", [case], timeout=1500)[0]
        if res.get("r") == "ok" and res["out"] and res["out"][0].get("forwarded"):
            break
        chk.notes["http_sweep_retry"] = json.dumps(res)[:200]
    if res.get("r") == "ok":
        res["out"] = res["out"][1:]
    chk.notes["http_sweep_s"] = round(time.time() - t0, 1)
    if res.get("r") != "ok" or not res.get("enable_auth"):
        chk.violation("auth/http harness case failed: %s" % json.dumps(res)[:300], {"suite": "auth", "broken": "harness", "result": res}, False)
        return
    obs = res["out"]
    exprs = []
    CH = 200
    for i in range(0, len(reqs), CH):
        items = ["(%s, %s, %s, %s, %s, %s)" % (opt(a), opt(x), opt(q), opt(b), cps(raw), cps(m)) for _, _, (a, x, q, b, raw, m) in reqs[i:i + CH]]
        exprs.append("run_reqs true %s [%s]" % (cps_list(valid), ";".join(items)))
    mres = [x for shard in lib.coq_eval_sharded("c16h", HEADER, exprs, per=1) for x in shard]

    def obs_verdict(o):
        if o.get("rejected_by_http_layer"):
            return "rejected"
        if o.get("forwarded"):
            return 0
        if o.get("status") == 403:
            return 1
        return "other:%s" % json.dumps(o)[:160]

    def obs_dispatch(o):
        if o.get("status") == 404 and o.get("body_len") == 0:
            return 1
        if o.get("status") == 405 and o.get("body_len") == 0:
            return 2
        return 0

    dist = {}
    for (rq, meta, mt), o, mv in zip(reqs, obs, mres):
        n_eval += 1
        m_v, (m_d, m_h) = mv[0], mv[1]
        o_v = obs_verdict(o)
        kkey = (meta["kind"].split(":")[0], meta["carrier"], meta["value"], o_v if isinstance(o_v, int) else "x")
        dist[kkey] = dist.get(kkey, 0) + 1
        nontrivial.add(("http", meta["route"], meta["kind"], meta["method"], meta["carrier"], meta["value"]))
        rp_obj = {"suite": "auth", "case": {"k": "http", "sessions": [api_session("tok-ok")], "reqs": [rq]}, "observed": o,
                  "model": {"verdict": m_v, "dispatch": m_d, "handler": m_h}, "meta": meta}
        if o_v != m_v:
            mism += 1
            chk.violation("model != implementation (ApiCheckAuth decision) %s %s carrier=%s value=%s: model=%s observed=%s"
                          % (meta["method"], rq["uri"], meta["carrier"], meta["value"], m_v, o_v),
                          dict(rp_obj, correspondence="Auth.OpenApi.middleware"), False)
        elif m_v == 0 and obs_dispatch(o) != m_d:
            mism += 1
            chk.violation("model != implementation (route table / dispatch) %s %s: model=%s(%s) observed status=%s"
                          % (meta["method"], rq["uri"], m_d, m_h, o.get("status")),
                          dict(rp_obj, correspondence="Gen.OpenApiTables.openapi_services / Auth.Route.dispatch_raw"), False)
        # ---- property oracle, on the observation only ----
        routed = pct_decode_router(meta["path"].split("?")[0])
        reached = o.get("forwarded") and obs_dispatch(o) == 0
        under = "/nacos/" in routed or "/rnacos/v1/" in routed
        token_valid = (meta["value"] == "valid" and meta["carrier"] not in
                       ("authorization-basic", "header-garbage+query", "query-garbage+body", "query-empty+body", "query-encoded",
                        "query-duplicate")) and not (meta["carrier"] in ("body", "body-among-others") and meta["method"] == "GET")
        if reached and under and not token_valid:
            # which handler?  allowed: the fixed paths and everything served by the login handler
            served_by = [h for (pattern, m, h, _p) in routes if m == meta["method"] and pattern == routed]
            if routed in FIXED_ALLOWED or (served_by and all(h == LOGIN_HANDLER for h in served_by)):
                continue
            chk.classify("served-without-token:%s:%s" % (meta["method"], routed),
                         "%s %s (routed %s) was served without a valid token (carrier %s, value %s): status %s"
                         % (meta["method"], rq["uri"], routed, meta["carrier"], meta["value"], o.get("status")), rp_obj)
        if (not o.get("forwarded")) and token_valid and o.get("status") == 403:
            # a valid token refused: not a violation of C16 (fail closed) but worth a note
            chk.notes.setdefault("valid_token_refused", []).append("%s %s %s" % (meta["method"], rq["uri"], meta["carrier"]))

    # ---- 2b. the same middleware on a node WITHOUT a raft leader (what every node sees during a leader switch):
    #      the session store cannot be queried; a token that cannot be verified is no token
    lreqs = []
    for pattern, m, hdl, p in routes:
        if not under_prefix(pattern) or p in FIXED_ALLOWED or hdl == LOGIN_HANDLER:
            continue
        for c in ("accesstoken-header", "authorization-bearer", "query", "body"):
            if c == "body" and m == "GET":
                continue
            h, q, b, _ = carrier_request(c, "nope-unknown-token")
            uri = p + (("&" if "?" in p else "?") + q if q else "")
            rq = {"method": m, "uri": uri, "headers": h}
            if b is not None:
                rq["body"] = b
            lreqs.append((rq, {"route": pattern, "method": m, "carrier": c}))
    if tier == "quick":
        lreqs = lreqs[:: max(1, len(lreqs) // 160)]
    lcase = {"k": "http", "sessions": [], "env": {"RNACOS_RAFT_AUTO_INIT": "false", "RNACOS_RAFT_JOIN_ADDR": ""},
             "reqs": [r for r, _ in lreqs]}
    lres0 = lib.harness_run("auth", [lcase], timeout=600)[0]
    if lres0.get("r") != "ok" or not lres0.get("enable_auth"):
        chk.violation("auth/http harness case (leaderless node) failed: %s" % json.dumps(lres0)[:300],
                      {"suite": "auth", "broken": "harness", "result": lres0}, False)
    else:
        for (rq, meta), o in zip(lreqs, lres0["out"]):
            n_eval += 1
            nontrivial.add(("http-leaderless", meta["route"], meta["method"], meta["carrier"]))
            if o.get("forwarded") and obs_dispatch(o) == 0:
                chk.classify("served-without-token:leaderless:%s:%s" % (meta["method"], meta["route"]),
                             "%s %s was served with an unverifiable token (carrier %s) on a node without raft leader: status %s"
                             % (meta["method"], rq["uri"], meta["carrier"], o.get("status")),
                             {"suite": "auth", "case": dict(lcase, reqs=[rq]), "observed": o, "meta": meta})
        chk.notes["leaderless_requests"] = len(lreqs)

    # ---- 3. a genuine login: the issued token works, a wrong password issues none -------------------------
    life = {"k": "http", "sessions": [], "reqs": [
        {"method": "POST", "uri": "/nacos/v1/auth/login", "headers": [["Content-Type", "application/x-www-form-urlencoded"]],
         "body": "username=admin&password=admin", "want_body": True},
        {"method": "POST", "uri": "/nacos/v1/auth/login", "headers": [["Content-Type", "application/x-www-form-urlencoded"]],
         "body": "username=admin&password=wrong", "want_body": True},
    ]}
    lres = lib.harness_run("auth", [life])[0]
    n_eval += 2
    tok = None
    try:
        tok = json.loads(lres["out"][0]["body"]).get("accessToken")
        bad = json.loads(lres["out"][1].get("body") or "{}").get("accessToken")
    except Exception:
        bad = None
    if not tok or bad:
        chk.classify("login-lifecycle", "login does not issue a token for the right password or issues one for a wrong password: %s"
                     % json.dumps(lres)[:300], {"suite": "auth", "case": life, "observed": lres})

    # ---- 4. gRPC: the real fill_token_session + InvokerHandler::handle ----------------------------------
    gtypes = list(info["grpc"]["consts"][c] for c in info["grpc"]["registered"]) + ["ServerCheckRequest", "FooRequest", ""]
    greqs = []
    for t in gtypes:
        for acc in (None, "", "nope", "tok-ok", "tok-exp"):
            for auz in (None, "tok-ok", "nope"):
                for ct in (None, "wrong", "ct-secret", ""):
                    greqs.append((t, acc, auz, ct))
    configs = [("auth on, no cluster token", {"RNACOS_ENABLE_OPEN_API_AUTH": "true", "RNACOS_CLUSTER_TOKEN": ""}, True, ""),
               ("auth on, cluster token", {"RNACOS_ENABLE_OPEN_API_AUTH": "true", "RNACOS_CLUSTER_TOKEN": "ct-secret"}, True, "ct-secret"),
               ("auth off, cluster token", {"RNACOS_ENABLE_OPEN_API_AUTH": "false", "RNACOS_CLUSTER_TOKEN": "ct-secret"}, False, "ct-secret")]
    gdist = {}
    for cname, env, enable, cfg in configs:
        gcase = {"k": "grpc", "env": env, "sessions": [api_session("tok-ok"), api_session("tok-exp", ttl=1)], "reqs": []}
        for t, acc, auz, ct in greqs:
            hd = {}
            if acc is not None:
                hd["accessToken"] = acc
            if auz is not None:
                hd["Authorization"] = auz
            if ct is not None:
                hd["ClusterToken"] = ct
            gcase["reqs"].append({"type": t, "headers": hd})
        # the expired session needs its second to pass: a first tiny case installs it, the sweep follows
        # canary (first request): a live token on a data request must be dispatched, otherwise the in-process node
        # did not come up properly (sessions lost during start-up) and the run is repeated once
        canary = {"type": "ConfigQueryRequest", "headers": {"accessToken": "tok-ok"}}
        for attempt in (1, 2):
            gres = lib.harness_run("auth", [dict(gcase, reqs=[]), {"k": "http", "sessions": [], "sleep_ms": 2300, "reqs": [], "env": env},
                                            dict(gcase, sessions=[], reqs=[canary] + gcase["reqs"])], env=None)[2]
            if gres.get("r") == "ok" and gres["out"] and (gres["out"][0].get("has_session") or not enable):
                break
            chk.notes["grpc_retry_" + cname] = json.dumps(gres)[:200]
        if gres.get("r") == "ok":
            gres["out"] = gres["out"][1:]
        if gres.get("r") != "ok" or gres.get("enable_auth") != enable or gres.get("cluster_token_configured") != bool(cfg):
            chk.violation("auth/grpc harness case failed (%s): %s" % (cname, json.dumps(gres)[:300]),
                          {"suite": "auth", "broken": "harness", "result": gres}, False)
            continue
        items = ["(%s, %s, %s, %s)" % (cps(t), opt(acc), opt(auz), opt(ct)) for t, acc, auz, ct in greqs]
        gm = []
        for i in range(0, len(items), 400):
            gm += lib.coq_eval_sharded("c16g", HEADER, ["run_grpcs %s %s %s [%s]" % ("true" if enable else "false", cps(cfg), cps_list(valid),
                                                                                      ";".join(items[i:i + 400]))], per=1)[0]
        for (t, acc, auz, ct), o, mv in zip(greqs, gres["out"], gm):
            n_eval += 1
            # Coq prints ((a, b), c) as (a, b, c)
            m_hs, m_ck, m_code = mv[0] == "true", mv[1] == "true", mv[2]
            if "handler_error" in o:
                code = 3
            elif o.get("resp_type") == "ServerCheckResponse":
                code = 0
            elif o.get("error_code") == 403 and o.get("message") == "unknown user!":
                code = 1
            elif o.get("error_code") == 500 and o.get("message") == "request cluster token is invalid":
                code = 2
            elif o.get("error_code") == 302 and "RequestHandler Not Found" in (o.get("message") or ""):
                code = 4
            else:
                code = 3
            gdist[(cname, t or "(empty)", code)] = gdist.get((cname, t or "(empty)", code), 0) + 1
            nontrivial.add(("grpc", cname, t, acc, auz, ct))
            rp_obj = {"suite": "auth", "case": {"k": "grpc", "env": env, "sessions": [api_session("tok-ok")],
                                                "reqs": [{"type": t, "headers": {k: v for k, v in (("accessToken", acc), ("Authorization", auz), ("ClusterToken", ct)) if v is not None}}]},
                      "observed": o, "model": {"has_session": m_hs, "cluster_ok": m_ck, "code": m_code}, "config": cname}
            if (o.get("has_session"), o.get("cluster_ok"), code) != (m_hs, m_ck, m_code):
                mism += 1
                chk.violation("model != implementation (gRPC decision, %s) type=%r accessToken=%r Authorization=%r ClusterToken=%r: model=%s observed=%s"
                              % (cname, t, acc, auz, ct, (m_hs, m_ck, m_code), (o.get("has_session"), o.get("cluster_ok"), code)),
                              dict(rp_obj, correspondence="Auth.Grpc.request"), False)
            # oracle on the observation: data requests need a live session; cluster requests need the cluster token
            live = (acc == "tok-ok") or (acc is None and auz == "tok-ok")
            if enable and code == 3 and t not in NO_SESSION_NEEDED and t in gtypes[:-3] and not live:
                chk.classify("grpc-no-session:%s" % t, "gRPC %s dispatched without a live session (%s)" % (t, cname), rp_obj)
            if cfg and t in CLUSTER_INTERNAL and code == 3 and ct != cfg:
                chk.classify("grpc-cluster:%s" % t, "cluster request %s dispatched without the cluster token (%s)" % (t, cname), rp_obj)

    if not proofs_ok or mism:
        pass
    chk.cov["evaluations"] = n_eval
    chk.cov["distinct_nontrivial"] = len(nontrivial)
    chk.cov["rule"] = ("(a) path predicates on %d strings (case / Unicode-fold substitutions at every position of both regex literals, "
                       "random strings over a small alphabet, the ignore entries). (b) %d HTTP requests through the real ApiCheckAuth + "
                       "app_config (auth on): every registered (route, method) x %d token carriers x {empty, garbage, expired, valid} + no "
                       "token, an unregistered method, 14 spelling classes for every route under the two prefixes x {no token, valid, "
                       "garbage}, unregistered paths; non-trivial = distinct (route, kind, method, carrier, value). (c) gRPC: %d request "
                       "types x 5 accessToken x 3 Authorization x 4 ClusterToken values under 3 configurations. (d) a genuine login."
                       % (len(base), len(reqs), len(CARRIERS), len(gtypes)))
    chk.cov["samples"] = [{"regex": base[len(base) // 2], "impl": rimpl[len(base) // 2]},
                          {"http": reqs[10][0], "observed": obs[10]}, {"http": reqs[-5][0], "observed": obs[-5]},
                          {"grpc": greqs[37]}]
    chk.cov["input_distribution"] = {
        "regex_strings": len(base), "http_requests": len(reqs), "grpc_requests": len(greqs) * len(configs),
        "routes": len(flat), "routes_under_prefixes": sum(1 for p, _, _ in flat if under_prefix(p)),
        "http_by_kind_carrier_value_verdict": {"%s|%s|%s|%s" % k: v for k, v in sorted(dist.items(), key=str)},
        "grpc_by_config_type_code": {"%s|%s|%s" % k: v for k, v in sorted(gdist.items(), key=str)},
        "model_impl_mismatches": mism,
    }
    chk.notes["routes_outside_the_two_prefixes_not_judged"] = sorted({p for p, _, _ in flat if not under_prefix(p)})
    chk.notes["translator"] = {"route_functions": info["visited"], "skipped_cfg": info["skipped"], "path_source": info["auth"]["source"]}
    chk.notes["total_s"] = round(time.time() - t_all, 1)
    chk.cov["trusted_base"] = ["translators/openapi_tables.py (refuses unknown shapes; output validated by the sweep)",
                               "actix-web router semantics as modelled in Auth/Route.v (validated by the HTTP sweep)",
                               "serde_urlencoded (outcome of parsing accessToken is an input of the model)"]
    chk.assumptions += ["a token is valid iff the cache holds an ApiTokenSession for it (expiry = cache TTL, exercised with a 1 s session)",
                        "the 8848 server is ApiCheckAuth around app_config (checked by the translator on src/main.rs)",
                        "auth enabled (openapi_enable_auth = true); with auth off every request passes (lemma auth_off_passes)"]
    chk.violations.sort(key=lambda v: not v[2])


def fallback_sweep(chk):
    """translator refused: scrape path literals and run the oracle (no token -> must not be served)"""
    import re
    lits = set()
    for root, _, files in os.walk(os.path.join(lib.REPO, "src")):
        for fn in files:
            if fn.endswith(".rs") and ("openapi" in root or fn in ("web_config.rs", "mod.rs")):
                try:
                    src = open(os.path.join(root, fn)).read()
                except OSError:
                    continue
                lits |= set(re.findall(r'"(/[A-Za-z0-9_/.-]*)"', src))
    scopes = [x for x in lits if x.startswith("/nacos/") or x.startswith("/rnacos/v1")]
    tails = [x for x in lits if not x.startswith("/nacos") and not x.startswith("/rnacos")] + [""]
    cand = sorted(set(scopes) | {s + t for s in scopes for t in tails if len(s + t) < 60})[:1500]
    reqs = [{"method": m, "uri": p, "headers": []} for p in cand for m in ("GET", "POST", "PUT", "DELETE")]
    res = lib.harness_run("auth", [{"k": "http", "sessions": [], "reqs": reqs}], timeout=1500)[0]
    if res.get("r") != "ok":
        return
    n = 0
    for rq, o in zip(reqs, res["out"]):
        n += 1
        reached = o.get("forwarded") and not (o.get("status") in (404, 405) and o.get("body_len") == 0)
        p = rq["uri"]
        if reached and p not in FIXED_ALLOWED and "/auth/" not in p:
            chk.classify("served-without-token:%s:%s" % (rq["method"], p), "%s %s was served without a token: status %s"
                         % (rq["method"], p, o.get("status")), {"suite": "auth", "case": {"k": "http", "sessions": [], "reqs": [rq]}, "observed": o})
    chk.cov["evaluations"] = n
    chk.cov["rule"] = "translator refused: fallback sweep over path literals scraped from the source x 4 methods without a token (oracle only)"
