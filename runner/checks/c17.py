"""C17 — Console: every API needs a login session; roles cannot exceed their grants."""
import json
import os
import sys
import time

import lib

sys.path.insert(0, os.path.join(lib.VERIF, "translators"))
import actix_routes  # noqa: E402
import console_tables  # noqa: E402
from rustparse import Refuse  # noqa: E402

TARGETS = ["Props/C17.v", "Auth/ConsoleExamples.v", "Auth/ConsoleScript.v"]

MANIFEST = dict(
    text="Theorems about an executable Gallina model of permission.rs (PathResource/GroupResource/UserRole::new/"
         "match_url/match_url_by_roles) and of the CheckLogin middleware decision, over permission tables, role constants, "
         "ignore list, regex words and the console route table that a translator regenerates from the Rust source on every "
         "run (unknown source shapes are refused). Paths, methods, tokens and role strings are universally quantified; the "
         "route/permission tables are finite and enumerated completely in the kernel (vm_compute + forallb_forall). "
         "Includes a general theorem that percent-encoded spellings which the router decodes fail closed. The model and the "
         "translated tables are validated against the real UserRole::match_url_by_roles on a full cross product, against the "
         "real Regex statics, and against the real CheckLogin middleware + real console_config in an in-process actix "
         "service with sessions of every class (none/garbage/expired/valid x role sets).",
    note="Trusted: Coq kernel+vm_compute, the python translator (cross-checked bit for bit by the dynamic sweep), the "
         "harness, actix-web's router (modelled: first matching service, scope without fall-through, partial "
         "percent-decoding; validated by the sweep). Session expiry itself is the cache's TTL (runtime; exercised with a "
         "1 s session). Page/asset routes with a dynamic tail serve only the SPA shell / embedded files and are not judged.",
    technique="Rocq proof (finite enumeration in the kernel + general lemmas) + source translator + model/implementation correspondence",
    design="3/C17",
)

# ---- the property's own vocabulary (from the property text, not from the code's tables) ------------------
LOGIN_ENDPOINTS = {
    "/rnacos/api/console/login/login", "/rnacos/api/console/login/captcha",
    "/rnacos/api/console/v2/login/login", "/rnacos/api/console/v2/login/captcha",
    "/rnacos/api/console/v2/login/config", "/rnacos/api/console/v2/login/oauth2/login",
}
VISITOR_SELF_SERVICE = {
    "/rnacos/api/console/login/login", "/rnacos/api/console/login/logout", "/rnacos/api/console/user/reset_password",
    "/rnacos/api/console/v2/login/login", "/rnacos/api/console/v2/login/logout",
    "/rnacos/api/console/v2/login/oauth2/login", "/rnacos/api/console/v2/user/reset_password",
}
USER_SELF_SERVICE = {
    "/rnacos/api/console/user/info", "/rnacos/api/console/user/web_resources", "/rnacos/api/console/user/reset_password",
    "/rnacos/api/console/v2/user/info", "/rnacos/api/console/v2/user/web_resources",
    "/rnacos/api/console/v2/user/reset_password",
}
API_PREFIX = "/rnacos/api/"
KNOWN_ROLES = {"0": "manager", "1": "developer", "2": "visitor"}


def is_user_mgmt(p):
    return (p.startswith("/rnacos/api/console/user/") or p.startswith("/rnacos/api/console/v2/user/")) and p not in USER_SELF_SERVICE


def is_transfer(p):
    return "/transfer/" in p


# ---- Coq literals ----------------------------------------------------------------------------------------
def cps(s):
    return "[" + ";".join(str(ord(c)) for c in s) + "]%N"


def cps_list(xs):
    return "[" + ";".join(cps(x) for x in xs) + "]"


def opt(s):
    return "None" if s is None else "(Some %s)" % cps(s)


HEADER = "From RN Require Import Auth.StrX Auth.Route Auth.Console Auth.ConsoleScript.\nOpen Scope N_scope.\n"


def pct_decode_router(raw):
    """actix-router Quoter::requote with protected set %/+ (python twin of StrX.requote, used only to pick
    interesting spellings; expectations come from the Coq model)"""
    out = []
    i = 0
    while i < len(raw):
        c = raw[i]
        if c == "%" and i + 2 < len(raw) + 0 and i + 2 <= len(raw) - 1:
            h = raw[i + 1:i + 3]
            try:
                v = int(h, 16) if all(x in "0123456789abcdefABCDEF" for x in h) else None
            except ValueError:
                v = None
            if v is not None and not (v < 128 and chr(v) in "%/+"):
                out.append(chr(v))
                i += 3
                continue
        out.append(c)
        i += 1
    return "".join(out)


# ---- generators ------------------------------------------------------------------------------------------
def spellings(p, rng):
    """(class, raw path) variants of a static route path"""
    out = []
    out.append(("trailing-slash", p + "/"))
    i = rng.choice([k for k in range(1, len(p)) if p[k] == "/"])
    out.append(("dup-slash", p[:i] + "/" + p[i:]))
    out.append(("dup-slash-front", "/" + p))
    letters = [k for k in range(len(p)) if p[k].isalpha()]
    k = rng.choice(letters)
    out.append(("case", p[:k] + p[k].upper() + p[k + 1:]))
    out.append(("case-all", p.upper()))
    k = rng.choice(letters)
    out.append(("pct-letter", p[:k] + "%%%02x" % ord(p[k]) + p[k + 1:]))
    k = rng.choice(letters)
    out.append(("pct-letter-upper-hex", p[:k] + "%%%02X" % ord(p[k]) + p[k + 1:]))
    out.append(("pct-slash", p[:i] + "%2F" + p[i + 1:]))
    out.append(("pct-all-last-segment", p[:p.rindex("/") + 1] + "".join("%%%02x" % ord(c) for c in p[p.rindex("/") + 1:])))
    out.append(("static-suffix", p + ".js"))
    out.append(("static-suffix-pct", p + "%2Ejs"))
    out.append(("static-matrix", p + ";a.css"))
    out.append(("static-query", p + "?a=b.png"))
    out.append(("dot-segment", p[:i] + "/." + p[i:]))
    out.append(("pct-broken", p + "%4"))
    out.append(("pct-percent", p[:k] + "%25" + p[k:]))
    return out


def session_json(token, roles, ttl=3600):
    return {"token": token, "ttl": ttl,
            "session": {"username": "u-" + token, "nickname": None, "roles": roles, "namespace_privilege": None,
                        "extend_infos": {}, "refresh_time": int(time.time())}}


SESSIONS = [            # (token, roles, class)
    ("tok-v", ["2"], "visitor"),
    ("tok-d", ["1"], "developer"),
    ("tok-m", ["0"], "manager"),
    ("tok-vd", ["2", "1"], "visitor+developer"),
    ("tok-x", ["9"], "unknown-role"),
    ("tok-xv", ["admin", "2"], "unknown+visitor"),
    ("tok-none", [], "no-roles"),
]
TOKEN_CLASSES = [(None, "absent"), ("", "empty"), ("nope-0123456789abcdef", "garbage"), ("tok-exp", "expired")] + \
                [(t, c) for t, _, c in SESSIONS]


def route_request_path(pat):
    """a concrete path served by a route pattern"""
    kind, text = pat
    return text if kind == "exact" else text + "x1"


def run(chk, replay=None):
    tier = chk.tier
    rng = chk.rng
    t_all = time.time()

    # ---- 1. translator (tie to the source) ------------------------------------------------------------
    gen_path = os.path.join(lib.COQ, "Gen", "ConsoleTables.v")
    translator_ok = True
    try:
        text, info = console_tables.generate(lib.REPO)
        console_tables.write_if_changed(gen_path, text)
    except Refuse as ex:
        translator_ok = False
        info = None
        chk.violation("translator console_tables refuses the source (broken tie): %s" % ex,
                      {"broken": "translator", "translator": "translators/console_tables.py", "detail": str(ex)}, False)
    proofs_ok = chk.proofs(TARGETS)
    if not proofs_ok:
        chk.violation("proof obligations of C17 no longer check: %s%s" % (failed_lemma(chk.proof_failure), chk.proof_failure[:300]),
                      {"broken": "theorem", "detail": chk.proof_failure}, False)
        # the executable model must still be available for the correspondence / failing-input search
        ok_model, out_model = lib.coq_build(["Auth/ConsoleScript.v"])
        if not ok_model:
            chk.violation("the executable model does not build: %s" % out_model[-300:], {"broken": "model build", "log": out_model[-3000:]}, False)
            return
    ok, out = lib.harness_build()
    if not ok:
        chk.violation("harness does not build against the repo", {"broken": "harness build", "log": out[-3000:]}, False)
        return
    if info is None:
        chk.cov["discharged"] = 0      # the theorems were checked against tables of an older source
        fallback_sweep(chk)
        chk.violations.sort(key=lambda v: not v[2])
        return

    if replay:
        rp = json.load(open(replay))["replay"]
        case = rp.get("case") if isinstance(rp, dict) else None
        if case:
            res = lib.harness_run("console", [case])[0]
            lib.log("replay result: %s" % json.dumps(res)[:4000])
            chk.notes["replay_result"] = res

    perm = info["perm"]
    services = info["services"]
    flat = actix_routes.flatten(services)           # (pattern, METHOD, handler)

    def pat_of(p):
        return ("prefix", p[:p.index("{")]) if "{" in p else ("exact", p)
    routes = [(pat_of(p), m, h) for p, m, h in flat]
    exact_paths = sorted({pt[1] for pt, _, _ in routes if pt[0] == "exact"})
    api_paths = [p for p in exact_paths if p.startswith(API_PREFIX)]
    table_paths = sorted({p for paths, _ in perm["modules"].values() for p, _ in paths})
    nontrivial = set()
    n_eval = 0
    mism = 0

    # ---- 2. cross product on the real UserRole::match_url_by_roles ---------------------------------------
    role_sets = [[], ["0"], ["1"], ["2"], ["0", "1"], ["0", "2"], ["1", "2"], ["2", "1"], ["0", "1", "2"],
                 ["3"], [""], ["admin"], ["0 "], [" 0"], ["00"], ["VISITOR"], ["２"], ["-1"], ["2\u0000"],
                 ["x", "2"], ["2", "x"], ["3", "1", "x"], ["0", "0"], ["2", "2", "1"], ["", "1"]]
    for _ in range(6 if tier == "quick" else 40):
        role_sets.append([rng.choice(["0", "1", "2", "3", "", "x", "01", "2 "]) for _ in range(rng.randrange(1, 4))])
    paths = list(exact_paths)
    for pt, _, _ in routes:
        if pt[0] == "prefix":
            paths += [pt[1], pt[1] + "x1", pt[1] + "configs", pt[1] + "user", pt[1] + "a.js"]
    paths += table_paths
    paths += ["", "/", "//", "%", "/rnacos/api/console/download", "/rnacos/api", "/rnacos/api/console",
              "/rnacos/api/console/v2", "/RNACOS/API/CONSOLE/V2/USER/LIST"]
    sample = rng.sample(api_paths, min(len(api_paths), 10 if tier == "quick" else len(api_paths)))
    for p in sample:
        for _, sp in spellings(p, rng):
            paths.append(sp.split("?")[0])
    paths = sorted(set(paths))
    methods = ["GET", "POST", "PUT", "DELETE", "PATCH", "HEAD", "OPTIONS", "", "get", "Post", "PROBE-OTHER", "GET "]
    impl = lib.harness_run("console", [{"k": "match", "roles": role_sets, "paths": paths, "methods": methods}])[0]
    if impl.get("r") != "ok":
        raise RuntimeError("console/match failed: %s" % impl)
    rows = impl["rows"]
    # Model side: one row per DISTINCT role string (evaluated in Coq); the value for a list of roles is the OR of
    # the rows of its members — that is theorem C17_multi_role_is_union about this very model function, so
    # nothing about the model is assumed here, it only avoids re-evaluating the same cells.
    role_strings = sorted({r for rs in role_sets for r in rs})
    header = HEADER + "Definition METHODS : list str := %s.\n" % cps_list(methods)
    CHP = 120
    exprs, owner = [], []
    for r in role_strings:
        for i in range(0, len(paths), CHP):
            exprs.append("match_rows [[%s]] %s METHODS" % (cps(r), cps_list(paths[i:i + CHP])))
            owner.append((r, i))
    single = {r: {} for r in role_strings}
    for (r, i), val in zip(owner, lib.coq_eval_sharded("c17m", header, exprs, per=1)):
        for off, cells in enumerate(val[0]):
            single[r][paths[i + off]] = [b == "true" for b in cells]
    bit = {}
    for ri, rs in enumerate(role_sets):
        for pi, p in enumerate(paths):
            mbits = [any(single[r][p][mi] for r in rs) for mi in range(len(methods))]
            mb = "".join("1" if b else "0" for b in mbits)
            ib = rows[ri][pi]
            n_eval += len(methods)
            for mi, m in enumerate(methods):
                bit[(ri, p, m)] = ib[mi] == "1"
            if mb != ib:
                mism += 1
                chk.violation("model != implementation (match_url_by_roles): roles=%r path=%r methods=%r model=%s impl=%s"
                              % (rs, p, methods, mb, ib),
                              {"suite": "console", "case": {"k": "match", "roles": [rs], "paths": [p], "methods": methods},
                               "model": mb, "impl": ib, "correspondence": "Auth.Console.match_url_by_roles / Gen.ConsoleTables"}, False)
    # columns on which the role sets disagree are the discriminating (non-trivial) ones
    for p in paths:
        for m in methods:
            vals = {bit[(ri, p, m)] for ri in range(len(role_sets))}
            if len(vals) > 1:
                nontrivial.add(("match", p, m))

    # property oracle on the implementation's bits (independent of the model)
    idx = {tuple(rs): i for i, rs in enumerate(role_sets)}
    V, D, M = idx[("2",)], idx[("1",)], idx[("0",)]
    registered = set()
    for pt, m, _ in routes:
        if pt[0] == "exact":
            registered.add(pt[1])
        else:
            registered.update(x for x in paths if x.startswith(pt[1]))
    for p in sorted(registered & set(paths)):
        for m in methods:
            case = {"k": "match", "roles": [["2"], ["1"], ["0"]], "paths": [p], "methods": [m]}
            if m != "GET" and bit[(V, p, m)] and p not in (VISITOR_SELF_SERVICE | LOGIN_ENDPOINTS):
                chk.classify("visitor-mutate:%s:%s" % (p, m), "visitor is granted %s %s" % (m, p), {"suite": "console", "case": case})
            if (is_user_mgmt(p) or is_transfer(p)) and bit[(D, p, m)]:
                chk.classify("developer-admin:%s:%s" % (p, m), "developer is granted %s %s" % (m, p), {"suite": "console", "case": case})
            if (bit[(V, p, m)] and not bit[(D, p, m)]) or (bit[(D, p, m)] and not bit[(M, p, m)]):
                chk.classify("monotone:%s:%s" % (p, m), "role grants not monotone on %s %s: visitor=%s developer=%s manager=%s"
                             % (m, p, bit[(V, p, m)], bit[(D, p, m)], bit[(M, p, m)]), {"suite": "console", "case": case})
    for ri, rs in enumerate(role_sets):
        known = [r for r in rs if r in KNOWN_ROLES]
        for p in paths:
            for m in methods:
                want = any(bit[(idx[(r,)], p, m)] for r in known)
                if bit[(ri, p, m)] != want:
                    chk.classify("union:%r" % (rs,), "role set %r on %s %s is not the union of its known roles" % (rs, m, p),
                                 {"suite": "console", "case": {"k": "match", "roles": [rs] + [[r] for r in known], "paths": [p], "methods": [m]}})
    stale = [(p, m) for p in paths for m in methods if bit[(V, p, m)] and not bit[(D, p, m)] and p not in registered]
    chk.notes["visitor_only_unregistered_entries"] = sorted(set(stale))

    # ---- 3. the real Regex statics / ignore list ---------------------------------------------------------
    base = ["x.js", ".JS", ".Js", "/a.css?x", ".jpgx", ".jp", "..png", ".svg/", "x.bmp.txt", "/API/x", "/api", "/api/", "api/",
            "/Nacos/", "nacos/", "/nacosx/", "/nacoſ/", "/apı/", "/aKI/", ".ſvg", ".cſſ", ".jſ",
            "\n/api/\n", ".js\n", "/rnacos/p/login", "/rnacos/p/login/", "/RNACOS/P/LOGIN", "/rnacos/404", "", ".", "/", ".jpeg", ".jpe",
            "/x.PnG/y", "%2Ejs", ".%6as", "/rnacos/api/console/login/login", "/rnacos/api/console/login/login "]
    base += perm_ignore(info) + exact_paths[:20]
    specials = [0x17F, 0x212A, 0x130, 0x131, 0xDF, 0x0, 0xA, 0x2E, 0x2F, 0x25, 0x4B, 0x6B, 0x53, 0x73, 0x1E9E, 0xFF0F, 0x2024]
    for w in ["/nacos/", "/api/", ".js", ".jpeg", ".css", ".svg", ".bmp", ".png", ".jpg"]:
        for i in range(len(w)):
            for cp in specials + [ord(w[i].upper()), ord(w[i].lower())]:
                base.append("pre" + w[:i] + chr(cp) + w[i + 1:] + "post")
    alphabet = "/.%aApPiInNcCoOsSjJgG ſK\n"
    for _ in range(400 if tier == "quick" else 5000):
        base.append("".join(rng.choice(alphabet) for _ in range(rng.randrange(0, 12))))
    base = sorted(set(base))
    rimpl = lib.harness_run("console", [{"k": "regex", "s": [[ord(c) for c in s] for s in base]}])[0]["out"]
    rmodel = lib.coq_eval_sharded("c17r", HEADER, ["map path_preds %s" % cps_list(base[i:i + 200]) for i in range(0, len(base), 200)], per=1)
    rm = [x for shard in rmodel for x in shard]
    for s, a, b in zip(base, rimpl, rm):
        n_eval += 1
        # Coq prints nested pairs (a, b, c)
        mb = {"static": b[0] == "true", "api": b[1] == "true", "ignore": b[2] == "true"}
        if a != mb:
            mism += 1
            chk.violation("model != implementation (path predicates) on %r: model=%s impl=%s" % (s, mb, a),
                          {"suite": "console", "case": {"k": "regex", "s": [[ord(c) for c in s]]}, "model": mb, "impl": a,
                           "correspondence": "Auth.StrX.re_dot_exts / re_slash_words vs the Regex statics of login_middle.rs"}, False)
        if a["static"] or a["api"] or a["ignore"]:
            nontrivial.add(("regex", s))

    # ---- 4. the real CheckLogin middleware + real console_config ----------------------------------------
    sessions = [session_json(t, r) for t, r, _ in SESSIONS] + [session_json("tok-exp", ["0"], ttl=1)]
    reqs = []       # (request json, meta)
    lo = [0]

    def add(method, uri, token, carrier, meta):
        headers = []
        tok = token
        if token is not None and "/login/logout" in uri and token.startswith("tok-") and token != "tok-exp":
            # logging out destroys the session: use a private copy of it
            lo[0] += 1
            tok = "%s-lo%d" % (token, lo[0])
            roles = [r for t, r, _ in SESSIONS if t == token][0]
            sessions.append(session_json(tok, roles))
        ck = hd = None
        if tok is not None:
            if carrier == "header":
                headers.append(["Token", tok])
                hd = tok
            elif carrier == "cookie":
                headers.append(["Cookie", "token=" + tok])
                ck = tok
            elif carrier == "cookie+badheader":
                headers.append(["Cookie", "token=" + tok])
                headers.append(["Token", "nope"])
                ck, hd = tok, "nope"
            elif carrier == "badcookie+header":
                headers.append(["Cookie", "token=nope"])
                headers.append(["Token", tok])
                ck, hd = "nope", tok
        reqs.append(({"method": method, "uri": uri, "headers": headers},
                     dict(meta, method=method, uri=uri, token=token, used_token=tok, cookie=ck, header=hd, carrier=carrier)))

    other = {"GET": "POST", "POST": "GET", "PUT": "PATCH", "DELETE": "GET"}
    for pt, m, h in routes:
        p = route_request_path(pt)
        for tok, cls in TOKEN_CLASSES:
            add(m, p, tok, "header", dict(route=pt[1], kind="literal", cls=cls, handler=h))
        add(m, p, "tok-m", "cookie", dict(route=pt[1], kind="literal", cls="manager", handler=h))
        add(m, p, "tok-v", "cookie+badheader", dict(route=pt[1], kind="literal", cls="visitor", handler=h))
        add(m, p, "tok-m", "badcookie+header", dict(route=pt[1], kind="literal", cls="garbage", handler=h))
        if pt[0] == "exact":
            add(other[m], p, "tok-m", "header", dict(route=pt[1], kind="other-method", cls="manager", handler=h))
            add(other[m], p, None, "header", dict(route=pt[1], kind="other-method", cls="absent", handler=h))
    must = [p for p in api_paths if is_user_mgmt(p) or is_transfer(p) or p in LOGIN_ENDPOINTS]
    rest = [p for p in api_paths if p not in must]
    pick = must + rng.sample(rest, min(len(rest), 25 if tier == "quick" else len(rest)))
    meth_of = {}
    for pt, m, h in routes:
        meth_of.setdefault(pt[1], m)
    for p in pick:
        for cls_name, sp in spellings(p, rng):
            for tok, cls in [(None, "absent"), ("tok-m", "manager"), ("tok-v", "visitor")]:
                add(meth_of[p], sp, tok, "header", dict(route=p, kind="spelling:" + cls_name, cls=cls, handler=None))
    # paths only the permission tables know (no route): must end in 404 / refusal
    for p in table_paths:
        if p not in exact_paths and not any(pt[0] == "prefix" and p.startswith(pt[1]) for pt, _, _ in routes):
            for tok, cls in [(None, "absent"), ("tok-m", "manager"), ("tok-v", "visitor")]:
                add("GET", p, tok, "header", dict(route=p, kind="table-only", cls=cls, handler=None))

    case = {"k": "http", "sessions": sessions, "sleep_ms": 2300, "reqs": [r for r, _ in reqs],
            "env": {"RNACOS_ENABLE_NO_AUTH_CONSOLE": "false"}}
    t0 = time.time()
    # canary (first request): the manager session must reach a manager route, otherwise the in-process node did not
    # come up properly (sessions lost during start-up) and the run is repeated once
    canary = {"method": "GET", "uri": "/rnacos/api/console/v2/cluster/cluster_node_list", "headers": [["Token", "tok-m"]]}
    case["reqs"] = [canary] + case["reqs"]
    for attempt in (1, 2):
        res = lib.harness_run("console", [case], timeout=1500)[0]
        if res.get("r") == "ok" and res["out"] and res["out"][0].get("forwarded"):
            break
        chk.notes["http_sweep_retry"] = json.dumps(res)[:200]
    if res.get("r") == "ok":
        res["out"] = res["out"][1:]
    chk.notes["http_sweep_s"] = round(time.time() - t0, 1)
    if res.get("r") != "ok":
        chk.violation("console/http harness case failed: %s" % json.dumps(res)[:300], {"suite": "console", "broken": "harness", "result": res}, False)
        return
    obs = res["out"]
    sess_coq = "[" + ";".join("(%s, %s)" % (cps(s["token"]), cps_list(s["session"]["roles"]))
                              for s in sessions if s["token"] != "tok-exp") + "]"
    hdr = HEADER + "Definition SESS : list (str * list str) := %s.\n" % sess_coq
    exprs = []
    CH = 150
    for i in range(0, len(reqs), CH):
        items = []
        for rq, meta in reqs[i:i + CH]:
            raw = meta["uri"].split("?")[0]
            items.append("(%s, %s, %s, %s)" % (opt(meta["cookie"]), opt(meta["header"]), cps(raw), cps(meta["method"])))
        exprs.append("run_reqs SESS [%s]" % ";".join(items))
    mres = [x for shard in lib.coq_eval_sharded("c17h", hdr, exprs, per=1) for x in shard]

    def observed_outcome(o):
        if o.get("rejected_by_http_layer"):
            return "rejected"
        if o.get("forwarded"):
            return 0
        if o.get("no_login") and o.get("status") == 200:
            return 1
        if o.get("status") == 302 and (o.get("location") or "").startswith("/rnacos/p/login"):
            return 2
        if o.get("no_permission") and o.get("status") == 200:
            return 3
        if o.get("status") == 302 and (o.get("location") or "").startswith("/rnacos/nopermission?path="):
            return 4
        return "other:%s" % json.dumps(o)[:200]

    def observed_dispatch(o):
        if o.get("status") == 404 and o.get("body_len") == 0:
            return 1
        if o.get("status") == 405 and o.get("body_len") == 0:
            return 2
        return 0

    dist = {}
    reached_by_cls = {}
    for (rq, meta), o, mv in zip(reqs, obs, mres):
        n_eval += 1
        m_out, (m_disp, m_handler) = mv[0], mv[1]
        o_out = observed_outcome(o)
        key = (meta["kind"].split(":")[0], meta["cls"], o_out if isinstance(o_out, int) else "x")
        dist[key] = dist.get(key, 0) + 1
        nontrivial.add(("http", meta["route"], meta["kind"], meta["cls"], meta["method"]))
        replay_obj = {"suite": "console", "case": {"k": "http", "sessions": [s for s in sessions if s["token"] == meta["used_token"]],
                                                   "reqs": [rq], "env": case["env"]},
                      "observed": o, "model": {"outcome": m_out, "dispatch": m_disp, "handler": m_handler}, "meta": meta}
        if o_out != m_out:
            mism += 1
            chk.violation("model != implementation (CheckLogin decision) %s %s token-class=%s: model=%s observed=%s"
                          % (meta["method"], meta["uri"], meta["cls"], m_out, o_out),
                          dict(replay_obj, correspondence="Auth.Console.middleware"), False)
        elif m_out == 0:
            o_disp = observed_dispatch(o)
            if o_disp != m_disp:
                mism += 1
                chk.violation("model != implementation (route table / dispatch) %s %s: model=%s(%s) observed status=%s"
                              % (meta["method"], meta["uri"], m_disp, m_handler, o.get("status")),
                              dict(replay_obj, correspondence="Gen.ConsoleTables.console_services / Auth.Route.dispatch_raw"), False)
        # ---- property oracle (on the observation only) ----
        reached = o.get("forwarded") and observed_dispatch(o) == 0
        routed = pct_decode_router(meta["uri"].split("?")[0])
        is_api = routed.startswith(API_PREFIX)
        cls = meta["cls"]
        if reached and is_api and routed in api_paths:
            reached_by_cls.setdefault((routed, meta["method"]), set()).add(cls)
            if cls in ("absent", "empty", "garbage", "expired") and routed not in LOGIN_ENDPOINTS:
                chk.classify("no-session:%s:%s" % (meta["method"], routed),
                             "API route %s %s served without a valid session (token %s, spelling %s)"
                             % (meta["method"], routed, cls, meta["uri"]), replay_obj)
            if cls in ("unknown-role", "no-roles") and routed not in LOGIN_ENDPOINTS:
                chk.classify("unknown-role:%s:%s" % (meta["method"], routed),
                             "API route %s %s served to a session without a known role" % (meta["method"], routed), replay_obj)
            if cls in ("visitor", "unknown+visitor") and meta["method"] != "GET" and routed not in (VISITOR_SELF_SERVICE | LOGIN_ENDPOINTS):
                chk.classify("visitor-mutate:%s:%s" % (routed, meta["method"]),
                             "visitor reached %s %s (spelling %s)" % (meta["method"], routed, meta["uri"]), replay_obj)
            if cls in ("developer", "visitor+developer", "visitor", "unknown+visitor") and (is_user_mgmt(routed) or is_transfer(routed)):
                chk.classify("developer-admin:%s:%s" % (routed, meta["method"]),
                             "%s reached %s %s" % (cls, meta["method"], routed), replay_obj)
    for (p, m), clss in sorted(reached_by_cls.items()):
        if ("visitor" in clss and "developer" not in clss) or ("developer" in clss and "manager" not in clss):
            chk.classify("monotone-http:%s:%s" % (p, m), "route %s %s reachable by %s but not by the higher role" % (m, p, sorted(clss)),
                         {"suite": "console", "route": p, "method": m, "classes": sorted(clss)})

    # ---- 5. a genuine login / logout life cycle ----------------------------------------------------------
    life = {"k": "http", "sessions": [], "env": case["env"], "reqs": [
        {"method": "POST", "uri": "/rnacos/api/console/v2/login/login", "headers": [["Content-Type", "application/x-www-form-urlencoded"]],
         "body": "username=admin&password=YWRtaW4=", "save_token": "adm"},
        {"method": "GET", "uri": "/rnacos/api/console/v2/user/list", "headers": [["Token", {"ref": "adm"}]]},
        {"method": "POST", "uri": "/rnacos/api/console/v2/login/login", "headers": [["Content-Type", "application/x-www-form-urlencoded"]],
         "body": "username=admin&password=d3Jvbmc=", "save_token": "bad"},
        {"method": "GET", "uri": "/rnacos/api/console/v2/user/list", "headers": [["Token", {"ref": "bad"}]]},
        {"method": "POST", "uri": "/rnacos/api/console/v2/login/logout", "headers": [["Token", {"ref": "adm"}]]},
        {"method": "GET", "uri": "/rnacos/api/console/v2/user/list", "headers": [["Token", {"ref": "adm"}]]},
    ]}
    lres = lib.harness_run("console", [life])[0]
    n_eval += 6
    if lres.get("r") != "ok":
        chk.violation("console/http life-cycle case failed", {"suite": "console", "case": life, "result": lres}, False)
    else:
        lo_ = lres["out"]
        good = (lo_[0].get("token_saved") and lo_[1].get("forwarded") and not lo_[2].get("token_saved")
                and not lo_[3].get("forwarded") and lo_[3].get("no_login") and lo_[4].get("forwarded")
                and not lo_[5].get("forwarded") and lo_[5].get("no_login"))
        if not good:
            chk.classify("login-lifecycle", "login/logout life cycle: a wrong password yields a usable session or a logged-out token is still accepted: %s"
                         % json.dumps(lo_)[:400], {"suite": "console", "case": life, "observed": lo_})

    chk.cov["evaluations"] = n_eval
    chk.cov["distinct_nontrivial"] = len(nontrivial)
    chk.cov["rule"] = ("(a) match_url_by_roles cells: %d role sets (all subsets/orders of the 3 roles, unknown/empty/padded/unicode role "
                       "strings, mixed) x %d paths (every registered route, every permission-table path, dynamic-tail samples, "
                       "spelling mutations, '', '/') x %d method strings; non-trivial = (path, method) columns on which role sets "
                       "disagree. (b) path predicates on %d strings (case/Unicode-fold substitutions at every position of each regex "
                       "word, random strings over a small alphabet); non-trivial = some predicate true. (c) %d HTTP requests through the "
                       "real CheckLogin + console_config: every registered (route, method) x 11 token classes x carriers, an "
                       "unregistered method per route, 16 spelling classes for the user-management/transfer/login routes and a seeded "
                       "sample of the others x {no token, manager, visitor}, table-only paths; non-trivial = distinct (route, kind, "
                       "token class, method). (d) one genuine login/wrong-password/logout life cycle."
                       % (len(role_sets), len(paths), len(methods), len(base), len(reqs)))
    chk.cov["samples"] = [
        {"match": {"roles": role_sets[7], "path": paths[len(paths) // 2], "methods": methods, "impl_bits": rows[7][len(paths) // 2]}},
        {"regex": base[len(base) // 3], "impl": rimpl[len(base) // 3]},
        {"http": reqs[5][0], "observed": obs[5]},
        {"http": reqs[-1][0], "observed": obs[-1]},
    ]
    chk.cov["input_distribution"] = {
        "match_cells": len(role_sets) * len(paths) * len(methods), "role_sets": len(role_sets), "paths": len(paths), "methods": len(methods),
        "regex_strings": len(base), "http_requests": len(reqs),
        "http_by_kind_class_outcome": {"%s|%s|%s" % k: v for k, v in sorted(dist.items(), key=lambda kv: str(kv[0]))},
        "registered_routes": len(routes), "api_routes": len(api_paths), "permission_entries": sum(len(v[0]) for v in perm["modules"].values()),
        "model_impl_mismatches": mism,
    }
    unjudged = sorted({pt[1] for pt, _, _ in routes if pt[0] == "prefix"} | {p for p in exact_paths if not p.startswith(API_PREFIX)})
    chk.notes["page_and_asset_routes_not_judged"] = unjudged
    chk.notes["translator"] = {"ok": translator_ok, "route_functions": info["visited"], "skipped_cfg": info["skipped"]}
    chk.notes["total_s"] = round(time.time() - t_all, 1)
    chk.cov["trusted_base"] = ["translators/console_tables.py (refuses unknown shapes; output validated bit for bit by the sweep)",
                               "actix-web router semantics as modelled in Auth/Route.v (validated by the HTTP sweep)"]
    chk.violations.sort(key=lambda v: not v[2])
    chk.assumptions += ["a session is what the cache returns for the token: expiry/logout are the cache's behaviour (exercised, not proved)",
                        "the console server is CheckLogin around console_config (checked by the translator on src/main.rs)",
                        "role strings / paths / methods are sequences of Unicode scalar values (Rust str)"]


def perm_ignore(info):
    return list(info["login"]["ignore"])


def failed_lemma(msg):
    """'File "./Auth/X.v", line N' -> the Lemma/Theorem that contains line N"""
    import re
    m = re.search(r'File "\./([^"]+)", line (\d+)', msg or "")
    if not m:
        return ""
    try:
        lines = open(os.path.join(lib.COQ, m.group(1))).read().splitlines()[:int(m.group(2))]
    except OSError:
        return ""
    for ln in reversed(lines):
        mm = re.match(r"\s*(Lemma|Theorem|Example|Definition)\s+([A-Za-z_0-9']+)", ln)
        if mm:
            return "[%s %s in %s] " % (mm.group(1), mm.group(2), m.group(1))
    return ""


def fallback_sweep(chk):
    """The translator refused: no tables.  Look for a concrete failing input anyway, with candidates scraped
    crudely from the source text (every scope x every resource literal, every R::Path literal) and the property
    oracle on the observations only."""
    import re
    cand = set()
    try:
        api = open(os.path.join(lib.REPO, "src/console/api.rs")).read() + open(os.path.join(lib.REPO, "src/web_config.rs")).read()
        perm = open(os.path.join(lib.REPO, "src/user/permission.rs")).read()
    except OSError:
        return
    scopes = set(re.findall(r'web::scope\(\s*"([^"]+)"', api)) | {""}
    ress = set(re.findall(r'web::resource\(\s*"([^"{]+)', api)) | set(re.findall(r'actix_web::[a-z]+\("([^"{]+)', api))
    for sc in scopes:
        for r in ress:
            cand.add(sc + r)
    cand |= set(re.findall(r'R::Path\(\s*"([^"]+)"', perm))
    cand = sorted(c for c in cand if c.startswith(API_PREFIX) and all(32 < ord(ch) < 127 for ch in c))
    sessions = [session_json(t, r) for t, r, _ in SESSIONS]
    reqs, metas = [], []
    for p in cand:
        for m in ("GET", "POST", "PUT", "DELETE"):
            for tok, cls in [(None, "absent"), ("nope", "garbage"), ("tok-v", "visitor"), ("tok-d", "developer"), ("tok-x", "unknown-role")]:
                if tok is not None and "/login/logout" in p:
                    continue
                reqs.append({"method": m, "uri": p, "headers": [] if tok is None else [["Token", tok]]})
                metas.append((p, m, cls))
    case = {"k": "http", "sessions": sessions, "reqs": reqs, "env": {"RNACOS_ENABLE_NO_AUTH_CONSOLE": "false"}}
    res = lib.harness_run("console", [case], timeout=1500)[0]
    if res.get("r") != "ok":
        return
    n = 0
    for rq, (p, m, cls), o in zip(reqs, metas, res["out"]):
        n += 1
        reached = o.get("forwarded") and not (o.get("status") in (404, 405) and o.get("body_len") == 0)
        if not reached:
            continue
        rp = {"suite": "console", "case": {"k": "http", "sessions": sessions, "reqs": [rq], "env": case["env"]}, "observed": o}
        if cls in ("absent", "garbage", "unknown-role") and p not in LOGIN_ENDPOINTS:
            chk.classify("no-session:%s:%s" % (m, p), "API route %s %s served without a valid session/known role (%s)" % (m, p, cls), rp)
        if cls == "visitor" and m != "GET" and p not in (VISITOR_SELF_SERVICE | LOGIN_ENDPOINTS):
            chk.classify("visitor-mutate:%s:%s" % (p, m), "visitor reached %s %s" % (m, p), rp)
        if cls in ("visitor", "developer") and (is_user_mgmt(p) or is_transfer(p)):
            chk.classify("developer-admin:%s:%s" % (p, m), "%s reached %s %s" % (cls, m, p), rp)
    chk.cov["evaluations"] = n
    chk.cov["rule"] = "translator refused: fallback sweep over path literals scraped from the source x 4 methods x 5 token classes (oracle only)"
