"""Shared pieces of the C02/C03 (and the consumer part of C20) checks: case generators for the
`logfile` / `filestore` harness suites, the Coq expressions of the same cases, canonical forms and
the model-independent property oracle."""
import json

import lib

INTERVAL = 128
DATA0 = 4096
CHUNK = 1024


def lcg_bytes(n, x):
    out = []
    for _ in range(n):
        x = (x * 1103515245 + 12345) % 2147483648
        out.append((x // 65536) % 256)
    return out


def msum(m):
    a = 7
    for b in m:
        a = (a * 31 + b) % 4294967296
    return a


def sz(v):
    n = 1
    while v > 0x7F:
        v >>= 7
        n += 1
    return n


def body_len(index, term, vlen):
    n = 0
    if index:
        n += 1 + sz(index)
    if term:
        n += 1 + sz(term)
    if vlen:
        n += 1 + sz(vlen) + vlen
    return n


def frame_len(index, term, vlen):
    b = body_len(index, term, vlen)
    return sz(b) + b


def vlen_for_frame(index, term, target):
    """value length giving an encoded record of exactly `target` bytes, or None"""
    for vlen in range(max(0, target - 40), target):
        if frame_len(index, term, vlen) == target:
            return vlen
    return None


# ------------------------------------------------------------------ logfile suite: Coq side
LF_HEADER = ("From RN Require Import Base.Res Codec.Varint Codec.BufReader Codec.Script "
             "RaftLog.LogFile RaftLog.LogScript.\nOpen Scope N_scope.\n")


def coq_lop(op):
    k = op[0]
    if k == "w":
        if op[3] > 5000:
            return "LW %d %d (N.to_nat %d) %d" % (op[1], op[2], op[3], op[4])
        return "LW %d %d %d%%nat %d" % (op[1], op[2], op[3], op[4])
    if k == "s":
        return "LS %d" % op[1]
    if k == "r":
        return "LR %d %d" % (op[1], op[2])
    if k == "o":
        return "LO" if len(op) == 1 else "LO3 %d %d %d" % (op[1], op[2], op[3])
    if k == "i":
        return "LI"
    raise ValueError(op)


def coq_logfile_case(c):
    ops = [o for o in c["ops"] if o[0] in ("w", "s", "r", "o", "i")]
    return "run_logfile %d %d %d %d [%s]" % (c.get("limit") or 4096, c["start"], c["pre_term"],
                                             c.get("split", 0), ";".join(coq_lop(o) for o in ops))


MARK = {"WSuccess": "ok", "WSuccessToEnd": "end", "WFailure": "full", "WIndexEqualError": "idx"}


def canon_lf_model(v):
    out = []
    for o in v:
        if o == "OClosed":
            out.append({"x": "closed"})
        elif o == "ORErr":
            out.append({"r": "err"})
        elif o[0] == "OW":
            out.append({"w": MARK[o[1]]})
        elif o[0] == "OS":
            out.append({"s": "ok" if o[1] == "true" else "err"})
        elif o[0] == "OO":
            out.append({"o": "ok" if o[1] == "true" else "err"})
        elif o[0] == "OR":
            out.append({"r": [[e[0], e[1], e[2][0], e[2][1]] for e in o[1]]})
        elif o[0] == "OI":
            out.append({"i": [o[1], o[2], o[3], o[4]]})
        else:
            out.append({"?": str(o)})
    return out


def canon_lf_impl(c, r):
    """outputs of the compared ops only (diag/raw/enc are diagnostics)"""
    if r.get("r") != "ok":
        return "panic"
    out = []
    for op, o in zip(c["ops"], r["out"]):
        if op[0] in ("w", "s", "r", "o", "i"):
            out.append(o)
    return out


# ------------------------------------------------------------------ property oracle (logfile level)
def oracle_logfile(c, r):
    """What C02/C03 demand of one log file, judged on the implementation's observations only.
    Returns (list of failures as (key, text), features)."""
    fails = []
    feats = set()
    if r.get("r") != "ok":
        return [("panic", "the log file code panicked")], feats
    start, pre = c["start"], c["pre_term"]
    split = max(c.get("split", 0), start)
    acked = []          # [index, term, vlen, msum]
    fresh_reopen = False  # True right after a reopen (last term must be right)
    stale_term = False    # a strip happened since the last accepted write (in-process last_term may be stale)
    just_cut = None
    closed = False
    for n, (op, o) in enumerate(zip(c["ops"], r["out"])):
        k = op[0]
        if closed:
            continue
        end = start + len(acked)
        if k == "w":
            res = o.get("w")
            if res in ("ok", "end"):
                if op[1] != end:
                    fails.append(("write-noncontiguous", "op %d: append at %d accepted, end of log is %d" % (n, op[1], end)))
                acked.append([op[1], op[2], op[3], msum(lcg_bytes(op[3], op[4]))])
                stale_term = False
                if res == "end":
                    feats.add("file-full")
            elif res == "idx":
                if op[1] == end:
                    key = "append-after-truncate-rejected" if just_cut == op[1] else "append-rejected"
                    fails.append((key, "op %d: contiguous append at %d rejected (IndexEqualError)" % (n, op[1])))
            elif res == "full":
                feats.add("file-full")
            else:
                fails.append(("write-error", "op %d: write failed: %s" % (n, o)))
            just_cut = None
            fresh_reopen = False
        elif k == "s":
            if o.get("s") == "ok":
                kk = op[1]
                if start <= kk < end:
                    del acked[kk - start:]
                    stale_term = True
                    just_cut = kk
                    feats.add("cut")
                    if (kk - start) % INTERVAL == 0:
                        feats.add("cut-on-index-boundary")
            elif op[1] >= start:
                fails.append(("truncate-error", "op %d: strip_log_to(%d) failed" % (n, op[1])))
            fresh_reopen = False
        elif k == "r":
            lo, hi = max(op[1], split), min(op[2], end)
            want = acked[lo - start:hi - start] if hi > lo else []
            if o.get("r") != want:
                got = o.get("r")
                what = "op %d: read [%d,%d) returned %s entries, expected %d" % (
                    n, op[1], op[2], len(got) if isinstance(got, list) else got, len(want))
                key = "read-after-reopen" if fresh_reopen else "read"
                if isinstance(got, list) and len(got) > len(want):
                    key = "entries-invented-or-resurrected"
                fails.append((key, what))
        elif k == "o":
            if o.get("o") != "ok":
                fails.append(("reopen-error", "op %d: reopen failed" % n))
                closed = True
                continue
            if len(op) > 1:
                start2, pre, sp = op[1], op[2], op[3]
                if start2 != start:
                    return fails, feats | {"out-of-scope:start-changed"}
                split = max(sp, start)
            fresh_reopen = True
            stale_term = False
            feats.add("reopen")
            m = len(acked) % INTERVAL
            if acked and m in (0, 1, INTERVAL - 1):
                feats.add("reopen-at-%d-mod-128" % m)
        elif k == "i":
            e, li, lt, t = o["i"]
            if e != end:
                key = "end-index-after-reopen" if fresh_reopen else "end-index"
                fails.append((key, "op %d: end index %d, expected %d" % (n, e, end)))
            want_li = end - 1 if end > 0 else 0
            if li != want_li:
                fails.append(("last-index", "op %d: last index %d, expected %d" % (n, li, want_li)))
            if not stale_term:
                want_t = acked[-1][1] if acked else pre
                if lt != want_t:
                    key = "last-term-after-reopen" if fresh_reopen else "last-term"
                    fails.append((key, "op %d: last term %d, expected %d" % (n, lt, want_t)))
    return fails, feats


def layout_features(c):
    """byte-layout classes a history exercises (computed from the inputs only)"""
    feats = set()
    off = 0       # bytes since the last index entry
    cnt = 0
    step = 0
    for op in c["ops"]:
        if op[0] == "w":
            fl = frame_len(op[1], op[2], op[3])
            off += fl
            step += fl
            cnt += 1
            if off % CHUNK == 0:
                feats.add("record-ends-on-1024-boundary")
            if cnt % INTERVAL == 0:
                feats.add("index-step-%d-byte-offset" % sz(step))
                off = 0
                step = 0
        elif op[0] == "s":
            feats.add("cut")
    return feats


# ------------------------------------------------------------------ history builder (logfile suite)
class Hist:
    """builds one `logfile` case while tracking what the log should contain"""

    def __init__(self, rng, start=None, pre=None, limit=None, split=0):
        self.rng = rng
        self.start = rng.choice([0, 1, 1, 1, 5, 129, 1000, 70000]) if start is None else start
        self.pre = rng.randrange(0, 4) if pre is None else pre
        self.limit = limit
        self.split = split
        self.ops = []
        self.lens = []          # frame length of every stored record
        self.term = max(self.pre, 1)
        self.full = False
        self.budget = 60000      # bytes of record data per case: keeps the model evaluation (vm_compute) fast
        self.written = 0

    @property
    def end(self):
        return self.start + len(self.lens)

    def since_entry(self):
        n = len(self.lens)
        return sum(self.lens[(n // INTERVAL) * INTERVAL:])

    def w(self, vlen, term=None, index=None):
        if term is None:
            if self.rng.random() < 0.1:
                self.term += 1
            term = self.term
        idx = self.end if index is None else index
        if self.written + vlen > self.budget:
            vlen = min(vlen, 3)
        self.written += vlen + 8
        self.ops.append(["w", idx, term, vlen, self.rng.randrange(1, 1 << 30)])
        if index is None and not self.full:
            self.lens.append(frame_len(idx, term, vlen))
            if self.limit and len(self.lens) % INTERVAL == 0:
                self._check_full()
        return self

    def _check_full(self):
        # index cursor after every complete block
        cur = 32
        n = len(self.lens)
        for j in range(n // INTERVAL):
            cur += sz(sum(self.lens[j * INTERVAL:(j + 1) * INTERVAL]))
        self.full = cur + 10 >= (self.limit or 4096)

    def w_frame(self, target, term=None):
        """append a record whose frame is exactly `target` bytes (if such a value length exists)"""
        t = self.term if term is None else term
        vl = vlen_for_frame(self.end, t, target)
        if vl is None:
            vl = max(0, target - 12)
        return self.w(vl, term=t)

    def w_to_boundary(self, mult=1):
        """append one record so that the bytes since the last index entry become mult*1024"""
        need = mult * CHUNK - self.since_entry()
        while need < 8:
            need += CHUNK
        return self.w_frame(need)

    def s(self, k):
        self.ops.append(["s", k])
        if self.start <= k < self.end:
            del self.lens[k - self.start:]
            if self.limit:
                self._check_full()
        return self

    def o(self):
        self.ops.append(["o"])
        return self

    def i(self):
        self.ops.append(["i"])
        return self

    def r(self, a, b):
        self.ops.append(["r", a, b])
        return self

    def check(self, around=None):
        """info + reads that cover the tail and an interesting region"""
        self.i()
        e = self.end
        self.r(max(self.start, e - 3), e + 2)
        if around is not None:
            self.r(max(self.start, around - 2), around + 3)
        return self

    def reopen_check(self, around=None):
        return self.o().check(around)

    def case(self, tag):
        c = {"start": self.start, "pre_term": self.pre, "ops": self.ops, "tag": tag}
        if self.split:
            c["split"] = self.split
        if self.limit:
            c["limit"] = self.limit
        return c


def small_vlen(rng):
    return rng.choice([0, 1, 1, 2, 3, 5, 9, 17, 40])


def gen_chunk_boundary(rng):
    """record bytes since the scan start hit an exact multiple of the 1024-byte read chunk"""
    cases = []
    for first_exact in (True, False):
        for tail in (1, 2, 3):
            h = Hist(rng)
            if first_exact:
                h.w_frame(CHUNK)
            else:
                for _ in range(rng.randrange(1, 12)):
                    h.w(rng.choice([small_vlen(rng), rng.randrange(50, 400)]))
                h.w_to_boundary(rng.choice([1, 1, 2, 3]))
            for _ in range(tail):
                h.w(small_vlen(rng))
            h.i().reopen_check()
            # once more: a second boundary, reopen, append, reopen
            h.w_to_boundary(rng.choice([1, 2])).w(small_vlen(rng)).reopen_check()
            h.w(3).reopen_check()
            cases.append(h.case("chunk-boundary-from-4096"))
    # measured from an index entry: 128 records first, then a run that ends on a multiple of 1024
    for nblocks in (1, 2):
        h = Hist(rng)
        for _ in range(nblocks * INTERVAL):
            h.w(small_vlen(rng))
        for _ in range(rng.randrange(0, 5)):
            h.w(rng.randrange(0, 300))
        h.w_to_boundary(rng.choice([1, 2])).w(small_vlen(rng)).w(small_vlen(rng))
        h.i().reopen_check(h.start + nblocks * INTERVAL)
        h.w_to_boundary(1).reopen_check()
        cases.append(h.case("chunk-boundary-from-index-entry"))
    return cases


def gen_reopen_points(rng):
    """127 / 128 / 129 (and 255..257) records between reopen points"""
    cases = []
    for n in (127, 128, 129, 255, 256, 257):
        h = Hist(rng)
        big = rng.random() < 0.5
        for _ in range(n):
            h.w(rng.randrange(100, 200) if big else small_vlen(rng))
        h.reopen_check(h.start + INTERVAL)
        for m in (127, 128, 129)[: rng.randrange(1, 4)]:
            for _ in range(m):
                h.w(small_vlen(rng))
            h.reopen_check(h.end - m)
        cases.append(h.case("reopen-at-%d" % n))
    return cases


def gen_offset_width(rng):
    """a 128-record step needing a 1-/2-/3-byte file-offset delta, truncated across and rewritten with
    another width"""
    cases = []
    for first, second in ((16383, 16384), (16384, 16383), (16384, 1300), (1300, 16500), (16383, 16383),
                          (20000, 20000)):
        h = Hist(rng, start=rng.choice([0, 1, 300]))
        for total in (first, second):
            # 127 records then one that makes the block exactly `total` bytes
            per = max(0, total // INTERVAL - 12)
            for _ in range(INTERVAL - 1):
                h.w(max(0, per + rng.randrange(-2, 3)))
            need = total - h.since_entry()
            if need >= 8:
                h.w_frame(need)
            else:
                h.w(1)
        for _ in range(rng.randrange(1, 40)):
            h.w(small_vlen(rng))
        h.reopen_check(h.start + INTERVAL)
        cut = h.start + rng.choice([INTERVAL - 28, INTERVAL, INTERVAL + 1, 60])
        h.s(cut).check(cut)
        # rewrite the removed region with the OTHER width
        other = 140 if first < 16384 else 2
        while h.end < h.start + 2 * INTERVAL + 5:
            h.w(other + rng.randrange(0, 3))
        h.check(cut).reopen_check(h.start + 2 * INTERVAL)
        cases.append(h.case("offset-width-%d-%d" % (first, second)))
    return cases


def gen_cuts(rng, n_variants=1):
    """truncation at first, 128j, 128j+-1, end-1, end; re-append shorter / equal / longer; reopen after each step"""
    cases = []
    for _ in range(n_variants):
        for n in (5, 130, 300):
            for where in ("first", "j", "j-1", "j+1", "end-1", "end", "random"):
                for mode in ("shorter", "equal", "longer"):
                    if n == 300 and mode != "equal" and rng.random() < 0.5:
                        continue
                    h = Hist(rng)
                    sizes = []
                    base = rng.choice([2, 30, 150, 200])
                    for _ in range(n):
                        v = base + rng.randrange(0, 4)
                        sizes.append(v)
                        h.w(v)
                    if rng.random() < 0.5:
                        h.reopen_check()
                    j = rng.randrange(0, n // INTERVAL + 1)
                    cut = {"first": h.start, "j": h.start + INTERVAL * j, "j-1": h.start + INTERVAL * j - 1,
                           "j+1": h.start + INTERVAL * j + 1, "end-1": h.end - 1, "end": h.end,
                           "random": h.start + rng.randrange(0, n)}[where]
                    cut = min(max(cut, h.start), h.end)
                    old_end = h.end
                    h.s(cut).check(cut)
                    if rng.random() < 0.6:
                        h.reopen_check(cut)
                    nre = rng.choice([1, 1, 2, old_end - cut, old_end - cut + 3, 140])
                    h.term += 1
                    for q in range(max(0, nre)):
                        pos = cut - h.start + q
                        old = sizes[pos] if pos < len(sizes) else base
                        v = {"shorter": max(0, old - rng.randrange(1, 3)), "equal": old,
                             "longer": old + rng.randrange(1, 40)}[mode]
                        h.w(v)
                    h.check(cut)
                    h.reopen_check(cut)
                    h.r(h.start, h.end + 5)
                    cases.append(h.case("cut-%s-%s-n%d" % (where, mode, n)))
    return cases


def gen_small_limit(rng):
    """the file-full path with a hooked small data_area_index (rollover is the manager's business:
    here the file must refuse further writes and keep everything it acknowledged)"""
    cases = []
    for limit in (43, 45, 47, 50):
        h = Hist(rng, limit=limit)
        big = rng.random() < 0.4
        n = 0
        while not h.full and n < 1200:
            h.w(rng.randrange(120, 140) if big else small_vlen(rng))
            n += 1
        h.check()
        # writes into a full file are refused, the log is unchanged
        h.ops.append(["w", h.end, h.term, 3, 7])
        h.check().reopen_check()
        h.ops.append(["w", h.end, h.term, 3, 7])
        cut = h.end - rng.choice([1, 5, INTERVAL, INTERVAL + 1])
        cut = max(cut, h.start)
        h.s(cut).check(cut)
        for _ in range(rng.randrange(1, 6)):
            h.w(small_vlen(rng))
        h.reopen_check(cut)
        cases.append(h.case("small-limit-%d" % limit))
    return cases


def gen_random(rng, n, max_ops):
    cases = []
    for _ in range(n):
        h = Hist(rng)
        style = rng.choice(["tiny", "mixed", "big", "around1024"])
        nops = rng.randrange(5, max_ops)
        for _ in range(nops):
            x = rng.random()
            if x < 0.72:
                burst = rng.choice([1, 1, 1, 5, 40, 130])
                for _ in range(burst):
                    if style == "tiny":
                        v = small_vlen(rng)
                    elif style == "big":
                        v = rng.randrange(120, 700)
                    elif style == "around1024":
                        v = rng.choice([small_vlen(rng), rng.randrange(1000, 1030), rng.randrange(2030, 2050)])
                    else:
                        v = rng.choice([small_vlen(rng), rng.randrange(0, 300), rng.randrange(1000, 1030)])
                    if rng.random() < 0.1 and h.lens:
                        h.w_to_boundary(rng.choice([1, 2]))
                    else:
                        h.w(v)
            elif x < 0.80:
                if h.end > h.start:
                    j = rng.randrange(0, (h.end - h.start) // INTERVAL + 1)
                    cut = rng.choice([h.start, h.end - 1, h.end, h.start + INTERVAL * j,
                                      h.start + INTERVAL * j + rng.choice([-1, 1]),
                                      h.start + rng.randrange(0, h.end - h.start)])
                    cut = min(max(cut, h.start), h.end + 1)
                    h.s(cut).check(cut)
            elif x < 0.88:
                h.reopen_check()
            elif x < 0.92:
                # a non-contiguous append must be refused and change nothing
                h.ops.append(["w", h.end + rng.choice([1, 2, -1]) if h.end > 0 else 7, h.term, 3, 5])
                h.check()
            else:
                a = rng.randrange(h.start, h.end + 2)
                h.r(a, a + rng.choice([1, 2, 10, 200]))
        h.reopen_check()
        h.r(h.start, h.end + 1)
        cases.append(h.case("random-" + style))
    return cases


def gen_growth(rng):
    """the file grows beyond its initial 1 MiB (set_len path of write): compared with the model without a
    reopen (the model's chunked scan over > 1 MiB is slow); the reopen variants are judged by the oracle only"""
    model_cases, impl_cases = [], []
    h = Hist(rng, start=1)
    h.budget = 1 << 30
    h.w(1050000).w(7).i().r(1, 3).r(2, 3).w(300).check()
    model_cases.append(h.case("growth-one-big-record"))
    for big in (1050000, 300000, 17000):
        h = Hist(rng, start=rng.choice([0, 1, 500]))
        h.budget = 1 << 30
        n = {1050000: 3, 300000: 9, 17000: 2 * INTERVAL + 9}[big]
        for _ in range(n):
            h.w(big + rng.randrange(0, 50))
        h.check().reopen_check(h.start + INTERVAL)
        cut = h.start + rng.choice([1, n // 2, n - 1])
        h.s(cut).check(cut).reopen_check(cut)
        for _ in range(4):
            h.w(big // 2 + rng.randrange(0, 9))
        h.reopen_check(cut)
        h.r(h.start, h.end + 1)
        impl_cases.append(h.case("growth-%d" % big))
    # the records fill the pre-sized file EXACTLY (data area 4096 .. 1 MiB = 1020 frames of 1024 bytes, not a
    # multiple of 128 records): the zero marker behind the last record only exists if write() extended the file
    for extra in (0, 1):
        h = Hist(rng, start=1, pre=1)
        h.budget = 1 << 30
        for _ in range(1020):
            h.w_frame(CHUNK, term=1)
        for _ in range(extra):
            h.w(9, term=1)
        h.check().reopen_check(h.start + 7 * INTERVAL)
        h.w(5).check()
        h.r(h.start + 1000, h.end + 1)
        impl_cases.append(h.case("fill-file-exactly+%d" % extra))
    return model_cases, impl_cases


# ====================================================================== filestore suite
ALPHA = b"abcdefghijklmnopqrstuvwxyz0123456789"
U64MAX = (1 << 64) - 1
FS_HEADER = ("From RN Require Import Base.Res Codec.Varint Codec.BufReader Codec.Script RaftLog.LogFile "
             "RaftLog.LogScript RaftLog.LogManager RaftLog.ManagerScript.\nOpen Scope N_scope.\n")


def fs_value(kind, vlen, vseed):
    if kind == "b":
        return b'"Blank"'
    key = bytes(ALPHA[b % 36] for b in lcg_bytes(vlen, vseed))
    return b'{"Normal":{"data":{"ConfigRemove":{"key":"' + key + b'"}}}}'


def fs_ptr_value(pid):
    return (b'{"SnapshotPointer":{"id":"' + str(pid).encode() +
            b'","membership":{"members":[1],"members_after_consensus":null}}}')


def dg(b):
    return [len(b), msum(b)]


def coq_vspec(kind, vlen, vseed):
    return "VBlank" if kind == "b" else "(VJ %d%%nat %d)" % (vlen, vseed)


def coq_mop(op):
    k = op[0]
    if k == "a":
        return "MA %d %d %s" % (op[1], op[2], coq_vspec(op[3], op[4], op[5]))
    if k == "b":
        return "MB [%s]" % ";".join("(%d,%d,%s)" % (e[0], e[1], coq_vspec(e[2], e[3], e[4])) for e in op[1])
    if k == "d":
        return "MD %d" % op[1]
    if k == "g":
        return "MG %d %d" % (op[1], op[2])
    if k == "l":
        return "ML"
    if k == "ptr":
        return "MPtr %d %d %d" % (op[1], op[2], op[3])
    if k == "bptr":
        return "MBPtr %d %d %d" % (op[1], op[2], op[3])
    if k == "so":
        return "MSo %d" % op[1]
    if k == "reopen":
        return "MReopen"
    raise ValueError(op)


FS_COMPARED = ("a", "b", "d", "g", "l", "ptr", "bptr", "so", "reopen")


def coq_filestore_case(c):
    ops = [o for o in c["ops"] if o[0] in FS_COMPARED]
    return "run_filestore %d [%s]" % (c.get("limit") or 4096, ";".join(coq_mop(o) for o in ops))


def canon_fs_model(v):
    out = []
    for o in v:
        if o == "ODone":
            out.append("done")
        elif o[0] == "OAck":
            out.append({"ack": o[1] == "true"})
        elif o[0] == "OEnts":
            out.append({"g": [[e[0], e[1], e[2][0], e[2][1]] for e in o[1]]})
        elif o[0] == "OLast":
            out.append({"l": [o[1], o[2]]})
    return out


def canon_fs_impl(c, r):
    if r.get("r") != "ok":
        return "panic"
    out = []
    for op, o in zip(c["ops"], r["out"]):
        k = op[0]
        if k not in FS_COMPARED:
            continue
        if k in ("a", "b", "d"):
            out.append({"ack": o.get(k) == "ok"})
        elif k == "g":
            out.append({"g": o.get("g")})
        elif k == "l":
            out.append({"l": o.get("l")})
        else:
            out.append("done" if o.get(k) == "ok" else {"err": o})
    return out


class FsHist:
    """builds one `filestore` case inside the domain the model is claimed faithful on, tracking the
    abstract log (what C02/C03 demand)"""

    def __init__(self, rng, limit=None, first=1):
        self.rng = rng
        self.limit = limit
        self.ops = []
        self.ents = []            # visible entries [index, term, len, msum] (a pointer entry first, if any)
        self.first = first        # index of the first entry ever appended
        self.ptr = None           # index of the newest installed pointer
        self.term = 1
        self.pending_bptr = None

    @property
    def end(self):
        return self.ents[-1][0] + 1 if self.ents else self.first

    def _ent(self, idx, term, kind, vlen, vseed):
        return [idx, term] + dg(fs_value(kind, vlen, vseed))

    def spec(self, idx):
        if self.rng.random() < 0.08:
            self.term += 1
        kind = "b" if self.rng.random() < 0.25 else "j"
        vlen = self.rng.choice([0, 1, 3, 8, 20, 60]) if self.rng.random() < 0.9 else self.rng.randrange(60, 400)
        return [idx, self.term, kind, vlen, self.rng.randrange(1, 1 << 30)]

    def a(self):
        e = self.spec(self.end)
        self.ops.append(["a"] + e)
        self.ents.append(self._ent(*e))
        return self

    def a_bad(self):
        e = self.spec(self.end + self.rng.choice([1, 2, 5]))
        self.ops.append(["a"] + e)
        return self

    def b(self, n):
        es = []
        for _ in range(n):
            e = self.spec(self.end)
            es.append(e)
            self.ents.append(self._ent(*e))
        self.ops.append(["b", es])
        return self

    def d(self, k):
        self.ops.append(["d", k])
        self.ents = [e for e in self.ents if e[0] < k]
        return self

    def can_cut(self):
        """cuts and new pointers stay above every pointer, also a pending (built, not yet installed) one"""
        marks = [x for x in (self.ptr, self.pending_bptr[0] if self.pending_bptr else None) if x is not None]
        lo = (max(marks) + 1) if marks else self.first
        return lo, self.end

    def ptr_at(self, p, pid, install=True):
        """pointer for index p (an index the log holds, above any earlier pointer)"""
        term = next(e[1] for e in self.ents if e[0] == p)
        if install:
            self.ops.append(["so", p + 1])
            self.ops.append(["ptr", p, term, pid])
            self._apply_ptr(p, term, pid)
        else:
            self.ops.append(["bptr", p, term, pid])
            if self.pending_bptr is not None:
                self._apply_ptr(*self.pending_bptr)
            self.pending_bptr = (p, term, pid)
        return self

    def install_ahead(self, p, term, pid):
        """InstallSnapshot on a follower whose log ends below the snapshot: delete_through = None ->
        SplitOff(u64::MAX) drops the whole local log, then the pointer starts a new one"""
        self.ops.append(["so", U64MAX])
        self.ops.append(["ptr", p, term, pid])
        self.ents = [[p, term] + dg(fs_ptr_value(pid))]
        self.ptr = p
        return self

    def _apply_ptr(self, p, term, pid):
        self.ents = [[p, term] + dg(fs_ptr_value(pid))] + [e for e in self.ents if e[0] > p]
        self.ptr = p

    def reopen(self):
        self.ops.append(["reopen"])
        self.pending_bptr = None
        return self

    def g(self, a, b):
        self.ops.append(["g", a, b])
        return self

    def check(self, around=None):
        self.ops.append(["l"])
        e = self.end
        self.g(max(0, e - 3), e + 2)
        if around is not None:
            self.g(max(0, around - 2), around + 3)
        return self

    def full(self):
        self.g(0, self.end + 5)
        self.ops.append(["cat"])
        return self

    def case(self, tag):
        c = {"ops": self.ops, "tag": tag}
        if self.limit:
            c["limit"] = self.limit
        return c


def oracle_filestore(c, r):
    """C02/C03 on the RaftStorage API: entries returned = acknowledged - removed, contiguous, last
    index/term right after a reopen, append at k accepted after delete-from k."""
    fails, feats = [], set()
    if r.get("r") != "ok":
        return [("panic", "FileStore session panicked")], feats
    ents = []         # visible entries
    first = None
    ptr = None
    pending = None
    stale = False
    after_reopen = False
    just_cut = None
    for n, (op, o) in enumerate(zip(c["ops"], r["out"])):
        k = op[0]
        end = ents[-1][0] + 1 if ents else (first if first is not None else None)
        if k in ("a", "b"):
            es = [op[1:]] if k == "a" else op[1]
            ok = o.get(k) == "ok"
            contiguous = True
            e0 = end
            for e in es:
                if e0 is not None and e[0] != e0:
                    contiguous = False
                e0 = e[0] + 1
            if ok:
                if not contiguous:
                    fails.append(("append-noncontiguous", "op %d: non-contiguous append acknowledged" % n))
                for e in es:
                    if first is None:
                        first = e[0]
                    ents.append([e[0], e[1]] + dg(fs_value(e[2], e[3], e[4])))
                if es:
                    stale = False
            elif contiguous and es:
                key = "append-after-truncate-rejected" if just_cut == es[0][0] else "append-rejected"
                fails.append((key, "op %d: contiguous append at %d rejected" % (n, es[0][0])))
            just_cut = None
            after_reopen = False
        elif k == "d":
            if o.get("d") != "ok":
                fails.append(("truncate-error", "op %d: delete_logs_from failed" % n))
            else:
                kk = op[1]
                if any(e[0] >= kk for e in ents):
                    ents = [e for e in ents if e[0] < kk]
                    stale = True
                    just_cut = kk
                    feats.add("cut")
            after_reopen = False
        elif k in ("ptr", "bptr"):
            p, term, pid = op[1], op[2], op[3]
            if k == "bptr":
                prev, pending = pending, (p, term, pid)
                if prev is None:
                    continue
                p, term, pid = prev
            ents = [[p, term] + dg(fs_ptr_value(pid))] + [e for e in ents if e[0] > p]
            ptr = p
            feats.add("pointer")
        elif k == "so":
            # compaction: entries below the split-off index are removed (the scripts always follow it
            # with the pointer of the snapshot that covers them)
            ents = [e for e in ents if e[0] >= op[1]]
        elif k == "reopen":
            after_reopen = True
            stale = False
            pending = None
            feats.add("reopen")
        elif k == "g":
            got = o.get("g")
            want = [e for e in ents if op[1] <= e[0] < op[2]]
            if got != want:
                key = "entries-after-reopen" if after_reopen else "entries"
                if isinstance(got, list) and len(got) > len(want):
                    key = "entries-invented-or-resurrected"
                fails.append((key, "op %d: get_log_entries(%d,%d) returned %s entries, expected %d" % (
                    n, op[1], op[2], len(got) if isinstance(got, list) else got, len(want))))
        elif k == "l":
            got = o.get("l")
            if ents:
                if not isinstance(got, list) or got[0] != ents[-1][0]:
                    fails.append(("last-index", "op %d: last log index %s, expected %d" % (n, got, ents[-1][0])))
                elif not stale and got[1] != ents[-1][1]:
                    key = "last-term-after-reopen" if after_reopen else "last-term"
                    fails.append((key, "op %d: last log term %s, expected %d" % (n, got, ents[-1][1])))
        elif k == "cat":
            if isinstance(o.get("cat"), list) and len(o["cat"]) > 1:
                feats.add("multi-file")
    return fails, feats


def gen_fs_pointer_shapes(rng):
    cases = []
    for install in (True, False):
        for cutwhere in ("above", "end-1", "p+1"):
            h = FsHist(rng)
            h.b(rng.randrange(6, 14)).check()
            p = rng.randrange(h.first + 1, h.end - 2)
            if install:
                h.ptr_at(p, rng.randrange(1, 99))
            else:
                h.ptr_at(p - 1 if p > h.first + 1 else p, 3, install=False)
                h.a().a()
                h.ptr_at(p + 1 if p + 1 < h.end - 1 else p, 4, install=False)
            h.check().full()
            lo, e = h.can_cut()
            if e - lo >= 1:
                cut = {"above": rng.randrange(lo, e), "end-1": e - 1, "p+1": lo}[cutwhere]
                cut = max(lo, min(cut, e))
                h.d(cut).check(cut)
                if rng.random() < 0.5:
                    h.reopen().check(cut)
                h.a().check(cut)
            for _ in range(rng.randrange(0, 4)):
                h.a()
            h.reopen().check().full()
            h.a().check()
            cases.append(h.case("pointer-%s-%s" % ("install" if install else "build", cutwhere)))
    # the pointer is the last entry, then reopen (last term must be the pointer's term: defect 8c)
    h = FsHist(rng)
    h.b(5)
    h.term += 2
    h.b(5).check()
    h.ptr_at(h.end - 1, 7).check().reopen().check().full().a().check().reopen().check()
    cases.append(h.case("pointer-at-last-entry"))
    # an installed snapshot ahead of the local log (lead's repair b4420c3): the log restarts at the pointer
    for reopen_first in (False, True):
        h = FsHist(rng)
        h.b(rng.randrange(3, 12)).check()
        h.install_ahead(h.end + rng.randrange(0, 30), h.term + 1, rng.randrange(1, 99))
        h.term += 1
        h.check().full()
        if reopen_first:
            h.reopen().check().full()
        h.a().a().check().b(3).check().reopen().check().full()
        lo, e = h.can_cut()
        h.d(e - 1).check().a().check()
        cases.append(h.case("pointer-install-ahead"))
    return cases


def gen_fs_rollover(rng, tier):
    """catalogues with several files through the hooked small limit: appends and batches across the
    rollover, a batch ending exactly on it (defect 8a), cuts in closed files (defect 7)"""
    cases = []
    for limit, per_file in ((43, 128), (45, 256), (47, 384)):
        for variant in range(2 if tier == "quick" else 6):
            h = FsHist(rng, limit=limit)
            # a batch that ends exactly on the record that fills the file
            if variant == 0:
                h.b(per_file).check().a().check().full()
            else:
                h.b(rng.randrange(1, per_file - 1))
                while h.end - h.first < per_file + rng.randrange(1, 40):
                    if rng.random() < 0.5:
                        h.a()
                    else:
                        h.b(rng.randrange(1, 60))
                h.check().full()
            if rng.random() < 0.5:
                h.reopen().check().full()
            # cut into the closed file
            lo, e = h.can_cut()
            cut = rng.choice([h.first + per_file - 1, h.first + per_file, h.first + per_file // 2,
                              h.first + 1, h.first + INTERVAL, e - 1])
            cut = max(lo, min(cut, e))
            h.d(cut).check(cut).full()
            if rng.random() < 0.6:
                h.reopen().check(cut).full()
            h.a().check(cut)
            # refill until the file rolls over again (the new file gets a re-used id)
            while h.end - h.first < per_file + 5:
                h.b(rng.randrange(1, 80))
            h.check().full().reopen().check().full()
            h.a().check()
            cases.append(h.case("rollover-limit%d-v%d" % (limit, variant)))
        # a snapshot pointer raises the split-off point of the OPEN file, the file is then closed by the
        # rollover, later files follow; cuts into the TOP part of that closed file (its end index must be
        # start + number of records written, whatever was split off below)
        for where in ("end-1", "top", "top-edge") if tier == "quick" else ("end-1", "top", "top-edge", "top", "top"):
            for install in (True, False):
                h = FsHist(rng, limit=limit)
                h.b(rng.randrange(per_file // 2, per_file - 20)).check()
                p = rng.randrange(h.first + per_file // 4, h.end - 2)
                h.ptr_at(p, rng.randrange(1, 99), install=install)
                h.check()
                end_f = h.first + per_file             # first index of the second file
                while h.end < end_f + rng.randrange(3, 60):
                    h.b(rng.randrange(1, 50))
                h.check().full()
                if rng.random() < 0.4:
                    h.reopen().check().full()
                off = p - h.first                      # records split off below the pointer
                cut = {"end-1": end_f - 1, "top": rng.randrange(end_f - off, end_f), "top-edge": end_f - off}[where]
                lo, e = h.can_cut()
                cut = max(lo, min(cut, e))
                h.d(cut).check(cut).full()
                if rng.random() < 0.5:
                    h.reopen().check(cut).full()
                h.a().check(cut).b(rng.randrange(1, 30)).check()
                h.full().reopen().check().full()
                cases.append(h.case("rollover-after-pointer-limit%d-%s-%s" % (limit, where, "install" if install else "build")))
    return cases


def gen_fs_random(rng, n, max_ops):
    cases = []
    for _ in range(n):
        limit = rng.choice([None, None, 43, 47])
        h = FsHist(rng, limit=limit, first=rng.choice([1, 1, 1, 2]))
        # one pointer style per history: a pending BuildSnapshotPointerLog that is overtaken by an
        # InstallSnapshotPointerLog would later install a pointer BELOW the newest one (out of scope)
        install = rng.random() < 0.6
        h.b(rng.randrange(1, 6))
        for _ in range(rng.randrange(4, max_ops)):
            x = rng.random()
            if x < 0.35:
                h.a()
            elif x < 0.60:
                h.b(rng.choice([0, 1, 2, 5, 30, 130]))
            elif x < 0.70:
                lo, e = h.can_cut()
                if e > lo:
                    cut = rng.choice([lo, e - 1, e, rng.randrange(lo, e + 1)])
                    h.d(cut).check(cut)
            elif x < 0.78:
                h.reopen().check()
            elif x < 0.84:
                lo, e = h.can_cut()
                if e - 1 > lo:
                    h.ptr_at(rng.randrange(lo, e - 1), rng.randrange(1, 500), install=install)
                    h.check()
            elif x < 0.88:
                h.a_bad().check()
            else:
                a = rng.randrange(0, h.end + 2)
                h.g(a, a + rng.choice([1, 3, 50, 1000]))
        h.check().full().reopen().check().full()
        cases.append(h.case("random-fs"))
    return cases


# ====================================================================== shared check driver
NONTRIVIAL_LF = {"record-ends-on-1024-boundary", "cut-on-index-boundary", "file-full", "reopen-at-0-mod-128",
                 "index-step-3-byte-offset", "index-step-2-byte-offset", "cut"}


def run_logfile_part(chk, cases, impl_only_cases, name, per=8):
    """harness `logfile` on all cases; oracle on all; model comparison on `cases`.
    Returns (evaluations, nontrivial set, mismatches, distribution)."""
    import time
    t0 = time.time()
    impl = lib.harness_run_parallel("logfile", cases + impl_only_cases)
    chk.notes[name + "_impl_s"] = round(time.time() - t0, 1)
    t0 = time.time()
    n_eval, nontrivial, dist = 0, set(), {}
    for c, r in zip(cases + impl_only_cases, impl):
        n_eval += 1
        fails, feats = oracle_logfile(c, r)
        feats |= layout_features(c)
        g = c["tag"].split("-")[0]
        dist[g] = dist.get(g, 0) + 1
        if feats & NONTRIVIAL_LF:
            nontrivial.add((c["tag"], tuple(sorted(feats))))
        for key, what in fails:
            chk.classify("logfile:" + key, "log file: " + what + " [case %s]" % c["tag"],
                         {"suite": "logfile", "case": c, "impl": r, "oracle": what})
    mism = 0
    try:
        vals = lib.coq_eval_sharded(name, LF_HEADER, [coq_logfile_case(c) for c in cases], per=per, timeout=1500)
    except RuntimeError as ex:
        chk.violation("model evaluation failed: %s" % str(ex)[:300],
                      {"broken": "model evaluation", "log": str(ex)[-3000:]}, False)
        vals = None
    chk.notes[name + "_model_s"] = round(time.time() - t0, 1)
    if vals is not None:
        for c, r, v in zip(cases, impl, vals):
            m, ri = canon_lf_model(v), canon_lf_impl(c, r)
            if m != ri:
                mism += 1
                fails, _ = oracle_logfile(c, r)
                chk.violation("model != implementation (LogInnerManager, case %s): %s" % (c["tag"], lib.diff_first(m, ri)),
                              {"suite": "logfile", "case": c, "model": m, "impl": ri,
                               "correspondence": "RaftLog.LogFile", "oracle_failures": fails}, bool(fails))
    return n_eval, nontrivial, mism, dist


def run_filestore_part(chk, cases, name, per=4):
    import time
    t0 = time.time()
    impl = lib.harness_run_parallel("filestore", cases, timeout=1800)
    chk.notes[name + "_impl_s"] = round(time.time() - t0, 1)
    t0 = time.time()
    n_eval, nontrivial, dist = 0, set(), {}
    for c, r in zip(cases, impl):
        n_eval += 1
        fails, feats = oracle_filestore(c, r)
        g = c["tag"].split("-")[0]
        dist[g] = dist.get(g, 0) + 1
        if feats & {"multi-file", "pointer", "cut"}:
            nontrivial.add((c["tag"], tuple(sorted(feats)), len(c["ops"])))
        for key, what in fails:
            chk.classify("filestore:" + key, "FileStore: " + what + " [case %s]" % c["tag"],
                         {"suite": "filestore", "case": c, "impl": r, "oracle": what})
    mism = 0
    try:
        vals = lib.coq_eval_sharded(name, FS_HEADER, [coq_filestore_case(c) for c in cases], per=per, timeout=1500)
    except RuntimeError as ex:
        chk.violation("model evaluation failed: %s" % str(ex)[:300],
                      {"broken": "model evaluation", "log": str(ex)[-3000:]}, False)
        vals = None
    chk.notes[name + "_model_s"] = round(time.time() - t0, 1)
    if vals is not None:
        for c, r, v in zip(cases, impl, vals):
            m, ri = canon_fs_model(v), canon_fs_impl(c, r)
            if m != ri:
                mism += 1
                fails, _ = oracle_filestore(c, r)
                chk.violation("model != implementation (RaftLogManager/FileStore, case %s): %s" % (c["tag"], lib.diff_first(m, ri)),
                              {"suite": "filestore", "case": c, "model": m, "impl": ri,
                               "correspondence": "RaftLog.LogManager", "oracle_failures": fails}, bool(fails))
    return n_eval, nontrivial, mism, dist


def known_finding_cases():
    """the recorded, unrepaired finding classes: each is replayed so that the check reports it"""
    # (index 0, term 0, empty value) encodes to the single byte 0 = the end marker: acknowledged, lost on reopen
    return [{"start": 0, "pre_term": 0, "tag": "known-empty-record",
             "ops": [["w", 0, 0, 0, 1], ["i"], ["o"], ["i"], ["r", 0, 5]]}]


def short_case(c):
    return {k: (v if k != "ops" else v[:10] + (["..."] if len(v) > 10 else [])) for k, v in c.items()}
