"""C20 — length-prefixed record streams decode identically under every chunking."""
import itertools
import json

import lib
from checks import raftlog_common as rc

TARGETS = ["Props/C20.v", "Codec/Script.v", "RaftLog/LogScript.v"]

MANIFEST = dict(
    text="Theorems over ALL u64 values / all byte strings for the varint writer, reader and size function "
         "(round trip at any offset, size agreement, canonical form, unrolled reader = LEB128 loop), about a "
         "literal Gallina transcription of protobuf_utils.rs; model tied to the code by a differential "
         "correspondence run (real write_varint64/read_varint64_offset/inner_sizeof_varint/MessageBufReader/"
         "FileMessageReader vs the model evaluated by vm_compute) plus an independent property oracle. "
         "Consumer level: scan_stops_at_first_zero / scan_stops_at_count (Codec/ScanProofs.v: the repaired "
         "end-of-log scan counts every record for EVERY chunking; refuted for the old is_empty test) and real log "
         "files whose frames end exactly on 1024-byte chunk boundaries, reopened through LogInnerManager.",
    note="Trusted: Coq kernel+vm_compute, the hand transcription (checked by the correspondence on seeded cases), "
         "harness and runner glue. Disk read errors and record lengths >= 2^63 are out of the model.",
    technique="Rocq proof (induction, bit-vector lemmas) + model/implementation correspondence",
    design="3/C20",
)
U64 = 1 << 64


def lcg_bytes(n, x):
    out = []
    for _ in range(n):
        x = (x * 1103515245 + 12345) % 2147483648
        out.append((x // 65536) % 256)
    return out


def leb(v):
    out = []
    while v > 0x7F:
        out.append((v & 0x7F) | 0x80)
        v >>= 7
    out.append(v)
    return out


def sizeof(v):
    n = 1
    while v > 0x7F:
        v >>= 7
        n += 1
    return n


def msum(m):
    a = 7
    for b in m:
        a = (a * 31 + b) % 4294967296
    return a


def digest(m):
    return [len(m), msum(m)]


def frame(body):
    return leb(len(body)) + body


# ---------------------------------------------------------------- generators
def gen_varints(rng, n_random):
    vals = set()
    for k in range(0, 65):
        for d in (-1, 0, 1):
            v = (1 << k) + d
            if 0 <= v < U64:
                vals.add(v)
    for k in range(1, 10):
        for d in (-1, 0, 1):
            vals.add((1 << (7 * k)) + d)
    vals.add(U64 - 1)
    while len(vals) < 220 + n_random:
        vals.add(rng.getrandbits(rng.choice([7, 8, 14, 15, 21, 28, 35, 42, 49, 56, 63, 64])))
    cases = []
    for v in sorted(vals):
        rest = [rng.randrange(256) for _ in range(rng.choice([0, 0, 1, 3, 11]))]
        cases.append({"k": "varint", "v": v, "rest": rest})
    return cases


def gen_dec(rng, n):
    cases = []
    for _ in range(n):
        kind = rng.randrange(5)
        if kind == 0:      # all continuation bytes (error after 10)
            bs = [rng.randrange(128, 256) for _ in range(rng.randrange(0, 14))]
        elif kind == 1:    # valid varint then junk
            bs = leb(rng.getrandbits(rng.choice([7, 14, 35, 63, 64]))) + [rng.randrange(256) for _ in range(3)]
        elif kind == 2:    # 10 bytes with a large 10th byte (silent truncation)
            bs = [rng.randrange(128, 256) for _ in range(9)] + [rng.randrange(0, 128)] + [rng.randrange(256)]
        else:
            bs = [rng.randrange(256) for _ in range(rng.randrange(0, 16))]
        off = rng.randrange(0, 4) if bs else 0
        cases.append({"k": "dec", "bytes": bs, "off": off})
    return cases


NASTY_LENS = [1, 2, 126, 127, 128, 129, 1017, 1018, 1021, 1022, 1023, 1024, 1025, 2046, 2047, 3000]


def chunkings_for(rng, total, boundaries, tier):
    """a list of chunk-length lists covering the stream (total bytes)"""
    outs = []
    outs.append([total])
    # the chunking the code really uses: 1024-byte reads
    outs.append([1024] * (total // 1024) + ([total % 1024] if total % 1024 else []))
    # cut at every frame boundary
    cuts = sorted(set(b for b in boundaries if 0 < b < total))
    outs.append([b - a for a, b in zip([0] + cuts, cuts + [total])])
    # cut one byte after / before every frame boundary (splits varints)
    for d in (1, -1):
        c2 = sorted(set(b + d for b in cuts if 0 < b + d < total))
        outs.append([b - a for a, b in zip([0] + c2, c2 + [total])])
    for _ in range(3 if tier == "quick" else 8):
        k = rng.randrange(1, 8)
        c3 = sorted(set(rng.randrange(1, total) for _ in range(k))) if total > 1 else []
        outs.append([b - a for a, b in zip([0] + c3, c3 + [total])])
    # single-byte chunks for short streams
    if total <= 64:
        outs.append([1] * total)
    return [o for o in outs if o and all(x > 0 for x in o)]


def gen_streams(rng, n, tier):
    """well-formed streams: list of dict(recs=[(len,seed)], pad=[...], lens=[chunk lens])"""
    cases = []
    for i in range(n):
        nrec = rng.randrange(1, 6)
        recs = []
        budget = 4200
        for _ in range(nrec):
            if rng.random() < 0.55:
                ln = rng.choice(NASTY_LENS)
            else:
                ln = rng.randrange(1, 300)
            if ln > budget:
                ln = max(1, budget // 2)
            budget -= ln
            recs.append((ln, rng.randrange(1, 1 << 30)))
            if budget <= 8:
                break
        # make the total hit a multiple of 1024 now and then (record ends on a chunk boundary)
        pad = [0] * rng.choice([0, 1, 2, 5])
        if rng.random() < 0.3:
            pad = pad + [rng.randrange(256) for _ in range(rng.randrange(0, 4))] if pad else pad
        frames = [frame(lcg_bytes(l, x)) for l, x in recs]
        total = sum(len(f) for f in frames) + len(pad)
        bounds = list(itertools.accumulate(len(f) for f in frames))
        for lens in chunkings_for(rng, total, bounds, tier):
            cases.append({"recs": recs, "pad": pad, "lens": lens})
    return cases


def exact_1024_streams():
    """first record framed to exactly 1024 bytes (body 1022 + 2-byte prefix), then more"""
    out = []
    for tail in ([], [(5, 11)], [(5, 11), (300, 12)], [(1022, 13), (7, 14)]):
        recs = [(1022, 3)] + tail
        out.append(recs)
    out.append([(1017, 5), (3, 6)])   # 1019 + 5 = 1024 after two frames
    return out


def stream_bytes(recs, pad):
    s = []
    for l, x in recs:
        s += frame(lcg_bytes(l, x))
    return s + list(pad)


def small_exhaustive(rng, tier):
    """all chunkings of short streams"""
    cases = []
    shapes = [[(1, 1), (2, 2), (1, 3)], [(3, 4)], [(1, 5), (1, 6), (1, 7), (1, 8)]]
    if tier == "thorough":
        shapes.append([(2, 9), (3, 10), (2, 11), (1, 12)])
    for recs in shapes:
        for pad in ([], [0], [0, 9]):
            total = sum(len(frame(lcg_bytes(l, x))) for l, x in recs) + len(pad)
            for mask in range(1 << (total - 1)):
                cuts = [i + 1 for i in range(total - 1) if mask >> i & 1]
                lens = [b - a for a, b in zip([0] + cuts, cuts + [total])]
                cases.append({"recs": recs, "pad": pad, "lens": lens})
    return cases


def gen_garbage_ops(rng, n):
    """step-level scripts over arbitrary bytes (malformed streams, zero markers, stale bytes)"""
    cases = []
    for _ in range(n):
        ops = []
        for _ in range(rng.randrange(1, 7)):
            kind = rng.randrange(4)
            if kind == 0:
                c = frame([rng.randrange(256) for _ in range(rng.randrange(1, 40))])
            elif kind == 1:
                c = [rng.randrange(256) for _ in range(rng.randrange(1, 30))]
            elif kind == 2:
                c = [0] * rng.randrange(1, 4)
            else:
                f = frame([rng.randrange(1, 256) for _ in range(rng.randrange(1, 60))])
                c = f[:rng.randrange(1, len(f) + 1)]
            ops.append(["a", c])
            for _ in range(rng.randrange(0, 4)):
                ops.append([rng.choice(["n", "n", "e"])])
        case = {"k": "buf", "ops": ops}
        if rng.random() < 0.3:
            # the single-piece constructor (TransferReader: a whole backup file in memory): the reader starts on a
            # buffer that already holds every record, behind a skipped prefix of [start] bytes
            recs = [[rng.randrange(256) for _ in range(rng.randrange(1, 50))] for _ in range(rng.randrange(1, 5))]
            start = rng.choice([0, 0, 1, 5, 12])
            buf = [rng.randrange(256) for _ in range(start)] + [b for r_ in recs for b in frame(r_)]
            if rng.random() < 0.3:
                buf += [0] * rng.randrange(1, 4)
            case["init"] = {"buf": buf, "start": start}
            case["init_records"] = recs
            case["ops"] = [[rng.choice(["n", "d", "e"])] for _ in range(rng.randrange(1, 4))] + [["d"]] + ops
        cases.append(case)
    return cases


def gen_file_cases(rng, n):
    cases = []
    for _ in range(n):
        recs = [(rng.choice([1, 2, 5, 127, 128, 200, 300]), rng.randrange(1, 1 << 30)) for _ in range(rng.randrange(0, 6))]
        pre = [rng.randrange(256) for _ in range(rng.choice([0, 8, 8, 3]))]
        pad = [0] * rng.choice([0, 1, 12]) + ([rng.randrange(256) for _ in range(4)] if rng.random() < 0.3 else [])
        data = pre + stream_bytes(recs, pad)
        ops = []
        for _ in range(rng.randrange(1, 8)):
            k = rng.randrange(3)
            ops.append(["next"] if k == 0 else ["pos"] if k == 1 else ["idx", rng.randrange(0, 4)])
        cases.append({"k": "file", "data": data, "start": len(pre), "ops": ops,
                      "recs": recs, "pad": pad, "garbage_after_records": bool(pad and pad[0] != 0)})
    return cases


def file_oracle(c):
    """what the property demands of FileMessageReader on a well-formed stream: the k-th record
    at the sum of the preceding frame lengths; reading ends (error) at the first zero length or
    at end of file; scripts stop at the first error.  None = not judged (garbage tail)."""
    if c["garbage_after_records"]:
        return None
    frames = [frame(lcg_bytes(l, x)) for l, x in c["recs"]]
    pos = c["start"]
    i = 0
    out = []
    for op in c["ops"]:
        if op[0] == "next":
            if i >= len(frames):
                out.append("err")
                break
            out.append({"m": digest(frames[i])})
            pos += len(frames[i]); i += 1
        elif op[0] == "pos":
            if i >= len(frames):
                out.append("err")
                break
            out.append({"p": pos, "l": len(frames[i])})
            pos += len(frames[i]); i += 1
        else:
            k = op[1]
            if i + k >= len(frames):
                out.append("err")
                break
            for _ in range(k):
                pos += len(frames[i]); i += 1
            out.append({"p": pos, "l": len(frames[i])})
            pos += len(frames[i]); i += 1
    return out


# ---------------------------------------------------------------- model expressions
def coq_recs(recs):
    return "[" + ";".join("(%d%%nat,%d%%N)" % (l, x) for l, x in recs) + "]"


def coq_nats(xs):
    return "[" + ";".join(str(x) for x in xs) + "]%nat"


def coq_ops(ops):
    out = []
    for op in ops:
        if op[0] == "a":
            out.append("OpA " + lib.coq_list(op[1]))
        elif op[0] == "n":
            out.append("OpN")
        elif op[0] == "d":
            out.append("OpD")
        elif op[0] == "e":
            out.append("OpE")
    return "[" + ";".join(out) + "]"


def coq_fops(ops):
    return "[" + ";".join("FNext" if o[0] == "next" else "FPos" if o[0] == "pos" else "FIdx %d" % o[1] for o in ops) + "]"


HEADER = "From RN Require Import Base.Res Codec.Varint Codec.BufReader Codec.Script.\nOpen Scope N_scope.\n"


# ---------------------------------------------------------------- canonical forms
def canon_res(v):
    if isinstance(v, tuple) and v[0] == "Ok":
        return {"r": "ok", "v": v[1]}
    return {"r": "err" if v == "Err" else "panic"}


def canon_bout_model(v):
    out = []
    for o in v:
        if o == "OA":
            out.append("a")
        elif o == "ONone":
            out.append("none")
        elif o == "OPanic":
            return "panic"
        elif o == "OLoop":
            return "loop"
        elif o[0] == "OMsg":
            out.append({"m": list(o[1])})
        elif o[0] == "ODrain":
            out.append({"d": [list(x) for x in o[1]]})
        elif o[0] == "OEmpty":
            out.append({"e": o[1] == "true"})
    return out


def canon_bout_impl(r):
    if r.get("r") != "ok":
        return "panic"
    out = []
    for o in r["out"]:
        if isinstance(o, dict) and "m" in o:
            out.append({"m": digest(o["m"])})
        elif isinstance(o, dict) and "d" in o:
            out.append({"d": [digest(m) for m in o["d"]]})
        else:
            out.append(o)
    return out


def canon_fout_model(v):
    out = []
    for o in v:
        if o == "FErr":
            out.append("err")
        elif o == "FPanic":
            out.append("panic")
        elif o[0] == "FMsg":
            out.append({"m": list(o[1])})
        elif o[0] == "FP":
            out.append({"p": o[1], "l": o[2]})
    return out


def canon_fout_impl(r):
    out = []
    for o in r["out"]:
        if o == "err":
            out.append("err")
            break
        if "m" in o:
            out.append({"m": digest(o["m"])})
        else:
            out.append({"p": o["p"], "l": o["l"]})
    return out


# ---------------------------------------------------------------- the check
def run(chk, replay=None):
    tier = chk.tier
    rng = chk.rng
    proofs_ok = chk.proofs(TARGETS)
    if proofs_ok and tier == "thorough":
        chk.coqchk()
    ok, out = lib.harness_build()
    if not ok:
        chk.violation("harness does not build against /repo", {"broken": "harness build", "log": out[-3000:]}, False)
        return
    if replay:
        rp = json.load(open(replay))["replay"]
        corpus = [rp] if isinstance(rp, dict) and "case" not in rp else [rp.get("case")]
    nrand = 1500 if tier == "quick" else 20000
    var_cases = gen_varints(rng, nrand)
    dec_cases = gen_dec(rng, 400 if tier == "quick" else 4000)
    stream_cases = ([{"recs": r, "pad": p, "lens": l}
                     for r in exact_1024_streams() for p in ([], [0, 0])
                     for l in chunkings_for(rng, len(stream_bytes(r, p)), [], tier)]
                    + small_exhaustive(rng, tier)
                    + gen_streams(rng, 60 if tier == "quick" else 600, tier))
    garb_cases = gen_garbage_ops(rng, 300 if tier == "quick" else 3000)
    file_cases = gen_file_cases(rng, 200 if tier == "quick" else 2000)

    # ---- implementation
    impl_var = lib.harness_run_parallel("codec", var_cases, timeout=180)
    impl_dec = lib.harness_run_parallel("codec", dec_cases, timeout=180)
    buf_cases = []
    for c in stream_cases:
        s = stream_bytes(c["recs"], c["pad"])
        ops, off = [], 0
        for l in c["lens"]:
            ops += [["a", s[off:off + l]], ["d"], ["e"]]
            off += l
        buf_cases.append({"k": "buf", "ops": ops})
    impl_buf = lib.harness_run_parallel("codec", buf_cases, timeout=180)
    impl_garb = lib.harness_run_parallel("codec", garb_cases, timeout=180)
    impl_file = lib.harness_run_parallel("codec", file_cases, timeout=180)

    # ---- property oracle on the implementation (independent of the model)
    n_eval = 0
    nontrivial = set()
    for c, r in zip(var_cases, impl_var):
        n_eval += 1
        v = c["v"]
        good = (r["enc"] == leb(v) and r["size"] == len(r["enc"]) and r["dec"] == {"r": "ok", "v": v})
        if v > 127:
            nontrivial.add(("varint", sizeof(v), v % 3))
        if not good:
            chk.classify("varint:%d" % v, "varint writer/reader/size disagree for v=%d: %s" % (v, r),
                         {"suite": "codec", "case": c, "impl": r})
    for c, r in zip(stream_cases, impl_buf):
        n_eval += 1
        frames = [frame(lcg_bytes(l, x)) for l, x in c["recs"]]
        want = [digest(f) for f in frames]
        got = []
        if r.get("r") == "ok":
            for o in r["out"]:
                if isinstance(o, dict) and "d" in o:
                    got += [digest(m) for m in o["d"]]
        else:
            got = "panic"
        if len(c["lens"]) > 1:
            nontrivial.add(("chunk", tuple(l for l, _ in c["recs"]), tuple(c["lens"])))
        if got != want:
            chk.classify("chunking", "records decoded under chunking %s differ from the written ones" % c["lens"][:8],
                         {"suite": "codec", "case": c, "want": want, "got": got})

    # the single-piece constructor: every record of the buffer comes out, in order, before anything appended later
    for c, r in zip(garb_cases, impl_garb):
        if not c.get("init"):
            continue
        n_eval += 1
        want = [frame(x) for x in c["init_records"]]
        got = []
        if r.get("r") == "ok":
            for o in r["out"]:
                if isinstance(o, dict) and "d" in o:
                    got += o["d"]
                elif isinstance(o, dict) and "m" in o:
                    got.append(o["m"])
        if got[:len(want)] != want:
            chk.classify("with-data", "a reader built from a whole buffer (new_with_data, %d records behind %d skipped bytes) returns %s"
                         % (len(want), c["init"]["start"], "no record at all" if not got else "other records than the written ones"),
                         {"suite": "codec", "case": {k: c[k] for k in ("k", "ops", "init")}, "want": want[:3], "got": got[:3]})
    for c, r in zip(file_cases, impl_file):
        want = file_oracle(c)
        if want is not None and canon_fout_impl(r) != want:
            chk.classify("file-reader", "FileMessageReader does not return the written records/positions: %s"
                         % lib.diff_first(want, canon_fout_impl(r)),
                         {"suite": "codec", "case": {k: c[k] for k in ("k", "data", "start", "ops")}, "want": want, "got": canon_fout_impl(r)})

    # ---- model
    try:
        exprs = (["(write_varint %d, N.of_nat (sizeof_varint %d), read_varint (write_varint %d ++ %s) 0)"
                  % (c["v"], c["v"], c["v"], lib.coq_list(c["rest"])) for c in var_cases]
                 + ["read_varint %s %d%%nat" % (lib.coq_list(c["bytes"]), c["off"]) for c in dec_cases]
                 + ["run_chunks (mk_stream %s %s) %s" % (coq_recs(c["recs"]), lib.coq_list(c["pad"]), coq_nats(c["lens"]))
                    for c in stream_cases]
                 + [("run_with_data %s %d%%nat %s" % (lib.coq_list(c["init"]["buf"]), c["init"]["start"], coq_ops(c["ops"])))
                    if c.get("init") else "run_ops mbr_new %s" % coq_ops(c["ops"]) for c in garb_cases]
                 + ["run_file %s %d%%nat %s" % (lib.coq_list(c["data"]), c["start"], coq_fops(c["ops"])) for c in file_cases])
        vals = lib.coq_eval_sharded("c20", HEADER, exprs, per=120 if tier == "quick" else 400)
    except RuntimeError as ex:
        chk.violation("model evaluation failed: %s" % str(ex)[:300], {"broken": "model evaluation", "log": str(ex)[-3000:]}, False)
        vals = None

    mism = 0
    if vals is not None:
        i = 0
        for c, r in zip(var_cases, impl_var):
            m = vals[i]; i += 1
            mm = {"enc": list(m[0]), "size": m[1], "dec": canon_res(m[2])}
            if mm != r:
                mism += 1
                chk.violation("model != implementation (varint %d): %s" % (c["v"], lib.diff_first(mm, r)),
                              {"suite": "codec", "case": c, "model": mm, "impl": r, "correspondence": "Codec.Varint"}, False)
        for c, r in zip(dec_cases, impl_dec):
            m = canon_res(vals[i]); i += 1
            n_eval += 1
            nontrivial.add(("dec", len(c["bytes"]), r["r"]))
            if m != r:
                mism += 1
                chk.violation("model != implementation (read_varint): %s" % lib.diff_first(m, r),
                              {"suite": "codec", "case": c, "model": m, "impl": r, "correspondence": "Codec.Varint.read_varint"}, False)
        for c, r in zip(stream_cases, impl_buf):
            m = canon_bout_model(vals[i]); i += 1
            ri = canon_bout_impl(r)
            if m != ri:
                mism += 1
                chk.violation("model != implementation (MessageBufReader chunks): %s" % lib.diff_first(m, ri),
                              {"suite": "codec", "case": c, "model": m, "impl": ri, "correspondence": "Codec.BufReader"}, False)
        for c, r in zip(garb_cases, impl_garb):
            m = canon_bout_model(vals[i]); i += 1
            ri = canon_bout_impl(r)
            n_eval += 1
            nontrivial.add(("garb", json.dumps(c["ops"])[:200]))
            if m != ri:
                mism += 1
                chk.violation("model != implementation (MessageBufReader steps): %s" % lib.diff_first(m, ri),
                              {"suite": "codec", "case": c, "model": m, "impl": ri, "correspondence": "Codec.BufReader"}, False)
        for c, r in zip(file_cases, impl_file):
            m = canon_fout_model(vals[i]); i += 1
            ri = canon_fout_impl(r)
            n_eval += 1
            nontrivial.add(("file", len(c["data"]), json.dumps(c["ops"])))
            if m != ri:
                mism += 1
                chk.violation("model != implementation (FileMessageReader): %s" % lib.diff_first(m, ri),
                              {"suite": "codec", "case": c, "model": m, "impl": ri, "correspondence": "Codec.BufReader.fmr"}, False)

    # ---- consumer level: the end-of-log scan of real log files (harness suite `logfile`): frames that end
    # exactly on 1024-byte read-chunk boundaries, measured from offset 4096 and from an index entry; a reopen
    # must count all records (defect 1 = `consumer:logfile:end-index-after-reopen`)
    cons_cases = rc.gen_chunk_boundary(rng) + rc.gen_reopen_points(rng)[:3]
    n_c, nt_c, mm_c, _ = rc.run_logfile_part(chk, cons_cases, [], "c20lf")
    n_eval += n_c
    nontrivial |= {("consumer",) + x for x in nt_c}
    mism += mm_c

    if not proofs_ok:
        chk.violation("proof obligations of C20 no longer check: %s" % chk.proof_failure[:300],
                      {"broken": "theorem", "detail": chk.proof_failure}, False)

    chk.cov["evaluations"] = n_eval
    chk.cov["distinct_nontrivial"] = len(nontrivial)
    chk.cov["rule"] = ("seeded generators: u64 varints at 2^k-1/2^k/2^k+1, 7-bit boundaries and random; garbage byte strings; "
                       "well-formed streams (record lengths from %s and random) x chunkings {whole, 1024-reads, frame boundaries, "
                       "boundaries+-1, random, single bytes}; ALL chunkings of short streams; step scripts over malformed bytes; "
                       "FileMessageReader scripts. Non-trivial = multi-byte varint class / multi-chunk stream / distinct script."
                       % NASTY_LENS)
    chk.cov["samples"] = [var_cases[200], stream_cases[len(stream_cases) // 2], garb_cases[0], file_cases[0]]
    chk.cov["input_distribution"] = {
        "varints": len(var_cases), "garbage_decodes": len(dec_cases), "stream_x_chunkings": len(stream_cases),
        "step_scripts": len(garb_cases), "file_scripts": len(file_cases),
        "consumer_logfile_histories": len(cons_cases),
        "garbage_decode_outcomes": {k: sum(1 for r in impl_dec if r["r"] == k) for k in ("ok", "err", "panic")},
        "model_impl_mismatches": mism,
    }
    chk.assumptions += ["bytes are N < 256; u8->u32->u64 widening casts are lossless and omitted",
                        "record lengths < 2^63 (usize arithmetic does not overflow)",
                        "disk read errors are not modelled"]
