"""C10 — config change notification is complete: no listener waits on a stale md5."""
import itertools
import json

import cfgmodel as cm
import lib

TARGETS = ["Props/C10.v", "SM/Script.v"]

MANIFEST = dict(
    text="Theorems over ALL message sequences (LISTENER registrations with any key sets / held md5s / deadlines, "
         "Subscribe / RemoveSubscribe / RemoveSubscribeClient, publishes, removes, timeout ticks) about a literal "
         "Gallina transcription of ConfigActor's LISTENER/Subscribe handlers, ConfigListener add/notify/timeout and "
         "Subscriber: every pending listener entry holds the current md5 (invariant), a differing md5 is answered "
         "immediately, every later change of a listened key answers the listener in the same step, a pending "
         "listener is answered at the first tick after its deadline, the two subscriber maps mirror each other, "
         "a change notifies exactly the subscribed clients.  Tied to the code by running a REAL started ConfigActor "
         "(oneshot receivers, ConfigChangeNotifyRequest payloads arriving on real BiStreamConn streams, hook dumps of the "
         "listener/subscriber maps) on ALL interleavings of small per-client "
         "scripts (<= 6 messages, 2 keys, 2 listeners) plus seeded random sequences, against the model and an "
         "independent python oracle.",
    note="Partial: the 500 ms hb timer is replaced by an explicit tick calling the unmodified "
         "ConfigListener::timeout (deadlines are either long past or days ahead, so the wall clock cannot decide a "
         "case); subscriber notifications are observed on the receiving end of real BiStreamManage / BiStreamConn "
         "actors (every client gets a connection whose stream ends in a channel read by the harness), the tonic/HTTP2 "
         "transport below that is runtime.  Routed temporary values (SetTmpValue) weaken the invariant to 'stale only while the value "
         "is tmp'; the overtake schedule is a known finding shared with C09/C06.  Full-value import does not "
         "notify (outside the property's quantifier; shown as a refuted lemma).",
    technique="Rocq proof (invariant over all message sequences with ghost registrations) + exhaustive-interleaving correspondence",
    design="3/C10",
)

K1 = ("d1", "g", "t")
K2 = ("d2", "g", "")
A, B = "alpha", "beta-β"
MA, MB = cm.md5hex(A), cm.md5hex(B)
CLIENTS = ["c1", "c2", "c3"]   # every client has a gRPC connection (real BiStreamManage / BiStreamConn)
PAST = [5, 9]


def pub(k, c):
    return ("pub", k, c)


def rem(k):
    return ("rem", k)


def lis(items, t):
    return ("listen", items, t)


WRITERS = [
    [pub(K1, A), pub(K1, B)],
    [pub(K1, A), rem(K1)],
    [pub(K1, A), pub(K2, A)],
    [pub(K1, A), pub(K1, A)],
    [rem(K1), pub(K1, B)],
    [pub(K2, B), pub(K1, A), rem(K2)],
    [pub(K1, A)],
]


def listener_scripts():
    out = []
    for items in ([(K1, "")], [(K1, MA)], [(K1, MB)], [(K1, MA), (K2, "")], [(K2, ""), (K1, "")], [(K1, "zz"), (K2, MB)]):
        out.append([lis(items, "fut")])
    out.append([lis([(K1, "")], "past0")])
    out.append([lis([(K1, MA), (K2, "")], "past1")])
    out.append([lis([(K1, "")], "zero")])
    out.append([lis([(K1, "")], "fut"), lis([(K1, MA)], "fut")])          # re-poll with the new md5
    out.append([lis([(K1, MA), (K2, "")], "fut"), lis([(K1, MB), (K2, "")], "past0")])
    return out


THIRD = [
    [],
    [("tick",)],
    [("tick",), ("tick",)],
    [("sub", "c1", [(K1, "")]), ("unsub", "c1", [K1])],
    [("sub", "c1", [(K1, MA), (K2, "")]), ("unsub_client", "c1")],
    [("sub", "c2", [(K1, "")])],
]


def merges(seqs):
    """all interleavings of the sequences (each keeps its own order)"""
    seqs = [s for s in seqs if s]
    if not seqs:
        yield []
        return
    for i, s in enumerate(seqs):
        rest = seqs[:i] + [s[1:]] + seqs[i + 1:]
        for m in merges(rest):
            yield [s[0]] + m


def resolve(seq, fut):
    """abstract messages -> python-level ops (history ids, listener ids, concrete deadlines)"""
    ops = []
    hid = 0
    lid = 0
    nfut = 0
    for m in seq:
        if m[0] == "pub":
            hid += 1
            ops.append(("add", cm.build_key(m[1]), m[2], None, None, hid, 100 if hid == 1 else None, 1000 + hid, None))
        elif m[0] == "rem":
            ops.append(("del", cm.build_key(m[1])))
        elif m[0] == "tmp":
            ops.append(("tmp", m[1], m[2]))
        elif m[0] == "listen":
            lid += 1
            t = m[2]
            if t == "fut":
                nfut += 1
                tt = fut + nfut * 10 ** 6
            elif t == "zero":
                tt = 0
            elif t == "neg":
                tt = -5
            else:
                tt = PAST[int(t[-1])]
            ops.append(("listen", lid, list(m[1]), tt))
        elif m[0] == "tick":
            ops.append(("tick", fut - 10 ** 8))
        else:
            ops.append(tuple(m))
    ops.append(("dump_listener",))
    ops.append(("dump_sub",))
    return [("conn", c) for c in CLIENTS] + ops


def gen_exhaustive(tier, fut):
    cases = []
    ls = listener_scripts()
    quick = tier == "quick"
    for wi, w in enumerate(WRITERS):
        for ai, a in enumerate(ls):
            for bi, b in enumerate(ls):
                if bi < ai:
                    continue
                for ti, t in enumerate(THIRD):
                    if len(w) + len(a) + len(b) + len(t) > 6:
                        continue
                    # quick tier: a fixed, evenly spread subset of the configurations (all their interleavings)
                    if quick and (wi * 7 + ai * 5 + bi * 3 + ti) % 7 != 0:
                        continue
                    for m in merges([w, a, b, t]):
                        cases.append({"class": "interleaving", "ops": resolve(m, fut), "abstract": m})
    return cases


def gen_random(rng, n, fut, with_tmp):
    cases = []
    keys = [K1, K2, ("d1", "g2", "t")]
    conts = [A, B, "", "γ"]
    for _ in range(n):
        seq = []
        for _ in range(rng.randrange(3, 16)):
            r = rng.random()
            if r < 0.3:
                seq.append(pub(rng.choice(keys), rng.choice(conts)))
            elif r < 0.4:
                seq.append(rem(rng.choice(keys)))
            elif r < 0.65:
                items = []
                for k in rng.sample(keys, rng.randrange(1, 4)):
                    items.append((k, rng.choice(["", "", cm.md5hex(rng.choice(conts)), "junk"])))
                if rng.random() < 0.1:
                    items.append(items[0])       # the same key twice in one request
                seq.append(lis(items, rng.choice(["fut", "fut", "fut", "past0", "past1", "zero", "neg"])))
            elif r < 0.75:
                seq.append(("tick",))
            elif r < 0.87:
                c = rng.choice(["c1", "c2"])
                items = [(k, rng.choice(["", cm.md5hex(rng.choice(conts))])) for k in rng.sample(keys, rng.randrange(0, 3))]
                seq.append(("sub", c, items))
            elif r < 0.94:
                seq.append(("unsub", rng.choice(["c1", "c2"]), rng.sample(keys, rng.randrange(0, 3))))
            else:
                seq.append(("unsub_client", rng.choice(["c1", "c2", "c3"])))
            if with_tmp and rng.random() < 0.15:
                # a routed write in order: tmp immediately followed by its own commit
                k, c = rng.choice(keys), rng.choice(conts)
                seq.append(("tmp", k, c))
                if rng.random() < 0.5:
                    seq.append(lis([(k, rng.choice(["", cm.md5hex(c)]))], "fut"))
                seq.append(pub(k, c))
        cases.append({"class": "random-tmp" if with_tmp else "random", "ops": resolve(seq, fut), "abstract": seq})
    return cases


def overtake_cases(fut):
    out = []
    seq = [pub(K1, A), pub(K1, B), ("tmp", K1, A), lis([(K1, MB)], "fut"), lis([(K1, MA)], "fut"), ("tick",)]
    out.append({"class": "overtake", "ops": resolve(seq, fut), "abstract": seq})
    seq = [pub(K1, A), lis([(K1, MA)], "fut"), pub(K1, B), ("tmp", K1, A), lis([(K1, MA)], "fut")]
    out.append({"class": "overtake", "ops": resolve(seq, fut), "abstract": seq})
    return out


# ------------------------------------------------------------------ oracle (independent of the model)
def oracle(case, outs, fut):
    """C10 on the implementation's observations.  Returns list of (class, description)."""
    fails = []
    md5 = {}            # committed md5 per key (absent = "")
    tmp_ahead = {}      # key -> md5 of a routed value whose own commit is the next op on the key
    pending = {}        # lid -> dict(items, deadline)
    answered = set()
    subs = {}           # client -> set(keys)
    ops = case["ops"]

    def cur(k):
        return tmp_ahead.get(k, md5.get(k, ""))

    for idx, (op, o) in enumerate(zip(ops, outs)):
        n = op[0]
        ans = {a[0]: a[1] for a in o["ans"]}
        for lid in ans:
            if lid in answered:
                fails.append(("twice", "listener %d answered twice" % lid))
            answered.add(lid)
        must = {}        # lid -> expected answer (or "any")
        may = set()
        if n == "listen":
            lid, items, t = op[1], op[2], op[3]
            changed = [list(k) for k, m in items if cur(k) != m]
            if changed or t <= 0:
                must[lid] = changed
            else:
                pending[lid] = {"items": items, "deadline": t}
        elif n in ("add", "del"):
            k = cm.parse_key(op[1])
            tmp_ahead.pop(k, None)
            new = cm.md5hex(op[2]) if n == "add" else ""
            old_seen = cur(k)
            real_change = (md5.get(k, "") != new)
            # gRPC subscribers of k: a ConfigChangeNotifyRequest must reach each of them on a change
            subscribed = sorted(c for c, ks in subs.items() if k in ks)
            got = sorted(x[0] for x in o.get("ntf", []) if tuple(x[1]) == k)
            other = [x for x in o.get("ntf", []) if tuple(x[1]) != k]
            if other:
                fails.append(("notify", "op %d %s of %r notified another key: %r" % (idx, n, k, other)))
            if real_change or old_seen != new or n == "del":
                if got != subscribed:
                    fails.append(("notify", "op %d %s changed %r: subscribers %r, notified %r" % (idx, n, k, subscribed, got)))
            elif not set(got) <= set(subscribed):
                fails.append(("notify", "op %d %s of %r notified non-subscribers %r" % (idx, n, k, got)))
            if n == "add":
                md5[k] = new
            else:
                md5.pop(k, None)
                for c in list(subs):
                    subs[c].discard(k)
            for lid, p in list(pending.items()):
                if any(ik == k for ik, _ in p["items"]):
                    if real_change or old_seen != new:
                        must[lid] = [list(k)]
                        del pending[lid]
                    else:
                        may.add(lid)      # a spurious notification (remove of an absent key, re-publish after tmp) is harmless
        elif n == "tmp":
            nxt = None
            for o2 in ops[idx + 1:]:
                if o2[0] in ("add", "del") and cm.parse_key(o2[1]) == op[1]:
                    nxt = o2
                    break
            if nxt is not None and nxt[0] == "add" and nxt[2] == op[2]:
                tmp_ahead[op[1]] = cm.md5hex(op[2])
        elif n == "tick":
            for lid, p in list(pending.items()):
                if p["deadline"] < fut - 10 ** 9:
                    must[lid] = None
                    del pending[lid]
        elif n == "sub":
            want = [list(k) for k, m in op[2] if cur(k) != m]
            got = o["r"].get("changed") if isinstance(o["r"], dict) else None
            if (got or []) != want:
                fails.append(("subscribe", "Subscribe %r: changed keys %r, expected %r" % (op[1], got, want)))
            subs.setdefault(op[1], set()).update(k for k, _ in op[2])
        elif n == "unsub":
            if op[1] in subs:
                subs[op[1]] -= set(op[2])
        elif n == "unsub_client":
            subs.pop(op[1], None)
        elif n == "dump_sub":
            r = o["r"]
            a = sorted((tuple(k), c) for k, cs in r["listener"] for c in cs)
            b = sorted((tuple(k), c) for c, ks in r["client_keys"] for k in ks)
            if a != b:
                fails.append(("mirror", "subscriber maps are not mirrored: %r vs %r" % (a, b)))
            want = sorted((k, c) for c, ks in subs.items() for k in ks)
            if a != want:
                fails.append(("subscribers", "subscriptions %r, expected %r" % (a, want)))
        for lid, exp in must.items():
            if lid not in ans:
                fails.append(("unreported", "listener %d not answered at op %d %s (expected %r)" % (lid, idx, n, exp)))
            elif ans[lid] != exp:
                fails.append(("answer", "listener %d answered %r at op %d %s, expected %r" % (lid, ans[lid], idx, n, exp)))
        for lid in ans:
            if lid not in must and lid not in may:
                fails.append(("spurious", "listener %d answered %r at op %d %s without a reason" % (lid, ans[lid], idx, n)))
            pending.pop(lid, None)
    # at the end: no pending listener holds a stale md5
    for lid, p in pending.items():
        for k, m in p["items"]:
            if md5.get(k, "") != m and k not in tmp_ahead:
                fails.append(("stale", "listener %d is still pending on %r with md5 %r while the current md5 is %r"
                              % (lid, k, m, md5.get(k, ""))))
    return fails


HEADER = "From RN Require Import SM.Listener SM.Script.\nOpen Scope N_scope.\n"


def run(chk, replay=None):
    import time
    tier = chk.tier
    rng = chk.rng
    proofs_ok = chk.proofs(TARGETS)
    ok, out = lib.harness_build()
    if not ok:
        chk.violation("harness does not build against /repo", {"broken": "harness build", "log": out[-3000:]}, False)
        return
    quick = tier == "quick"
    fut = int(time.time() * 1000) + 10 ** 9
    cases = []
    if replay:
        rp = json.load(open(replay))["replay"]
        if isinstance(rp, dict) and "abstract" in rp:
            seq = [_tup(m) for m in rp["abstract"]]
            cases.append({"class": rp.get("class", "replay"), "ops": resolve(seq, fut), "abstract": seq})
    cases += overtake_cases(fut)
    cases += gen_exhaustive(tier, fut)
    cases += gen_random(rng, 300 if quick else 5000, fut, False)
    cases += gen_random(rng, 150 if quick else 2000, fut, True)

    impl = lib.harness_run_parallel("config", [cm.harness_case(c["ops"]) for c in cases], timeout=1800)

    n_eval = 0
    nontrivial = set()
    classes = {}
    for c, r in zip(cases, impl):
        classes[c["class"]] = classes.get(c["class"], 0) + 1
        if r.get("r") != "ok":
            chk.violation("implementation panicked", {"suite": "config", "abstract": c["abstract"], "class": c["class"], "impl": r}, True)
            continue
        n_eval += 1
        nontrivial.add(json.dumps(c["abstract"], default=str))
        for cls, what in oracle(c, r["out"], fut):
            key = "tmp-overtake" if c["class"] == "overtake" else "%s:%s" % (c["class"], cls)
            chk.classify(key, "C10 %s: %s" % (cls, what[:400]),
                         {"suite": "config", "class": c["class"], "abstract": c["abstract"], "failed": what})

    vals = None
    try:
        exprs, encs = [], []
        for c in cases:
            e, enc = cm.coq_script(c["ops"])
            exprs.append(e)
            encs.append(enc)
        vals = lib.coq_eval_sharded("c10", HEADER, exprs, per=max(20, len(exprs) // 32 + 1), timeout=1500)
    except RuntimeError as ex:
        chk.violation("model evaluation failed: %s" % str(ex)[:300], {"broken": "model evaluation", "log": str(ex)[-3000:]}, False)
    mism = 0
    if vals is not None:
        for c, r, v, enc in zip(cases, impl, vals, encs):
            if r.get("r") != "ok":
                continue
            for idx, (op, o, mv) in enumerate(zip(c["ops"], r["out"], v)):
                m = cm.canon_model(mv, enc)
                i = cm.canon_impl(op, o)
                d = cm.same(op, m, i, conns=CLIENTS)
                if d:
                    mism += 1
                    chk.violation("model != implementation at op %d %s: %s" % (idx, op[0], d[:300]),
                                  {"suite": "config", "class": c["class"], "abstract": c["abstract"], "op_index": idx,
                                   "diff": d, "correspondence": "SM.Listener"}, False)
                    break
    if not proofs_ok:
        chk.violation("proof obligations of C10 no longer check: %s" % chk.proof_failure[:300],
                      {"broken": "theorem", "detail": chk.proof_failure}, False)

    chk.cov["evaluations"] = n_eval
    chk.cov["distinct_nontrivial"] = len(nontrivial)
    chk.cov["rule"] = ("ALL interleavings of a writer script x two listener scripts x a tick/subscriber script with at most 6 messages "
                       "over 2 keys (quick tier: every 7th configuration, all of its interleavings), plus seeded random sequences of "
                       "3..15 messages over 3 keys, 2 clients (with and without in-order routed temporary values), plus the two overtake "
                       "schedules. evaluations = message sequences judged; non-trivial = distinct abstract sequences.")
    chk.cov["samples"] = [_plain(cases[3]), _plain(cases[len(cases) // 2]), _plain(cases[-1])]
    chk.cov["input_distribution"] = dict(classes=classes, cases=len(cases), model_impl_mismatches=mism,
                                         writers=len(WRITERS), listener_scripts=len(listener_scripts()), third=len(THIRD))
    chk.assumptions += ["logical clock: deadlines are either long past (5, 9 ms after the epoch) or >= 11 days ahead; "
                        "ticks call the unmodified ConfigListener::timeout with the real clock",
                        "at most 10000 deadline buckets are expired per tick (the code's take(10000)); stated in answered_by_timeout",
                        "gRPC delivery is observed up to the BiStreamConn sender channel; the tonic transport is runtime"]


def _plain(c):
    return {"class": c["class"], "abstract": c["abstract"]}


def _tup(m):
    m = list(m)
    if m[0] in ("pub", "rem", "tmp"):
        m[1] = tuple(m[1])
    if m[0] == "listen":
        m[1] = [(tuple(k), md) for k, md in m[1]]
    if m[0] == "sub":
        m[2] = [(tuple(k), md) for k, md in m[2]]
    if m[0] == "unsub":
        m[2] = [tuple(k) for k in m[2]]
    return tuple(m)
