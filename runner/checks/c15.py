"""C15 — Registry converges: after quiescence every node returns the same instances (partial)."""
import hashlib
import json
import os
import re

import lib

TARGETS = ["Props/C15.v", "Naming/SyncScript.v", "Naming/SyncHttp.v"]

MANIFEST = dict(
    text="PARTIAL. Proved (Rocq, all states/inputs of the model): the delay actor sends exactly the last operation per key "
         "(batch_last_op_wins) and how a batch is applied; a pointwise specification of one anti-entropy exchange "
         "SyncDistroClientInstances -> QueryDistroInstanceSnapshot -> Snapshot, hence distro_round_repairs, preservation of "
         "the receiver invariant, quiescent_fixpoint (no client operations, queues drained, one round => all live nodes "
         "answer the same for every key, for any number of nodes), dead_node_clients_removed, rejoin_receives_snapshot; for "
         "HTTP instances (on top of the C14 ownership theorem, all live nodes sharing one view): http_register_converges, "
         "http_deregister_converges, update+remove of one key inside one 500 ms window, and the refutations "
         "stale_snapshot_restores_deregistered / stale_snapshot_overwrites_update. The gRPC model is tied to the code by "
         "scripts run on real NamingActor / ClusterInstanceDelayNotifyActor / InnerNodeManage / ClusteSyncSender actors "
         "(sync traffic captured instead of sent) and compared state by state and message by message with the model. "
         "The HTTP path is observed on THREE REAL rnacos PROCESSES on loopback: seeded register / update / deregister / "
         "beat of ephemeral and persistent instances in several namespaces / groups / services addressed to arbitrary "
         "nodes, without fault and with kill -9, restart and SIGSTOP (> 18 s) of a node; after the operations stop and the "
         "sync interval has passed /nacos/v1/ns/instance/list of every live node is compared with the other nodes and "
         "with the sequential spec of the acknowledged operations.",
    note="Runtime-only (NOT proved): liveness under real message delay and loss (ClusteSyncSender retries once after 100 ms, "
         "requests are concurrent so per-pair FIFO order is an assumption), the 500 ms / 3 s / 12 s / 15 s timers, nodes with "
         "different live-node views.  gRPC clients are not available offline: the gRPC part stays at component level; "
         "handle_naming_route is transcribed in the harness for the light nodes and tied to the real function by replaying a node's events on a full in-process node through the REAL handle_naming_route (state and answers compared).  "
         "client_instance_set is taken as the index of the registry by client id (C11), re-checked at every dump.  Not judged "
         "in the process scenarios: expiry of instances whose client stopped beating (C13), unacknowledged operations.  "
         "Known findings: the gRPC anti-entropy compares key sets only (distro-diff-ignores-values); HTTP state transfers "
         "(snapshots, 15 s beat batches) are applied unconditionally, so an older state can follow a newer acknowledged "
         "update / deregistration (http-sync-stale-state:snapshot, :ownership) - discrepancies of instances whose last "
         "acknowledged operation lies in such a window are reported as known findings, all others are violations (after one "
         "retry with doubled waits; a discrepancy that disappears then is reported as inconclusive).",
    technique="Rocq proof (pointwise specs of the receive steps, induction over the senders of a round, C14 ownership theorem "
              "for the HTTP path) + model/implementation correspondence on operation scripts + convergence oracle + "
              "multi-process scenarios on the real binary",
    design="3/C15",
)

HEADER = "From RN Require Import Naming.Sync Naming.SyncScript.\nOpen Scope N_scope.\n"

# sha256 of the whitespace-normalised text of handle_naming_route + reset_cluster_info the harness glue
# (harness/src/suites/sync.rs: deliver) was transcribed from
GLUE_SHA = "4f1b0be75a023298"


def glue_hash():
    src = open(os.path.join(lib.REPO, "src/naming/cluster/mod.rs")).read()
    i = src.index("pub async fn handle_naming_route")
    return hashlib.sha256(re.sub(r"\s+", " ", src[i:]).encode()).hexdigest()[:16]


# ---------------------------------------------------------------- scripts
def coq_op(op):
    t = op[0]
    if t == "reg":
        return "OReg %d (%d,%d) %d %d" % (op[1], op[2][0], op[2][1], op[3], op[4])
    if t == "dereg":
        return "ODereg %d (%d,%d) %d" % (op[1], op[2][0], op[2][1], op[3])
    if t == "disc":
        return "ODisc %d (%d,%d)" % (op[1], op[2][0], op[2][1])
    if t == "flush":
        return "OFlush %d" % op[1]
    if t == "distro":
        return "ODistro %d" % op[1]
    if t == "qsnap":
        return "OQSnap %d" % op[1]
    if t == "kill":
        return "OKill %d %d" % (op[1], op[2])
    if t == "deliver":
        return "ODeliver %d %d" % (op[1], op[2])
    if t == "drop":
        return "ODrop %d %d" % (op[1], op[2])
    if t == "restart":
        return "ORestart %d" % op[1]
    if t == "dump":
        return "ODump"
    raise ValueError(t)


def pairs(ids):
    return [(a, b) for a in ids for b in ids if a != b]


def deliver_rounds(ids, rounds, skip=()):
    return [["deliver", a, b] for _ in range(rounds) for a, b in pairs(ids) if a not in skip and b not in skip]


def client_ops(rng, ids, n, keys_of, drops=False, alive=None):
    """random client operations (clients talk to the node they are connected to) interleaved with flushes,
    deliveries, anti-entropy sends; keys_of[node] = key pool of the node's clients"""
    alive = alive or ids
    ops = []
    for _ in range(n):
        r = rng.random()
        nd = rng.choice(alive)
        c = [nd, rng.randrange(1, 3)]
        if r < 0.40:
            ops.append(["reg", nd, c, rng.choice(keys_of[nd]), rng.randrange(1, 50)])
        elif r < 0.50:
            ops.append(["dereg", nd, c, rng.choice(keys_of[nd])])
        elif r < 0.55:
            ops.append(["disc", nd, c])
        elif r < 0.68:
            ops.append(["flush", nd])
        elif r < 0.74:
            ops.append(["distro", nd])
        elif r < 0.97 or not drops:
            a, b = rng.choice(pairs(alive))
            ops.append(["deliver", a, b])
        else:
            a, b = rng.choice(pairs(alive))
            ops.append(["drop", a, b])
    return ops


def quiesce(ids, skip=()):
    """flush everything, drain the queues, one anti-entropy round, drain again"""
    live = [i for i in ids if i not in skip]
    ops = [["flush", i] for i in live]
    ops += deliver_rounds(ids, 8, skip)
    ops += [["distro", i] for i in live]
    ops += deliver_rounds(ids, 4, skip)      # MDistro, MQueryInst, MSnapshot (+ slack)
    return ops


def gen_random(rng, n_nodes, length):
    ids = list(range(1, n_nodes + 1))
    shared = list(range(1, 9))
    keys_of = dict((i, shared) for i in ids)          # the same key may be registered through several nodes
    ops = client_ops(rng, ids, length, keys_of, drops=True)
    for j in sorted(rng.sample(range(1, len(ops)), min(3, len(ops) - 1)), reverse=True):
        ops.insert(j, ["dump"])
    return {"kind": "random", "nodes": ids, "ops": ops}


def gen_converge(rng, n_nodes, length):
    ids = list(range(1, n_nodes + 1))
    keys_of = dict((i, list(range(10 * i, 10 * i + 5))) for i in ids)       # every key registered through one node
    ops = client_ops(rng, ids, length, keys_of)
    ops += quiesce(ids) + [["dump"]]
    return {"kind": "converge", "nodes": ids, "ops": ops, "keys_of": keys_of}


def gen_lossy(rng, n_nodes, length):
    """a third of the incremental messages are LOST; flush + one anti-entropy round must still leave every node
    with exactly the registered keys under the right clients (C15_distro_round_repairs; a payload missed with a
    lost batch may stay stale: the recorded finding)"""
    ids = list(range(1, n_nodes + 1))
    keys_of = dict((i, list(range(10 * i, 10 * i + 4))) for i in ids)
    ops = client_ops(rng, ids, length, keys_of)
    ops = [["drop", o[1], o[2]] if o[0] == "deliver" and rng.random() < 0.35 else o for o in ops]
    ops += quiesce(ids) + [["dump"]]
    return {"kind": "lossy", "nodes": ids, "ops": ops, "keys_of": keys_of}


def gen_kill_rejoin(rng, n_nodes, length):
    ids = list(range(1, n_nodes + 1))
    keys_of = dict((i, list(range(10 * i, 10 * i + 5))) for i in ids)
    d = rng.choice(ids)
    live = [i for i in ids if i != d]
    ops = client_ops(rng, ids, length, keys_of)
    ops += quiesce(ids) + [["dump"]]
    ops += [["kill", a, d] for a in live] + [["dump"]]                        # node d dies
    ops += client_ops(rng, ids, length // 2, keys_of, alive=live)
    ops += quiesce(ids, skip=(d,)) + [["dump"]]
    # d comes back empty, pulls snapshots (first_query_snapshot), the others notice it again
    ops += [["restart", d], ["qsnap", d]] + deliver_rounds(ids, 3) + quiesce(ids) + [["dump"]]
    return {"kind": "kill", "nodes": ids, "ops": ops, "keys_of": keys_of, "dead": d}


def gen_swap_lost(rng, n_nodes=3):
    """a client replaces instance X by instance Y (its key COUNT stays the same) while node b misses both the
    remove and the update batch: the anti-entropy round must still drop X and pull Y on b"""
    ids = list(range(1, n_nodes + 1))
    a = rng.choice(ids)
    b = rng.choice([i for i in ids if i != a])
    base = 10 * a
    extra = rng.randrange(0, 3)                       # further instances of the same client that do not change
    ops = []
    for j in range(extra + 1):
        ops.append(["reg", a, [a, 1], base + j, rng.randrange(1, 50)])
    ops += [["flush", a]] + deliver_rounds(ids, 2)
    ops += [["dereg", a, [a, 1], base], ["reg", a, [a, 1], base + 4, rng.randrange(1, 50)], ["flush", a]]
    ops += [["drop", a, b]] * 6
    ops += quiesce(ids) + [["dump"]]
    return {"kind": "converge", "nodes": ids, "ops": ops, "keys_of": {a: list(range(base, base + 5))}}


def gen_rejoin_then_kill(rng, n_nodes, length):
    """node d restarts empty and learns the others' instances through SNAPSHOTS only (no batch, no
    anti-entropy round afterwards); then node x dies: d, too, must drop the instances held by x's connections"""
    ids = list(range(1, n_nodes + 1))
    keys_of = dict((i, list(range(10 * i, 10 * i + 5))) for i in ids)
    d = rng.choice(ids)
    x = rng.choice([i for i in ids if i != d])
    ops = client_ops(rng, ids, length, keys_of)
    ops += [["reg", x, [x, 1], keys_of[x][0], rng.randrange(1, 50)]]
    ops += quiesce(ids) + [["dump"]]
    ops += [["restart", d], ["qsnap", d]] + deliver_rounds(ids, 3) + [["dump"]]
    ops += [["kill", a, x] for a in ids if a != x] + [["dump"]]
    return {"kind": "rejoin-kill", "nodes": ids, "ops": ops, "keys_of": keys_of, "dead": x, "rejoiner": d}


def gen_stale(rng):
    """the known finding: an update batch to node 2 is lost; anti-entropy does not repair the payload"""
    v1, v2 = rng.randrange(1, 20), rng.randrange(20, 40)
    ids = [1, 2, 3]
    ops = [["reg", 1, [1, 1], 10, v1], ["flush", 1]] + deliver_rounds(ids, 1)
    ops += [["reg", 1, [1, 1], 10, v2], ["flush", 1], ["drop", 1, 2]] + quiesce(ids) + [["dump"]]
    return {"kind": "stale", "nodes": ids, "ops": ops, "keys_of": {1: [10], 2: [], 3: []}}


def gen_last_client_lost(rng, n_nodes=3):
    """a node's LAST gRPC client goes away while another node misses both the RemoveClientId message and
    the remove batch: the next anti-entropy message lists no client at all and must still clear it"""
    ids = list(range(1, n_nodes + 1))
    a = rng.choice(ids)
    b = rng.choice([i for i in ids if i != a])
    key = 10 * a
    ops = [["reg", a, [a, 1], key, rng.randrange(1, 50)], ["flush", a]] + deliver_rounds(ids, 2)
    if rng.random() < 0.5:
        ops += [["reg", a, [a, 1], key + 1, rng.randrange(1, 50)], ["flush", a]] + deliver_rounds(ids, 2)
    ops += [["disc", a, [a, 1]], ["flush", a]] + [["drop", a, b]] * 6
    ops += quiesce(ids) + [["dump"]]
    return {"kind": "converge", "nodes": ids, "ops": ops, "keys_of": {a: [key, key + 1]}}


# ---------------------------------------------------------------- canonical forms
def c_inst_model(i):
    return {"v": i["si_val"], "from": i["si_from"], "client": list(i["si_client"])}


def canon_msg_model(m):
    if m == "MQuerySnapshot":
        return {"t": "qsnap"}
    t = m[0]
    if t == "MBatch":
        f = lambda l: sorted([dict(c_inst_model(i), k=k) for k, i in l], key=lambda x: x["k"])
        return {"t": "batch", "upd": f(m[1]), "rem": f(m[2])}
    if t == "MRemoveClient":
        return {"t": "rmclient", "c": list(m[1])}
    if t == "MDistro":
        return {"t": "distro", "data": sorted([[[e[0], e[1]], sorted(set(e[2]))] for e in m[1]])}
    if t == "MQueryInst":
        return {"t": "qinst", "ks": sorted(set(m[1]))}
    if t == "MSnapshot":
        return {"t": "snapshot", "is": sorted([dict(c_inst_model(i), k=k) for k, i in m[1]], key=lambda x: x["k"])}
    return {"t": str(m)}


def canon_dump_model(d):
    nodes, queues, inv = d
    out = {"nodes": {}, "queues": {}, "invalid": sorted([list(p) for p in inv])}
    for nid, reg, peers, dmap in nodes:
        pr = {}
        have = set(tuple(i["si_client"]) for _, i in reg)
        for n, c in peers:
            if tuple(c) in have:        # see canon_dump_impl
                pr.setdefault(str(n), []).append(list(c))
        out["nodes"][str(nid)] = {
            "reg": sorted([dict(c_inst_model(i), k=k) for k, i in reg], key=lambda x: x["k"]),
            "peers": dict((k, sorted(v)) for k, v in pr.items()),
            "delay": sorted([{"k": k, "i": c_inst_model(x[0]), "u": x[1] == "true"} for k, x in dmap], key=lambda x: x["k"]),
        }
    for e in queues:
        out["queues"]["%d-%d" % (e[0], e[1])] = [canon_msg_model(m) for m in e[2]]
    return out


def c_inst_impl(i):
    return {"v": i["v"], "from": i["from"], "client": i["client"]}


def canon_msg_impl(m):
    t = m["t"]
    if t == "batch":
        f = lambda l: sorted([dict(c_inst_impl(i), k=i["k"]) for i in l], key=lambda x: str(x["k"]))
        return {"t": "batch", "upd": f(m.get("upd", [])), "rem": f(m.get("rem", []))}
    if t == "snapshot":
        return {"t": "snapshot", "is": sorted([dict(c_inst_impl(i), k=i["k"]) for i in m.get("is", [])], key=lambda x: str(x["k"]))}
    if t == "distro":
        return {"t": "distro", "data": sorted([[c, sorted(ks)] for c, ks in m["data"] if ks])}
    if t == "qinst":
        return {"t": "qinst", "ks": sorted(m["ks"])}
    return m


def canon_dump_impl(d):
    out = {"nodes": {}, "queues": {}, "invalid": []}
    for n in d["nodes"]:
        peers = {}
        # a client id whose instance set became empty stays in client_instance_set (empty HashSet) and in the
        # client_set of the other nodes and keeps being announced with no keys; it has no effect on instances.
        # The model identifies client_instance_set with the index of the registry, so only the clients that
        # hold an instance on the node are compared (and key-less entries of the distro data are dropped).
        have = set(tuple(i["client"]) for i in n["reg"])
        for pid, valid, cs in n["peers"]:
            cs = [c for c in cs if tuple(c) in have]
            if cs:
                peers[str(pid)] = sorted(cs)
            if not valid:
                out["invalid"].append([n["id"], pid])
        out["nodes"][str(n["id"])] = {
            "reg": sorted([dict(c_inst_impl(i), k=i["k"]) for i in n["reg"]], key=lambda x: str(x["k"])),
            "peers": peers,
            "delay": sorted([{"k": x["k"], "i": c_inst_impl(x["i"]), "u": x["u"]} for x in n["delay"]], key=lambda x: str(x["k"])),
        }
    out["invalid"].sort()
    for a, b, ms in d["queues"]:
        out["queues"]["%d-%d" % (a, b)] = [canon_msg_impl(m) for m in ms]
    return out


def cset_consistent(n):
    """client_instance_set must be the index of the registry by client id (the C11 abstraction the model uses)"""
    want = {}
    for i in n["reg"]:
        want.setdefault(json.dumps(i["client"]), set()).add(i["k"])
    got = dict((json.dumps(c), set(ks)) for c, ks in n["cset"])
    return want == got


def gview(n):
    """what the node answers per key: (owner node, client, payload)"""
    return dict((i["k"], [n["id"] if i["from"] == 0 else i["from"], i["client"], i["v"]]) for i in n["reg"])


def expected_registry(ops, dead_after=None):
    """independent oracle from the operation log: the instances that must exist after quiescence"""
    reg = {}
    for op in ops:
        if op[0] == "reg":
            reg[op[3]] = [op[1], op[2], op[4]]
        elif op[0] == "dereg":
            if op[3] in reg and reg[op[3]][1] == op[2]:
                del reg[op[3]]
        elif op[0] == "disc":
            for k in [k for k, v in reg.items() if v[1] == op[2]]:
                del reg[k]
        elif op[0] == "kill":
            pass
        elif op[0] == "restart":
            for k in [k for k, v in reg.items() if v[0] == op[1]]:
                del reg[k]
    return reg


# ---------------------------------------------------------------- multi-process scenario: verdicts
def naming_verdicts(obs):
    """What C15 demands of the observations of nodescen_naming.scenario_naming_converge:
      (1) every live node answers the same list for every service (ip, port, weight, healthy, enabled, ephemeral);
      (2) an instance whose last acknowledged operation is a registration/update and which is kept alive by
          beats (ephemeral) or is persistent is held by every live node with the acknowledged weight / enabled
          state, healthy; a disabled one is hidden by the list but answered by GET /instance;
      (3) an instance whose last acknowledged operation is a deregistration is held by no live node.
    NOT judged here: ephemeral instances whose client stopped beating without deregistering (their expiry is
    property C13; only (1) applies to them), operations that were not acknowledged (either outcome).
    Returns a list of (key, what, detail)."""
    out = []
    final = obs.get("final") or {}
    live = sorted(final)
    if not live:
        return [("naming:no-observation", "no live node was observed", {})]
    ref = live[0]
    for svc in sorted(final[ref]["lists"]):
        rows = dict((n, final[n]["lists"].get(svc)) for n in live)
        if any(isinstance(r, str) for r in rows.values()):
            out.append(("naming:list-error", "instance list of %s failed: %s" % (svc, rows), {"service": svc, "rows": rows}))
        elif any(rows[n] != rows[ref] for n in live):
            out.append(("naming:nodes-differ", "live nodes answer different instance lists for %s: %s" % (svc, rows),
                        {"service": svc, "rows": rows}))
    abandoned_left = 0
    for name, s in sorted((obs.get("spec") or {}).items()):
        ns, grp, svc, ip, port = name.split("/")
        port = int(port)
        svc_key = "/".join((ns, grp, svc))
        if s["abandoned"] or not s["sure"]:
            if s["abandoned"] and any(final[n]["single"].get(name) for n in live):
                abandoned_left += 1
            continue
        for n in live:
            lst = final[n]["lists"].get(svc_key)
            if isinstance(lst, str):
                continue
            row = next((r for r in lst if r[0] == ip and r[1] == port), None)
            single = final[n]["single"].get(name)
            if s["state"] == "present":
                want = [ip, port, float(s["weight"]), True, s["enabled"], s["eph"]]
                got = row if s["enabled"] else single
                if got is None:
                    out.append(("naming:acked-instance-missing",
                                "node %s does not hold %s (registered, %s) after quiescence" %
                                (n, name, "kept alive by beats" if s["eph"] else "persistent"),
                                {"node": n, "instance": name, "want": want, "list_row": row, "single": single}))
                elif got != want:
                    out.append(("naming:acked-instance-differs",
                                "node %s answers %s for %s, acknowledged state is %s" % (n, got, name, want),
                                {"node": n, "instance": name, "want": want, "got": got}))
                elif not s["enabled"] and row is not None:
                    out.append(("naming:disabled-listed", "node %s lists the disabled instance %s" % (n, name),
                                {"node": n, "instance": name}))
            else:
                if row is not None or single is not None:
                    out.append(("naming:deregistered-present",
                                "node %s still holds %s after its acknowledged deregistration: %s" % (n, name, row or single),
                                {"node": n, "instance": name, "row": row, "single": single}))
    obs["abandoned_left"] = abandoned_left
    return out


def naming_hazards(obs):
    """Time windows (seconds since scenario start) in which the HTTP sync protocol is known to be able to
    re-apply an OLDER instance state after a newer acknowledged operation (known findings of C15):
      snapshot: every node pulls snapshots 1 s / 15 s / 45 s after its start and pushes one after 30 s; the answers
                cover the answering node's current AND former ranges and are applied unconditionally;
      ownership: for 15 s after the live-node view of some node changed (join, a node marked invalid / valid
                again, restart) the 15 s heart-beat batch of the PREVIOUS owner still carries the instance as it
                was when it processed the last beat; while a node is considered invalid it is sent no batches.
    -> list of (from, to, mechanism)"""
    tl = obs.get("timeline") or {}
    wins = []
    for nid, ss in (tl.get("starts") or {}).items():
        for s0 in ss:
            for a, b in ((0.0, 4.5), (13.5, 19.5), (28.5, 33.5), (43.5, 49.5)):
                wins.append((s0 + a, s0 + b, "snapshot"))
    sc = float(obs.get("scale") or 1.0)
    f = tl.get("fault_s")
    if f is not None:
        end = {"kill": f + 19.0 + 16.0, "restart": (tl.get("restarted_s") or f) + 3.0 + 16.0,
               "stop": (tl.get("sigcont_s") or f + 21.0 * sc) + 7.0 + 16.0}.get(obs.get("fault"), f + 35.0)
        wins.append((f - 16.0, end, "ownership"))      # beats processed up to 15 s before the change are still pending
    return wins


def naming_explain(obs, name):
    """mechanism name when the LAST acknowledged operation on the instance falls into a hazard window, else None"""
    parts = name.split("/")
    inst = parts[:4] + [int(parts[4])]
    wins = naming_hazards(obs)
    acked = [h for h in obs.get("history") or []
             if h.get("inst") == inst and h.get("op") in ("register", "update", "deregister") and h.get("status") == 200]
    if not acked:
        return None
    t = acked[-1]["t"]            # the operation whose effect is missing
    for want in ("ownership", "snapshot"):
        for a, b, m in wins:
            if m == want and a <= t <= b:
                return m
    return None


NAMING_VARIANTS = [None, "kill", "restart", "stop"]


def run_naming_scenarios(chk, binary, tier):
    """the real 3-process scenarios; returns (observations, counters)"""
    import random
    from concurrent.futures import ThreadPoolExecutor
    import nodescen_naming
    jobs = []
    reps = 1 if tier == "quick" else 3
    for r in range(reps):
        for f in NAMING_VARIANTS:
            jobs.append((f, chk.rng.randrange(1 << 30)))

    def one(job, scale=1.0):
        f, seed = job
        try:
            o = nodescen_naming.scenario_naming_converge(binary, random.Random(seed), fault=f, scale=scale, tag="-%d-%d" % (seed, int(scale)))
        except Exception as ex:  # noqa: BLE001 machinery (ports, start-up): not a verdict about the property
            o = {"scenario": "naming_converge", "fault": f, "errors": ["scenario crashed: %r" % ex], "history": [], "final": {}}
        o["seed"] = seed
        return o

    with ThreadPoolExecutor(max_workers=4) as ex:
        outs = list(ex.map(one, jobs))
    return jobs, outs, one


# ---------------------------------------------------------------- the check
def run(chk, replay=None):
    tier = chk.tier
    rng = chk.rng
    proofs_ok = chk.proofs(TARGETS)
    ok, out = lib.harness_build()
    if not ok:
        chk.violation("harness does not build against /repo", {"broken": "harness build", "log": out[-3000:]}, False)
        return
    gh = glue_hash()
    if gh != GLUE_SHA:
        # not an alarm by itself: the transcription is tied to the real function behaviourally (route replay below)
        chk.notes["handle_naming_route_text_changed"] = "hash %s, transcribed from %s" % (gh, GLUE_SHA)

    # ---- the real 3-process cluster scenarios run concurrently with the component-level scripts
    import nodelib
    from concurrent.futures import ThreadPoolExecutor as _TPE
    bok, blog, binary = nodelib.build_binary()
    naming_future = None
    naming_pool = _TPE(max_workers=1)
    if not bok:
        chk.violation("the rnacos binary does not build", {"broken": "node binary build", "log": blog[-2000:]}, False)
    elif not replay:
        naming_future = naming_pool.submit(run_naming_scenarios, chk, binary, tier)

    scale = 1 if tier == "quick" else 8
    cases = []
    if replay:
        rp = json.load(open(replay))["replay"]
        if isinstance(rp, dict) and isinstance(rp.get("case"), dict) and "ops" in rp["case"]:
            cases.append(rp["case"])
    cases.append(gen_stale(rng))
    for _ in range(4 * scale):
        cases.append(gen_last_client_lost(rng, rng.choice([2, 3, 3, 4])))
    for _ in range(4 * scale):
        cases.append(gen_swap_lost(rng, rng.choice([2, 3, 3, 4])))
    for _ in range(40 * scale):
        cases.append(gen_random(rng, rng.choice([2, 3, 3, 4]), rng.choice([20, 40, 60])))
    for _ in range(30 * scale):
        cases.append(gen_converge(rng, rng.choice([2, 3, 3, 4]), rng.choice([15, 30, 50])))
    for _ in range(20 * scale):
        cases.append(gen_kill_rejoin(rng, rng.choice([3, 3, 4]), rng.choice([15, 30])))
    for _ in range(16 * scale):
        cases.append(gen_lossy(rng, rng.choice([2, 3, 3, 4]), rng.choice([20, 40, 60])))
    for _ in range(8 * scale):
        cases.append(gen_rejoin_then_kill(rng, rng.choice([2, 3, 3, 4]), rng.choice([10, 25])))

    # the node whose events are replayed through the REAL handle_naming_route on a full in-process node
    for j, c in enumerate(cases):
        if c["kind"] == "rejoin-kill":
            c["route_check"] = c["rejoiner"]
        elif c["kind"] in ("kill", "stale") or j % 3 == 0 or tier != "quick":
            c["route_check"] = rng.choice([i for i in c["nodes"] if i != c.get("dead")])

    def hcase(c):
        d = {"nodes": c["nodes"], "ops": c["ops"]}
        if c.get("route_check"):
            d["route_check"] = c["route_check"]
        return d
    impl = lib.harness_run_parallel("sync", [hcase(c) for c in cases], shards=8)
    # a script that ran into the 3 s heartbeat of the node managers is re-run once (timing, not logic)
    for j, r in enumerate(impl):
        if r.get("r") == "ok" and (r.get("pings", 0) > 0 or r.get("elapsed_ms", 0) > 2500):
            impl[j] = lib.harness_run("sync", [hcase(cases[j])])[0]

    n_eval = 0
    nontrivial = set()
    kinds = {}

    # ---- property oracle on the implementation ---------------------------------------------------
    for c, r in zip(cases, impl):
        kinds[c["kind"]] = kinds.get(c["kind"], 0) + 1
        small = {"suite": "sync", "case": {"kind": c["kind"], "nodes": c["nodes"], "ops": c["ops"], "dead": c.get("dead")}}
        if r.get("r") != "ok" or r.get("errors"):
            chk.violation("sync suite failed on a script: %s" % str(r)[:200], small, True)
            continue
        for d in r["dumps"]:
            for n in d["nodes"]:
                n_eval += 1
                if not cset_consistent(n):
                    chk.classify("cset-index", "client_instance_set is not the index of the registry by client id on node %d" % n["id"],
                                 dict(small, node=n))
                if any(not i["grpc"] for i in n["reg"]):
                    chk.classify("scope", "a non-gRPC instance appeared in a gRPC-only script", dict(small, node=n))
        if c["kind"] in ("converge", "stale", "lossy"):
            final = r["dumps"][-1]
            views = dict((n["id"], gview(n)) for n in final["nodes"])
            want = dict((k, [v[0], v[1], v[2]]) for k, v in expected_registry(c["ops"]).items())
            nontrivial.add((c["kind"], len(c["nodes"]), len(want), json.dumps(sorted(want))[:80]))
            for nid, gv in views.items():
                n_eval += 1
                if gv != want:
                    diff = sorted(set(gv) ^ set(want)) or [k for k in gv if gv[k] != want.get(k)]
                    rep = dict(small, node=nid, got=gv, want=want, keys=diff)
                    stale = (c["kind"] in ("stale", "lossy") and set(gv) == set(want)
                             and all(gv[k][:2] == want[k][:2] for k in gv))
                    if stale:
                        chk.classify("distro-diff-ignores-values",
                                     "after quiescence + one anti-entropy round node %d still answers the old payload of key(s) %s "
                                     "(update batch lost; the distro diff compares key sets only)" % (nid, diff), rep)
                    else:
                        chk.classify("converge", "after quiescence node %d answers %s, expected %s (keys %s)"
                                     % (nid, str(gv)[:120], str(want)[:120], diff), rep)
            if c["kind"] == "stale" and all(gv == want for gv in views.values()):
                chk.notes["stale_not_reproduced"] = True
        if c["kind"] == "rejoin-kill":
            x = c["dead"]
            before, after = r["dumps"][-2], r["dumps"][-1]
            held = dict((n["id"], [i for i in n["reg"] if i["client"][0] == x]) for n in before["nodes"])
            nontrivial.add(("rejoin-kill", len(c["nodes"]), x, c["rejoiner"], len(held.get(c["rejoiner"], []))))
            for n in after["nodes"]:
                if n["id"] != x:
                    n_eval += 1
                    left = [i for i in n["reg"] if i["client"][0] == x]
                    if left:
                        chk.classify("dead-node-clients", "node %d%s still holds instances of the dead node %d's clients: %s"
                                     % (n["id"], " (rejoined, fed by snapshots only)" if n["id"] == c["rejoiner"] else "", x, left[:3]),
                                     dict(small, node=n["id"]))
        if c["kind"] == "kill":
            d = c["dead"]
            live = [i for i in c["nodes"] if i != d]
            dumps = r["dumps"]
            # dumps: [quiescent, after kill, quiescent without d, after rejoin]
            after_kill, before_rejoin, after_rejoin = dumps[-3], dumps[-2], dumps[-1]
            for n in after_kill["nodes"]:
                if n["id"] in live:
                    n_eval += 1
                    left = [i for i in n["reg"] if i["client"][0] == d]
                    if left:
                        chk.classify("dead-node-clients", "node %d still holds instances of the dead node %d's clients: %s"
                                     % (n["id"], d, left), dict(small, node=n["id"]))
            k_ops = c["ops"]
            cut = max(j for j, o in enumerate(k_ops) if o[0] == "restart")
            want_b = dict((k, v) for k, v in expected_registry(k_ops[:cut]).items() if v[0] != d)
            for n in before_rejoin["nodes"]:
                if n["id"] in live:
                    n_eval += 1
                    if gview(n) != want_b:
                        chk.classify("converge", "without node %d, node %d answers %s, expected %s" % (d, n["id"], gview(n), want_b),
                                     dict(small, node=n["id"], got=gview(n), want=want_b))
            want_r = expected_registry(k_ops)
            nontrivial.add(("kill", len(c["nodes"]), d, len(want_b), json.dumps(sorted(want_r))[:80]))
            for n in after_rejoin["nodes"]:
                n_eval += 1
                if gview(n) != want_r:
                    chk.classify("rejoin", "after node %d rejoined, node %d answers %s, expected %s" % (d, n["id"], gview(n), want_r),
                                 dict(small, node=n["id"], got=gview(n), want=want_r))

    # ---- the real handle_naming_route (full in-process node) vs the transcription the scripts are delivered by
    n_route = 0
    n_route_events = 0
    for c, r in zip(cases, impl):
        rt = r.get("route") if r.get("r") == "ok" else None
        if not c.get("route_check") or rt is None:
            continue
        small = {"suite": "sync", "case": {"kind": c["kind"], "nodes": c["nodes"], "ops": c["ops"], "dead": c.get("dead"),
                                             "route_check": c["route_check"]}}
        if rt.get("panic") or "full" not in rt:
            chk.violation("route replay failed on a script: %s" % str(rt)[:200], small, True)
            continue
        n_route += 1
        n_eval += 1
        full, light = rt["full"], rt["light"]
        n_route_events += len(full.get("answers", []))
        b = c["route_check"]
        # property oracle on the full node: a peer this node has declared dead leaves no instance of its clients behind
        dead = [p[0] for p in full["peers"] if not p[1]]
        left = [i for i in full["reg"] if i["grpc"] and i["from"] in dead]
        if left:
            chk.classify("dead-node-clients", "full node %d (real handle_naming_route) still holds instances owned by connections of "
                         "node(s) %s it has declared dead: %s" % (b, dead, left[:3]), dict(small, node=b, full=full))
        # a full node remembers the metadata of an earlier registration of the same address ("priority metadata",
        # Service::instance_metadata_map, kept for instance_metadata_time_out) and serves it again after a
        # re-registration; the light nodes have no InstanceMetaManager.  Metadata is not among the fields C15 names
        # (address, health, enabled state, weight): the payload is compared by weight here.
        full = json.loads(re.sub(r'"w(\d+)m[^"]*etruehtrue"', r"\1", json.dumps(full)))
        light = json.loads(re.sub(r'"w(\d+)m[^"]*etruehtrue"', r"\1", json.dumps(light)))
        for fld in ("reg", "cset", "peers", "errors", "answers"):
            if full.get(fld) != light.get(fld):
                chk.violation("real handle_naming_route != the sync suite's transcription (%s of node %d after replaying its events): %s"
                              % (fld, b, lib.diff_first(light.get(fld), full.get(fld))),
                              dict(small, field=fld, transcription=light.get(fld), real=full.get(fld),
                                   correspondence="harness/src/suites/sync.rs deliver = naming::cluster::handle_naming_route"), bool(left))
                break
    chk.cov["route_replays"] = n_route
    chk.cov["route_replay_events"] = n_route_events

    # ---- model --------------------------------------------------------------------------------
    try:
        exprs = ["run_script %s [%s]" % (lib.coq_list(c["nodes"]), ";".join(coq_op(o) for o in c["ops"])) for c in cases]
        vals = lib.coq_eval_sharded("c15", HEADER, exprs, per=8)
    except RuntimeError as ex:
        chk.violation("model evaluation failed: %s" % str(ex)[:300], {"broken": "model evaluation", "log": str(ex)[-3000:]}, False)
        vals = None

    mism = 0
    if vals is not None:
        for c, r, m in zip(cases, impl, vals):
            if r.get("r") != "ok":
                continue
            md = [canon_dump_model(d) for d in m]
            rd = [canon_dump_impl(d) for d in r["dumps"]]
            n_eval += len(rd)
            if c["kind"] == "random":
                nontrivial.add(("random", json.dumps(rd[-1], sort_keys=True)[:300]))
            if md != rd:
                mism += 1
                which = next((j for j in range(min(len(md), len(rd))) if md[j] != rd[j]), -1)
                chk.violation("model != implementation (%s script, dump %d): %s"
                              % (c["kind"], which, lib.diff_first(md, rd)),
                              {"suite": "sync", "case": {"kind": c["kind"], "nodes": c["nodes"], "ops": c["ops"]},
                               "dump": which, "model": md[which] if 0 <= which < len(md) else None,
                               "impl": rd[which] if 0 <= which < len(rd) else None,
                               "correspondence": "Naming.Sync / Naming.SyncScript"}, False)

    # ---- verdicts on the multi-process scenarios -------------------------------------------------
    scen = {"runs": 0, "clean": 0, "known": 0, "inconclusive": 0, "retried": 0, "verdicts": {}}
    scen_samples = []
    if naming_future is not None:
        jobs, outs, one = naming_future.result()
        naming_pool.shutdown()
        for job, o in zip(jobs, outs):
            scen["runs"] += 1
            vs = naming_verdicts(o) if not o.get("errors") else []
            unexplained = [v for v in vs if v[0] in ("naming:list-error", "naming:no-observation") or
                           not (v[2].get("instance") and naming_explain(o, v[2]["instance"]))
                           and not (v[0] == "naming:nodes-differ")]
            if o.get("errors") or unexplained:
                # start-up trouble or a discrepancy no known mechanism explains: once more with doubled waits
                scen["retried"] += 1
                o2 = one(job, scale=2.0)
                vs2 = naming_verdicts(o2) if not o2.get("errors") else []
                un2 = [v for v in vs2 if not (v[2].get("instance") and naming_explain(o2, v[2]["instance"]))
                       and v[0] != "naming:nodes-differ"]
                if o2.get("errors") or not un2:
                    scen["inconclusive"] += 1
                    chk.notes.setdefault("naming_inconclusive", []).append(
                        {"fault": job[0], "seed": job[1], "first": [v[1][:160] for v in unexplained][:3] or o.get("errors"),
                         "second_errors": o2.get("errors")})
                    o, vs = o2, vs2
                    if o2.get("errors"):
                        continue
                else:
                    o, vs = o2, vs2
            n_eval += len(o.get("final") or {}) * (len(o.get("spec") or {}) + 8)
            nontrivial.add(("naming", o.get("fault"), o.get("victim"), len(o.get("history") or [])))
            svc_of = lambda nm: "/".join(nm.split("/")[:3])
            explained_svcs = set()
            for key, what, det in vs:
                inst = det.get("instance")
                mech = naming_explain(o, inst) if inst else None
                if mech:
                    explained_svcs.add(svc_of(inst))
            any_v = False
            for key, what, det in vs:
                inst = det.get("instance")
                mech = naming_explain(o, inst) if inst else None
                if key == "naming:nodes-differ":
                    # a list difference is attributed to the instances that differ
                    rows = det.get("rows") or {}
                    allrows = set(tuple(r) for v in rows.values() if isinstance(v, list) for r in v)
                    common = set.intersection(*[set(tuple(r) for r in v) for v in rows.values() if isinstance(v, list)]) if rows else set()
                    names = ["%s/%s/%d" % (det["service"], r[0], r[1]) for r in (allrows - common)]
                    mechs = [naming_explain(o, nm) for nm in names]
                    mech = mechs[0] if names and all(mechs) else None
                any_v = True
                scen["verdicts"][key] = scen["verdicts"].get(key, 0) + 1
                rep = {"scenario": "naming_converge", "fault": o.get("fault"), "seed": o.get("seed"), "scale": o.get("scale"),
                       "victim": o.get("victim"), "timeline": o.get("timeline"), "detail": det,
                       "history": [h for h in o.get("history", []) if not inst or h.get("inst") == inst.split("/")[:4] + [int(inst.split("/")[4])]][:40]}
                fkey = "http-sync-stale-state:%s" % mech if mech else key
                chk.classify(fkey, "[3 real processes, fault=%s] %s" % (o.get("fault"), what), rep)
            if any_v:
                scen["known"] += 1
            else:
                scen["clean"] += 1
            if len(scen_samples) < 4:
                scen_samples.append({"fault": o.get("fault"), "seed": o.get("seed"), "victim": o.get("victim"),
                                     "timeline": o.get("timeline"), "ops": len(o.get("history") or []),
                                     "verdicts": [v[1][:200] for v in vs][:4], "abandoned_left": o.get("abandoned_left"),
                                     "history_head": (o.get("history") or [])[:6]})
    chk.cov["traces_validated_against_impl"] = scen["runs"]
    chk.cov["naming_scenarios"] = scen

    if not proofs_ok:
        chk.violation("proof obligations of C15 no longer check: %s" % chk.proof_failure[:300],
                      {"broken": "theorem", "detail": chk.proof_failure}, False)

    chk.cov["evaluations"] = n_eval
    chk.cov["distinct_nontrivial"] = len(nontrivial)
    chk.cov["rule"] = ("operation scripts on 2..4 simulated nodes (real NamingActor + ClusterInstanceDelayNotifyActor + InnerNodeManage "
                       "+ ClusteSyncSender per node, sync traffic captured into per-pair FIFO queues): random scripts (register / "
                       "deregister / disconnect over gRPC, flush, anti-entropy send, deliver, drop; shared keys), convergence scripts "
                       "(one registering node per key, no loss, quiescence + one anti-entropy round), kill/rejoin scripts, the "
                       "lost-update scenario of the known finding. Evaluations = node dumps + per-node oracle verdicts + compared "
                       "dumps. Non-trivial = distinct final state (random) or distinct expected registry (oracle scripts).")
    chk.cov["samples"] = [{"kind": c["kind"], "nodes": c["nodes"], "ops": c["ops"][:40]} for c in (cases[0], cases[1], cases[-1])] + scen_samples
    chk.cov["input_distribution"] = dict(kinds, model_impl_mismatches=mism,
                                         ops_total=sum(len(c["ops"]) for c in cases),
                                         glue_hash=gh)
    chk.assumptions += [
        "scope: ephemeral instances registered over gRPC (non-empty client id); HTTP instances and persistent instances are not modelled",
        "client_instance_set = index of the registry by client id (C11), re-checked at every dump of every script",
        "per-pair FIFO delivery (ClusteSyncSender issues concurrent requests; reordering in flight is a runtime matter)",
        "quiescent_fixpoint: every key is registered through at most one node, payloads of commonly known keys agree (no lost "
        "update batch — see known finding distro-diff-ignores-values), every stored instance belongs to a client of a live node",
        "runtime-only: timers (500 ms flush, 3 s heartbeat, 12 s anti-entropy, 15 s failure detection), message loss/retry, process restarts",
    ]
