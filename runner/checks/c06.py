"""C06 — cluster: acknowledged config writes are never lost; all nodes converge."""
import json

import lib
import nodelib
import nodescen

TARGETS = ["Props/C06.v", "Cluster/Script.v"]

MANIFEST = dict(
    text="Proof of the glue that decides the answer: for every route (local/remote/unknown) and every failure of "
         "mailbox, rpc, parsing, sequence and client_write, an acknowledged publish/remove went through "
         "raft.client_write with an Ok answer and an uncommitted request is answered with an error; on top of the Raft "
         "interface (every node applies the committed log in order) every node serves the last write of the log, an "
         "acknowledged write is served or overwritten by a later entry, and a follower with temporary values settles "
         "on the log under a stated proviso (refuted without it: recorded finding). Correspondence: the real binary, "
         "1- and 3-process clusters on loopback, writes to arbitrary nodes, kill -9 / SIGSTOP / restart of a follower, "
         "checked against the sequential specification and the model's prediction.",
    note="PARTIAL: async-raft-ext (election, replication, commit) is trusted, not modelled; real fault timing, message "
         "delay and leader changes are only sampled by the multi-process runs; the proofs cover the answer chain and the "
         "log-to-served-content function. Trusted: Coq kernel, hand model (Cluster/Ack.v, Converge.v), node harness.",
    technique="Rocq proof of the ack chain + log refinement; multi-process correspondence on the real binary",
    design="3/C06",
)

HEADER = "From RN Require Import Base.Res Cluster.Ack Cluster.Converge Cluster.Script.\nOpen Scope N_scope.\n"


def judge_ack(chk, obs):
    """single node, close-write: every answered-with-success write must be visible"""
    steps = obs["steps"]
    closed = False
    bad = []
    for i, (op, key, val, res) in enumerate(steps):
        st, body = res
        if op == "close-write":
            closed = '"ok":1' in body.replace(" ", "")
            continue
        if op in ("publish", "delete") and st == 200 and body.strip() == "true":
            # acknowledged: the following get must show it
            nxt = steps[i + 1] if i + 1 < len(steps) else None
            if nxt and nxt[0] == "get" and nxt[1] == key:
                gst, gbody = nxt[3]
                ok = (gst == 200 and gbody == val) if op == "publish" else (gst == 404)
                if not ok:
                    bad.append({"step": i, "op": op, "key": key, "value": val, "answer": res, "then_get": nxt[3]})
    return closed, bad


def final_consistent(obs):
    """oracle for the cluster history; returns list of problems"""
    probs = []
    final = obs["final"]
    nodes = sorted(final)
    keys = sorted(final[nodes[0]])
    for k in keys:
        vals = {n: final[n].get(k) for n in nodes}
        if len(set(json.dumps(v) for v in vals.values())) != 1:
            probs.append({"kind": "divergent", "key": k, "values": vals})
    # acknowledged history per key
    for k in keys:
        kk = k.split("/", 1)[1]
        hist = [h for h in obs["history"] if h["key"] == kk]
        acked = [h for h in hist if h["status"] == 200 and h["body"].strip() == "true"]
        allowed = set()
        if acked:
            last = acked[-1]
            allowed.add(json.dumps(last["value"] if last["op"] == "pub" else None))
            later = [h for h in hist if h["i"] > last["i"]]
        else:
            allowed.add(json.dumps(None))
            later = hist
        for h in later:   # unacknowledged later writes may or may not have been committed
            allowed.add(json.dumps(h["value"] if h["op"] == "pub" else None))
        for n in nodes:
            if json.dumps(final[n].get(k)) not in allowed:
                probs.append({"kind": "lost-or-invented", "key": k, "node": n, "served": final[n].get(k),
                              "allowed": sorted(allowed), "last_acked": acked[-1] if acked else None})
    return probs


def run(chk, replay=None):
    tier = chk.tier
    rng = chk.rng
    proofs_ok = chk.proofs(TARGETS)
    if proofs_ok and tier == "thorough":
        chk.coqchk()
    ok, log, binary = nodelib.build_binary(repo=lib.REPO)
    if not ok:
        chk.violation("the r-nacos binary does not build", {"broken": "binary build", "log": log[-2000:]}, False)
        return
    n_eval = 0
    nontrivial = set()
    samples = []

    # ---- deterministic ack scenario ----------------------------------------------------
    obs = nodescen.scenario_ack(binary, rng)
    n_eval += 1
    closed, bad = judge_ack(chk, obs)
    samples.append({"scenario": "ack", "steps": obs["steps"][:6]})
    if not closed:
        chk.violation("close-write could not be switched on; the ack scenario is not decided",
                      {"scenario": "ack", "obs": obs}, False)
    for b in bad:
        chk.classify("ack-without-commit", "a write that could not be committed was answered with success: %s" % b,
                     {"scenario": "ack", "failing": b, "steps": obs["steps"]})
    nontrivial.add(("ack", closed))

    # ---- cluster histories ---------------------------------------------------------------
    faults = [None, "kill9", "sigstop"] if tier == "quick" else [None, "kill9", "sigstop", "restart"] * 4
    n_ops = 50 if tier == "quick" else 80
    model_exprs, model_expect = [], []
    for fi, fault in enumerate(faults):
        o = nodescen.scenario_cluster_writes(binary, rng, n_ops=n_ops, fault=fault)
        n_eval += 1
        nontrivial.add(("cluster", fault, fi))
        probs = final_consistent(o)
        for f in o.get("fatal", []):
            chk.classify("storage-fatal", "the Raft core of node %s was shut down by its storage layer: %s" % (f["node"], f["line"]),
                         {"scenario": "cluster_writes", "fault": fault, "fatal": f, "history": o["history"]})
        if o["errors"] and not probs:
            # a node that did not come back / join in time: liveness of the real cluster, retried once
            o2 = nodescen.scenario_cluster_writes(binary, rng, n_ops=n_ops, fault=fault)
            n_eval += 1
            probs = final_consistent(o2)
            if o2["errors"] and not probs:
                chk.notes.setdefault("inconclusive", []).append({"fault": fault, "errors": o2["errors"][:3]})
            o = o2
        for p in probs:
            chk.classify("cluster:%s" % p["kind"], "3-node history (fault=%s): %s" % (fault, json.dumps(p)[:300]),
                         {"scenario": "cluster_writes", "fault": fault, "problem": p, "history": o["history"], "final": o["final"]})
        if fi == 0:
            samples.append({"scenario": "cluster_writes", "fault": fault, "history": o["history"][:5]})
        # model prediction when every write was acknowledged
        if all(h["status"] == 200 for h in o["history"]):
            keys = sorted(set(h["key"] for h in o["history"]))
            kid = {k: i + 1 for i, k in enumerate(keys)}
            vid, log_terms = {}, []
            for h in o["history"]:
                if h["op"] == "pub":
                    vid.setdefault(h["value"], len(vid) + 1)
                    log_terms.append("WSet %d %d" % (kid[h["key"]], vid[h["value"]]))
                else:
                    log_terms.append("WDel %d" % kid[h["key"]])
            model_exprs.append("eval_log [%s] %s" % ("; ".join(log_terms), lib.coq_list([kid[k] for k in keys])))
            inv = {v: s for s, v in vid.items()}
            model_expect.append((o, keys, inv))
    # ---- leader-side pieces of the chain on a real in-process node (leading / not leading) ----------------
    ok_h, out_h = lib.harness_build()
    if not ok_h:
        chk.violation("harness does not build against /repo", {"broken": "harness build", "log": out_h[-2000:]}, False)
    else:
        acases = []
        for mode in ("leader", "other"):
            for j, op in enumerate(["async_add", "route_set", "cfgroute_set", "grpc_publish", "http_publish",
                                    "async_del", "route_del", "cfgroute_del", "grpc_remove", "http_delete"]):
                acases.append({"mode": mode, "op": op, "key": "a%d" % (j % 5), "value": "v%d-%d" % (j, rng.randrange(1000))})
        # a lagging follower: the node that does not lead has APPLIED an older value; publishing that very content
        # (or another one), or removing the key, through any entry point must not be acknowledged and must leave what it serves
        for j, op in enumerate(["grpc_publish", "http_publish", "cfgroute_set", "grpc_publish", "http_publish", "grpc_remove", "http_delete"]):
            stale = "stale-%d" % rng.randrange(1000)
            acases.append({"mode": "other", "op": op, "key": "p%d" % j, "preload": stale,
                           "value": stale if j < 3 else "new-%d" % rng.randrange(1000)})
        # the start-up race: an apply that reaches the state-machine actor before its dependencies are injected
        ba = lib.harness_run("ackchain", [{"mode": "bare_apply"}], timeout=60)[0]
        n_eval += 1
        if not ba.get("alive"):
            chk.classify("startup-race:apply-before-inject",
                         "StateApplyManager asked to apply an entry before its dependencies were injected answered %r and is dead "
                         "afterwards: a node started under load can never apply an entry again" % ba.get("first"),
                         {"suite": "ackchain", "case": {"mode": "bare_apply"}, "impl": ba})
        ares = lib.harness_run("ackchain", acases, timeout=180)
        if any(isinstance(r["answer"], dict) and "Mailbox has closed" in str(r["answer"]) for c, r in zip(acases, ares) if c["mode"] == "leader"):
            ares = lib.harness_run("ackchain", acases, timeout=180)     # actor start-up race of the in-process node: once more
        for c, r in zip(acases, ares):
            n_eval += 1
            nontrivial.add(("ackchain", c["mode"], c["op"]))
            acked_ = r["answer"] == "ok"
            is_add = c["op"].endswith(("set", "add", "publish"))
            if c["mode"] == "other" and c.get("preload") is not None and r["served"] != c["preload"]:
                chk.classify("uncommitted-served:%s" % c["op"],
                             "%s of %r on a node that does not lead (it had applied %r) was answered %s and the node now serves %r: "
                             "content that was never committed" % (c["op"], c["value"], c["preload"], r["answer"], r["served"]),
                             {"suite": "ackchain", "case": c, "impl": r})
            if c["mode"] == "other" and acked_:
                chk.classify("ack-without-commit:%s" % c["op"],
                             "%s on a node whose raft core is not the leader (client_write answers ForwardToLeader) was answered Ok "
                             "although nothing was committed (served: %s)" % (c["op"], r["served"]),
                             {"suite": "ackchain", "case": c, "impl": r})
            if c["mode"] == "leader":
                want = c["value"] if is_add else None
                if not acked_ or r["served"] != want:
                    chk.classify("leader-write:%s" % c["op"], "%s on the leading node answered %s and the node then serves %s (expected %s)"
                                 % (c["op"], r["answer"], r["served"], want), {"suite": "ackchain", "case": c, "impl": r})
        samples.append({"suite": "ackchain", "case": acases[6], "impl": ares[6]})
        chk.notes["ackchain"] = [[c["mode"], c["op"], "ok" if r["answer"] == "ok" else "err"] for c, r in zip(acases, ares)]

    # ---- no majority: both followers frozen, publish to the (first) leader, kill the leader ------------
    o = nodescen.scenario_no_majority(binary, rng)
    n_eval += 1
    nontrivial.add(("no_majority",))
    st, body = o["publish_without_majority"]
    if st == 200 and body.strip() == "true":
        lost = [n for n, (gst, gbody) in o["followers_serve"].items() if not (gst == 200 and gbody == "x")]
        what = ("a publish was acknowledged while BOTH followers were frozen (no majority, answered in %ss)%s"
                % (o["publish_s"], "; after kill -9 of the leader the surviving majority %s does not serve it: the acknowledged write is lost"
                   % lost if lost and o.get("new_leader") else ""))
        chk.classify("ack-without-majority:first-leader", what, {"scenario": "no_majority", "obs": o})
    samples.append({"scenario": "no_majority", "publish": o["publish_without_majority"], "followers": o.get("followers_serve")})

    # ---- stale leader: local routing, but client_write can no longer commit (ForwardToLeader) ----------
    for rep in range(1 if tier == "quick" else 4):
        o = nodescen.scenario_stale_leader(binary, rng)
        n_eval += 1
        nontrivial.add(("stale_leader", rep))
        if o.get("new_leader") is None:
            chk.notes.setdefault("inconclusive", []).append("no new leader was elected while the old one was frozen")
            continue
        for f in o.get("fatal", []):
            chk.classify("storage-fatal", "the Raft core of node %s was shut down by its storage layer: %s" % (f["node"], f["line"]),
                         {"scenario": "stale_leader", "fatal": f, "history": o["history"]})
        probs = final_consistent(o)
        if o["errors"] and not probs:
            chk.notes.setdefault("inconclusive", []).append({"scenario": "stale_leader", "errors": o["errors"][:3]})
        for p in probs:
            chk.classify("stale-leader:%s" % p["kind"], "writes sent to a deposed leader right after it was continued: %s" % json.dumps(p)[:300],
                         {"scenario": "stale_leader", "problem": p, "history": o["history"], "final": o["final"]})
        chk.notes.setdefault("stale_leader_answers", []).append(
            [[h["op"], h["status"]] for h in o["history"] if str(h.get("value", "")).startswith("stale") or (h["op"] == "del")])
        if rep == 0:
            samples.append({"scenario": "stale_leader", "history": o["history"][-4:]})

    # ---- writes received by a follower while the leader it routes to is frozen, then dead ----------------
    for rep in range(1 if tier == "quick" else 3):
        o = nodescen.scenario_routed_failures(binary, rng)
        n_eval += 1
        nontrivial.add(("routed_failures", rep))
        if o.get("new_leader") is None:
            chk.notes.setdefault("inconclusive", []).append("routed_failures: no new leader was elected after the leader was killed")
            continue
        for f in o.get("fatal", []):
            chk.classify("storage-fatal", "the Raft core of node %s was shut down by its storage layer: %s" % (f["node"], f["line"]),
                         {"scenario": "routed_failures", "fatal": f, "history": o["history"]})
        probs = final_consistent(o)
        if o["errors"] and not probs:
            chk.notes.setdefault("inconclusive", []).append({"scenario": "routed_failures", "errors": o["errors"][:3]})
        for p in probs:
            chk.classify("routed-failure:%s" % p["kind"],
                         "writes received by follower %s while the leader %s was frozen / dead: %s" % (o.get("follower"), o.get("leader"), json.dumps(p)[:300]),
                         {"scenario": "routed_failures", "problem": p, "history": o["history"], "final": o["final"],
                          "follower_serves_frozen": o.get("follower_serves_frozen"), "follower_serves_killed": o.get("follower_serves_killed")})
        chk.notes.setdefault("routed_failures_answers", []).append([[h["op"], h["key"], h["status"], h["body"][:20]] for h in o["history"][4:]])
        if rep == 0:
            samples.append({"scenario": "routed_failures", "history": o["history"][4:], "final": o["final"]})

    # the two worlds the harness can force, against the model of the answer chain
    model_exprs.append("eval_answer true (mkWorld (Some RLocal) true true true Fail true true)")
    model_exprs.append("eval_answer true (mkWorld (Some RLocal) true true true Succ true true)")
    try:
        vals = lib.coq_eval_sharded("c06", HEADER, model_exprs)
        for (o, keys, inv), v in zip(model_expect, vals):
            pred = [None if x == "None" else inv[x[1]] for x in v]
            for n, served in o["final"].items():
                got = [served.get("/" + k) for k in keys]
                if got != pred:
                    chk.violation("model != implementation (served content after a fully acknowledged history)",
                                  {"correspondence": "Cluster.Converge.run", "node": n, "model": pred, "impl": got,
                                   "history": o["history"]}, False)
        a_fail, a_succ = vals[-2], vals[-1]
        impl_fail_acked = any(s[0] == "publish" and s[3][0] == 200 and i > 2 for i, s in enumerate(obs["steps"]))
        if (a_fail[0] == "true") != impl_fail_acked and closed:
            chk.violation("model != implementation (answer of a publish whose client_write fails)",
                          {"correspondence": "Cluster.Ack.answer", "model": list(a_fail), "impl_acked": impl_fail_acked}, False)
        if a_succ[0] != "true" or obs["steps"][0][3][0] != 200:
            chk.violation("model != implementation (answer of an ordinary publish)",
                          {"correspondence": "Cluster.Ack.answer", "model": list(a_succ), "impl": obs["steps"][0]}, False)
    except RuntimeError as ex:
        chk.violation("model evaluation failed: %s" % str(ex)[:300], {"broken": "model evaluation", "log": str(ex)[-2000:]}, False)

    # recorded finding that the model exhibits (not reproduced end-to-end here: it needs the routed
    # response to lose a race against two replications; replayed at actor level by the C09/C10 checks)
    if chk.finding_key_known("tmp-overtake") is not None:
        chk.known_hits.append(("tmp-overtake", chk.finding_key_known("tmp-overtake")["what"]))

    if not proofs_ok:
        chk.violation("proof obligations of C06 no longer check: %s" % chk.proof_failure[:300],
                      {"broken": "theorem", "detail": chk.proof_failure}, False)
    chk.cov["evaluations"] = n_eval
    chk.cov["distinct_nontrivial"] = len(nontrivial)
    chk.cov["rule"] = ("(i) `ackchain` suite: ConfigAsyncCmd / handle_route / ConfigRoute (set and del) on a real in-process node that "
                       "leads and on one that does not (client_write answers ForwardToLeader); (ii) the real binary: single-node ack with "
                       "file-gated close-write; 3-node clusters with %d seeded writes/removes to arbitrary nodes and fault in %s on a "
                       "follower; no-majority scenario (both followers frozen, publish, kill -9 of the leader); leadership rotation, a "
                       "write pending in the elected leader when it is deposed, and a burst of writes (one key each) to the deposed leader; "
                       "all judged against the sequential spec of acknowledged writes. Non-trivial = distinct (scenario, fault/op, seed)."
                       % (n_ops, sorted(set(str(f) for f in faults))))
    chk.cov["samples"] = samples
    chk.cov["traces_validated_against_impl"] = n_eval
    chk.assumptions += ["async-raft-ext commits and replicates correctly (trusted; the no-majority scenario shows where this premise fails "
                        "on the real system: recorded finding ack-without-majority:first-leader)",
                        "w_raft_present: the ConfigActor's Weak<NacosRaft> upgrades (always injected by starter::config_factory)"]
