"""C07 — leader apply, follower replication and restart replay yield the same state."""
import copy
import json
import os
import shutil
import subprocess
import sys

import lib

TARGETS = ["Props/C07.v", "SM/DispatchScript.v"]

MANIFEST = dict(
    text="Theorems (Rocq) over ALL committed request sequences, ALL batchings of the follower path and ALL "
         "schedulings of the actors, generic in the actor handlers: the leader path, the follower batch path and the "
         "start-up replay leave every state-machine actor in the same state at quiescence "
         "(C07_same_sequence_same_state), the three 11-way dispatches agree up to the delivery mode "
         "(C07_tables_equal, kernel computation over tables REGENERATED from raftdata.rs on every run by "
         "translators/dispatch.py, which refuses unknown shapes), last_applied is tracked identically; instantiated "
         "with CONCRETE handlers (C07_same_state_config_seq): the ConfigActor store (builder E's model), "
         "SequenceDbManager and the TableManager rows end IDENTICAL on the three paths for every in-scope sequence "
         "(boolean scope: ConfigFullValue decodes through the modelled ConfigValueDO decoder, default tenant, no "
         "T_CACHE row). The two "
         "hypotheses (every ConfigFullValue decodes; no handler-to-handler forward) are shown necessary by refuted "
         "statements whose witnesses are replayed on the real actors. Model tied to the code by the translator and by "
         "a differential run: three fresh real RaftDataHandler/StateApplyManager nodes fed one random committed "
         "sequence through the three real paths, dumps compared with each other and with the model's per-actor verdict.",
    note="Trusted: Coq kernel+vm_compute, the translator (self-tested on mutated sources every run), harness/runner "
         "glue, actix FIFO mailboxes, async-raft-ext's handling of storage errors (leader continues after a "
         "non-shutdown apply error; any replicate_to_state_machine error is fatal). Known findings: "
         "C07:poison-fullvalue, C07:tcache-forward-race, C07:weak-namespace-order. Wall-clock dependent fields "
         "(cache TTL arithmetic, instance register time) are normalised by the harness.",
    technique="Rocq proof (invariant over mailbox worlds, induction on requests and batches) + translator-generated "
              "tables + model/implementation correspondence on the real actors",
    design="3/C07",
)

ACTORS = ["AIndex", "ASequence", "AConfig", "ATable", "ANamespace", "AMcp", "ANaming", "ACache"]
VARIANTS = ["NodeAddr", "Members", "ConfigSet", "ConfigFullValue", "ConfigRemove", "TableManagerReq",
            "NamespaceReq", "SequenceReq", "McpReq", "NamingReq", "CacheReq"]
# generator weights (printed in the evidence)
WEIGHTS = {"NodeAddr": 3, "Members": 3, "ConfigSet": 22, "ConfigFullValue": 6, "ConfigRemove": 8,
           "TableManagerReq": 14, "NamespaceReq": 10, "SequenceReq": 10, "McpReq": 8, "NamingReq": 8, "CacheReq": 8}

TREE_ACTOR = {"T_CONFIG": "AConfig", "T_SEQUENCE": "ASequence", "T_USER": "ATable", "T_CACHE": "ATable",
              "T_NAMESPACE": "ANamespace", "T_MCP_SERVER": "AMcp", "T_MCP_TOOL_SPEC": "AMcp",
              "T_NAMING_INSTANCE": "ANaming", "T_DIRECT_CACHE": "ACache"}


def run_translator(chk):
    out = os.path.join(lib.COQ, "Gen", "DispatchTables.v")
    js = os.path.join(lib.WORK, "tmp", "dispatch_%d.json" % os.getpid())
    rc, log = lib.sh([sys.executable, os.path.join(lib.VERIF, "translators", "dispatch.py"), lib.REPO, out, "--json", js],
                     timeout=120)
    if rc != 0:
        return None, log.strip()
    d = json.load(open(js))
    os.remove(js)
    return d, log.strip()


MUTATIONS = [
    # (name, file, old, new, expectation)
    ("new enum variant", "src/raft/store/mod.rs", "    ConfigRemove {\n        key: String,\n    },",
     "    ConfigRemove {\n        key: String,\n    },\n    ConfigTouch {\n        key: String,\n    },", "refuse"),
    ("follower arm sends to another actor", "src/raft/filestore/raftdata.rs", "self.namespace.do_send(req);",
     "self.table.do_send(req);", "refuse_or_differ"),
    ("replay arm drops a field", "src/raft/filestore/raftdata.rs",
     "                    op_time,\n                    op_user,\n                };\n                self.config.send(cmd).await.ok();",
     "                    op_time,\n                    op_user: None,\n                };\n                self.config.send(cmd).await.ok();",
     "refuse_or_differ"),
    ("extra statement in a follower arm", "src/raft/filestore/raftdata.rs",
     "                self.sequence_db.do_send(req);",
     "                log::info!(\"seq\");\n                self.sequence_db.do_send(req);", "refuse"),
    ("wildcard arm", "src/raft/filestore/raftdata.rs",
     "            ClientRequest::CacheReq { req } => {\n                self.direct_cache_manager.do_send(req);\n            }",
     "            _ => {}", "refuse"),
    ("leader arm stops awaiting", "src/raft/filestore/raftdata.rs",
     "                self.table.send(req).await??;\n                Ok(ClientResponse::Success)",
     "                self.table.do_send(req);\n                Ok(ClientResponse::Success)", "mode_change"),
    ("replay swaps history ids", "src/raft/filestore/raftdata.rs",
     "                    history_id,\n                    history_table_id,\n                    op_time,\n                    op_user,\n                };\n                self.config.send(cmd).await.ok();",
     "                    history_id: history_table_id.unwrap_or_default(),\n                    history_table_id,\n                    op_time,\n                    op_user,\n                };\n                self.config.send(cmd).await.ok();",
     "refuse_or_differ"),
]


def rows_same_dispatch(a, b):
    return all(a[k] == b[k] for k in ("variant", "binders", "prep", "actor", "ctor", "wiring"))


def translator_selftest():
    """mutated copies of the sources must be refused or yield tables that no longer agree"""
    sys.path.insert(0, os.path.join(lib.VERIF, "translators"))
    import dispatch as tr
    from rust_lex import Refuse
    root = os.path.join(lib.WORK, "tmp", "mut_%d" % os.getpid())
    res = []
    for name, rel, old, new, expect in MUTATIONS:
        shutil.rmtree(root, ignore_errors=True)
        for r in ("src/raft/store/mod.rs", "src/raft/filestore/raftdata.rs"):
            os.makedirs(os.path.dirname(os.path.join(root, r)), exist_ok=True)
            shutil.copyfile(os.path.join(lib.REPO, r), os.path.join(root, r))
        p = os.path.join(root, rel)
        src = open(p).read()
        if src.count(old) < 1:
            res.append((name, "anchor-missing", False))
            continue
        open(p, "w").write(src.replace(old, new, 1))
        try:
            enum, tables = tr.translate(root)
            differ = any(not rows_same_dispatch(a, b)
                         for t in ("follower", "replay")
                         for a in tables["leader"] for b in tables[t] if a["variant"] == b["variant"])
            modes = [r["mode"] for r in tables["leader"] if r["actor"] != "AIndex"]
            mode_change = any(m != "MAwaitErr" for m in modes)
            outcome = "differ" if differ else ("mode_change" if mode_change else "accepted-equal")
        except Refuse as ex:
            outcome = "refused"
        ok = (outcome == "refused" and expect in ("refuse", "refuse_or_differ")) or \
             (outcome == "differ" and expect == "refuse_or_differ") or (outcome == "mode_change" and expect == "mode_change")
        res.append((name, outcome, ok))
    shutil.rmtree(root, ignore_errors=True)
    return res


# ------------------------------------------------------------------ generators
def K(data_id, group, tenant=""):
    return data_id + "\x02" + group + ("\x02" + tenant if tenant else "")


class Gen:
    def __init__(self, rng, samples):
        self.rng = rng
        self.s = samples
        self.hid = 0
        self.t = 1700000000000

    def cfg_key(self):
        r = self.rng
        return K(r.choice(["d1", "d2", "d3", "app.yaml"]), r.choice(["g1", "DEFAULT_GROUP"]), r.choice(["", "", "t1", "t2"]))

    def one(self, v):
        r = self.rng
        s = self.s
        self.t += r.randrange(1, 1000)
        if v == "NodeAddr":
            return {"NodeAddr": {"id": r.randrange(1, 4), "addr": "127.0.0.1:98%02d" % r.randrange(0, 5)}}
        if v == "Members":
            return {"Members": sorted(r.sample([1, 2, 3], r.randrange(1, 4)))}
        if v == "ConfigSet":
            self.hid += 1
            return {"ConfigSet": {"key": self.cfg_key(), "value": r.choice(["a: 1", "b", "{\"x\":1}", "v%d" % r.randrange(50)]),
                                  "config_type": r.choice([None, "json", "yaml", "text", "weird"]),
                                  "desc": r.choice([None, "d"]), "history_id": self.hid,
                                  "history_table_id": r.choice([None, None, self.hid + 100]),
                                  "op_time": self.t, "op_user": r.choice([None, "u1"])}}
        if v == "ConfigFullValue":
            self.hid += 2
            c = "full-%d" % r.randrange(20)
            hs = [{"id": self.hid - 1, "content": "old", "last_time": self.t - 5, "op_user": None},
                  {"id": self.hid, "content": c, "last_time": self.t, "op_user": "u2"}][r.randrange(0, 2):]
            return {"$FullValue": {"key": self.cfg_key(), "content": c, "histories": hs, "config_type": r.choice([None, "json"]),
                                   "desc": None, "last_seq_id": r.choice([None, self.hid + 200])}}
        if v == "ConfigRemove":
            return {"ConfigRemove": {"key": self.cfg_key()}}
        if v == "TableManagerReq":
            tn = r.choice(["T_USER", "T_USER", "tb1"])
            key = list(r.choice([b"k1", b"k2", b"admin"]))
            op = r.choice(["Set", "Set", "Set", "Remove", "Drop", "NextId", "SetSeqId", "SetUseAutoId", "ReloadTable"])
            if op == "Set":
                return {"TableManagerReq": {"Set": {"table_name": tn, "key": key, "value": list(b"v%d" % r.randrange(9)),
                                                     "last_seq_id": r.choice([None, r.randrange(1, 50)])}}}
            if op == "Remove":
                return {"TableManagerReq": {"Remove": {"table_name": tn, "key": key}}}
            if op == "Drop":
                return {"TableManagerReq": {"Drop": tn}}
            if op == "NextId":
                return {"TableManagerReq": {"NextId": {"table_name": tn, "seq_step": r.choice([None, 10])}}}
            if op == "SetSeqId":
                return {"TableManagerReq": {"SetSeqId": {"table_name": tn, "last_seq_id": r.randrange(1, 90)}}}
            if op == "SetUseAutoId":
                return {"TableManagerReq": {"SetUseAutoId": {"table_name": tn, "value": [1]}}}
            return {"TableManagerReq": "ReloadTable"}
        if v == "NamespaceReq":
            nid = r.choice(["ns1", "ns2", "t1", "public", "__already_sync"])
            op = r.choice(["AddOnly", "Update", "Set", "Set", "Delete", "InitFromOldValue"])
            if op == "Delete":
                return {"NamespaceReq": {"Delete": {"id": nid}}}
            if op == "InitFromOldValue":
                return {"NamespaceReq": {"InitFromOldValue": r.choice([
                    "", "[{\"namespaceId\":\"ns2\",\"namespaceName\":\"ns-two\",\"type\":\"2\"}]",
                    "[{\"namespaceId\":\"ns9\",\"namespaceName\":\"nine\",\"type\":\"2\"},{\"namespaceId\":\"\",\"namespaceName\":\"public\",\"type\":\"0\"}]"])}}
            return {"NamespaceReq": {op: {"namespace_id": nid, "namespace_name": r.choice([None, "name-" + nid, "other"]),
                                          "type": r.choice([None, "2", "0"])}}}
        if v == "SequenceReq":
            key = r.choice(["seq1", "seq2", "MCP_SERVER_ID"])
            op = r.choice(["NextId", "NextId", "NextRange", "SetId", "RemoveId"])
            if op == "NextId":
                return {"SequenceReq": {"req": {"NextId": key}}}
            if op == "NextRange":
                return {"SequenceReq": {"req": {"NextRange": [key, r.choice([1, 10, 100])]}}}
            if op == "SetId":
                return {"SequenceReq": {"req": {"SetId": [key, r.randrange(1, 1000)]}}}
            return {"SequenceReq": {"req": {"RemoveId": key}}}
        if v == "McpReq":
            k = r.choice([x for x in s if x.startswith("McpReq/")])
            q = copy.deepcopy(s[k])
            return q
        if v == "NamingReq":
            k = r.choice([x for x in s if x.startswith("NamingReq/")])
            q = copy.deepcopy(s[k])
            body = q["NamingReq"]["req"]
            if "RemoveInstance" in body:
                body["RemoveInstance"]["port"] = r.choice([8080, 8081])
            else:
                p = list(body.values())[0]["param"]
                p["port"] = r.choice([8080, 8081])
                p["namespace_id"] = r.choice(["ns1", "", "t1"])
                # persistent instances are replicated with the health / weight / enabled state they had
                p["healthy"] = r.choice([True, True, False])
                p["weight"] = r.choice([1.0, 2.0, 0.5])
                p["enabled"] = r.choice([True, True, False])
            return q
        if v == "CacheReq":
            k = r.choice([x for x in s if x.startswith("CacheReq/") and "Limit" not in x])
            q = copy.deepcopy(s[k])
            return q
        raise ValueError(v)

    def sequence(self, n):
        vs = self.rng.choices(VARIANTS, weights=[WEIGHTS[v] for v in VARIANTS], k=n)
        return [self.one(v) for v in vs]


def variant_of(req):
    k = list(req.keys())[0]
    return "ConfigFullValue" if k == "$FullValue" else k


def batching(rng, n):
    kind = rng.randrange(6)
    if kind == 0:
        return [n]
    if kind == 1:
        return [1] * n
    if kind == 2:
        return []
    sizes = []
    left = n
    while left > 0:
        s = rng.choice([0, 1, 2, 3, 5, 8])
        sizes.append(s)
        left -= s
    return sizes


def tenant_of_key(key):
    parts = key.split("\x02")
    return parts[2] if len(parts) > 2 else ""


def req_class(q):
    """0 poison, 7 T_CACHE forward, 6 weak-namespace notification, 8 other (see SM/DispatchScript.v)"""
    v = variant_of(q)
    if v == "ConfigFullValue":
        if "ConfigFullValue" in q:
            if q["ConfigFullValue"]["value"] == [255, 255, 255]:
                return 0
            key = bytes(q["ConfigFullValue"]["key"]).decode("utf-8", "replace")
        else:
            key = q["$FullValue"]["key"]
        return 6 if tenant_of_key(key) not in ("", "public") else 8
    if v in ("ConfigSet", "ConfigRemove"):
        return 6 if tenant_of_key(q[v]["key"]) not in ("", "public") else 8
    if v == "NamingReq":
        body = q["NamingReq"]["req"]
        inner = list(body.values())[0]
        ns = inner.get("namespaceId") if "RemoveInstance" in body else inner["param"].get("namespace_id")
        return 6 if ns not in ("", "public", None) else 8
    if v == "TableManagerReq" and isinstance(q["TableManagerReq"], dict):
        op = list(q["TableManagerReq"].keys())[0]
        body = q["TableManagerReq"][op]
        if op in ("Set", "Remove") and isinstance(body, dict) and body.get("table_name") == "T_CACHE":
            return 7
    return 8


def abstract(case, leader_results=None):
    """(variant, 64 * number + 16 * handler_error + class) per request, for the model's trace instance;
    handler_error: the target actor's handler answered Err on the leader (observed; only used for the
    last_applied bookkeeping: `.await??` then skips SaveLastAppliedLog)"""
    out = []
    for i, q in enumerate(case["reqs"]):
        cl = req_class(q)
        err = 0
        if leader_results is not None and i < len(leader_results) and leader_results[i] == "err" and cl != 0:
            err = 1
        out.append((variant_of(q), 64 * (i + 1) + 16 * err + cl))
    return out


def coq_abs(ab):
    return "[" + ";".join("(V%s,%d%%nat)" % (v, c) for v, c in ab) + "]"


def coq_nats(xs):
    return "[" + ";".join(str(x) for x in xs) + "]%nat"


HEADER = ("From RN Require Import SM.Dispatch SM.DispatchInst SM.DispatchScript.\n"
          "From Coq Require Import NArith.\n")


def actor_views(dump):
    """split one node dump into per-actor comparable values"""
    snap = {}
    for r in dump.get("snapshot", []):
        t = r.get("tree")
        a = TREE_ACTOR.get(t, "ATable")
        if t == "T_SEQUENCE" and r.get("key") == "5345515f434f4e464947":   # SEQ_CONFIG belongs to config
            a = "AConfig"
        snap.setdefault(a, []).append(r)
    ns = dump.get("namespace", {})
    seqs = dump.get("sequences") or []
    return {
        "AIndex": [dump.get("index")],
        "ASequence": [[x for x in seqs if x[0] != "SEQ_CONFIG"], snap.get("ASequence")],
        "AConfig": [dump.get("config"), [x for x in seqs if x[0] == "SEQ_CONFIG"], snap.get("AConfig")],
        "ATable": [dump.get("table"), snap.get("ATable")],
        "ANamespace": [ns.get("sorted"), snap.get("ANamespace")],
        "AMcp": [dump.get("mcp"), snap.get("AMcp")],
        "ANaming": [dump.get("naming"), snap.get("ANaming")],
        "ACache": [dump.get("cache"), snap.get("ACache")],
    }, ns.get("order")


def run(chk, replay=None):
    tier = chk.tier
    rng = chk.rng
    tables, tlog = run_translator(chk)
    if tables is None:
        chk.violation("translators/dispatch.py refuses src/raft/filestore/raftdata.rs: %s" % tlog[:300],
                      {"broken": "translator dispatch.py", "log": tlog}, False)
    proofs_ok = chk.proofs(TARGETS)
    ok, out = lib.harness_build()
    if not ok:
        chk.violation("harness does not build against the repo", {"broken": "harness build", "log": out[-3000:]}, False)
        return
    env = {"RNVERIF_TMP": os.path.join(lib.WORK, "tmp")}
    samples = lib.harness_run("dispatch", [{"k": "samples"}], env=env)[0]["samples"]

    st = translator_selftest()
    chk.notes["translator_selftest"] = [{"mutation": n, "outcome": o, "as_expected": k} for n, o, k in st]
    for n, o, k in st:
        if not k:
            chk.violation("translator self-test: mutation '%s' gave '%s'" % (n, o), {"broken": "translator self-test", "mutation": n}, False)

    # ---- cases
    cases = []
    if replay:
        rp = json.load(open(replay))["replay"]
        if isinstance(rp, dict) and "case" in rp:
            cases.append(dict(rp["case"], cls="replay"))
    n_rand = 500 if tier == "quick" else 5000
    g = Gen(rng, samples)
    for i in range(n_rand):
        n = rng.choice([3, 6, 12, 25, 40])
        reqs = g.sequence(n)
        cases.append({"reqs": reqs, "batches": batching(rng, n), "via": rng.choice(["manager", "manager", "direct"]),
                      "between": rng.choice(["settle", "none"]), "cls": "random"})
    # every variant at least once in one long sequence, several batchings
    allv = [g.one(v) for v in VARIANTS for _ in range(3)]
    rng.shuffle(allv)
    for b in ([len(allv)], [1] * len(allv), [], [0, 4, 0, 9, 2]):
        cases.append({"reqs": allv, "batches": b, "via": "manager", "between": "none", "cls": "all-variants"})
    # a lagging follower: ONE replication batch of several hundred entries (and the same sequence cut at 128/129/257)
    for _ in range(2 if tier == "quick" else 12):
        long_reqs = g.sequence(rng.choice([300, 420]))
        for b in ([len(long_reqs)], [128, len(long_reqs) - 128], [129, 128, len(long_reqs) - 257]):
            cases.append({"reqs": long_reqs, "batches": b, "via": "manager", "between": "none", "cls": "long-batch"})
    # nasty class 1: poison ConfigFullValue (undecodable bytes) followed by other entries
    poison = {"ConfigFullValue": {"key": [97, 2, 98], "value": [255, 255, 255], "last_seq_id": None}}
    for k in range(6 if tier == "quick" else 60):
        tail = g.sequence(rng.choice([1, 2, 5]))
        pre = g.sequence(rng.choice([0, 1, 3]))
        reqs = pre + [poison] + tail
        b = rng.choice([[len(reqs)], [len(pre) + 1, len(tail)], [1] * len(reqs)])
        cases.append({"reqs": reqs, "batches": b, "via": rng.choice(["manager", "direct"]), "between": "settle", "cls": "poison"})
    # nasty class 2: T_CACHE table write + direct cache request on the same key in one batch
    tset = samples["TableManagerReq/Set@T_CACHE"]
    cset = samples["CacheReq/Set"]
    for k in range(4 if tier == "quick" else 40):
        pre = g.sequence(rng.choice([0, 2]))
        reqs = pre + [tset, cset]
        cases.append({"reqs": reqs, "batches": [len(reqs)], "via": rng.choice(["manager", "direct"]), "between": "settle", "cls": "tcache-forward"})
        cases.append({"reqs": reqs, "batches": [len(pre) + 1, 1], "via": "manager", "between": "settle", "cls": "tcache-forward-separated"})

    # nasty class 3: a weak-namespace notification (config in tenant t1) racing with NamespaceReq on t1
    nsset = {"NamespaceReq": {"Set": {"namespace_id": "t1", "namespace_name": "name-t1", "type": "2"}}}
    nsdel = {"NamespaceReq": {"Delete": {"id": "t1"}}}
    cfg_t1 = {"ConfigSet": {"key": K("w", "g", "t1"), "value": "w", "config_type": None, "desc": None, "history_id": 9001,
                            "history_table_id": None, "op_time": 1700000000001, "op_user": None}}
    cases.append({"reqs": [nsset, cfg_t1, nsdel], "batches": [1, 2], "via": "manager", "between": "settle", "cls": "weakns-witness"})
    cases.append({"reqs": [nsset, cfg_t1, nsdel], "batches": [1, 1, 1], "via": "manager", "between": "settle", "cls": "weakns-separated"})
    # designated witnesses of the two refuted statements (Props/C07.v)
    fresh = {"ConfigSet": {"key": K("x", "g"), "value": "vx", "config_type": None, "desc": None, "history_id": 1,
                           "history_table_id": None, "op_time": 1700000000000, "op_user": None}}
    cases.append({"reqs": [poison, fresh], "batches": [2], "via": "manager", "between": "settle", "cls": "poison-witness"})
    cases.append({"reqs": [tset, cset], "batches": [2], "via": "manager", "between": "settle", "cls": "tcache-witness"})

    impl = lib.harness_run_parallel("dispatch", [{k: v for k, v in c.items() if k != "cls"} for c in cases],
                                    shards=16, env=env, timeout=1800)

    # ---- model verdicts
    try:
        exprs = []
        for c, r in zip(cases, impl):
            ab = abstract(c, (r.get("leader") or {}).get("results") if r.get("r") == "ok" else None)
            exprs.append("(agree %s %s %s, in_scope %s, applied %s %s)" % (
                coq_abs(ab), coq_nats(c["batches"]), "true" if c.get("between", "settle") == "settle" else "false",
                coq_abs(ab), coq_abs(ab), coq_nats(c["batches"])))
        vals = lib.coq_eval_sharded("c07", HEADER, exprs, per=40)
    except RuntimeError as ex:
        chk.violation("model evaluation failed: %s" % str(ex)[:300], {"broken": "model evaluation", "log": str(ex)[-3000:]}, False)
        vals = None

    n_eval = 0
    nontrivial = set()
    var_count = {v: 0 for v in VARIANTS}
    cls_count = {}
    mism = 0
    order_only = 0
    witness = {}
    for ci, (c, r) in enumerate(zip(cases, impl)):
        n_eval += 1
        cls_count[c["cls"]] = cls_count.get(c["cls"], 0) + 1
        for q in c["reqs"]:
            var_count[variant_of(q)] += 1
        pub = {k: v for k, v in c.items() if k != "cls"}
        if r.get("r") != "ok":
            chk.violation("harness case failed: %s" % json.dumps(r)[:300], {"suite": "dispatch", "case": pub, "impl": r}, True)
            continue
        vl, ol = actor_views(r["leader"]["dump"])
        vf, of = actor_views(r["follower"]["dump"])
        vr, orr = actor_views(r["replay"]["dump"])
        impl_agree = [(vl[a] == vf[a], vl[a] == vr[a]) for a in ACTORS]
        if len(set(variant_of(q) for q in c["reqs"])) >= 3 and len(c["batches"]) != 1:
            nontrivial.add((tuple(variant_of(q) for q in c["reqs"]), tuple(c["batches"])))
        # ---- property oracle: the three nodes answer identically
        classes = set(req_class(q) for q in c["reqs"])
        bad = [a for a, (x, y) in zip(ACTORS, impl_agree) if not (x and y)]
        for a in bad:
            other = vf if not impl_agree[ACTORS.index(a)][0] else vr
            what = "%s state differs between the paths (%s): %s" % (a, c["cls"], lib.diff_first(vl[a], other[a]))
            if 0 in classes:
                key = "C07:poison-fullvalue"
            elif a == "ACache" and 7 in classes:
                key = "C07:tcache-forward-race"
            elif a == "ANamespace" and 6 in classes:
                key = "C07:weak-namespace-forward-race"
            else:
                key = "none"
            chk.classify(key, what, {"suite": "dispatch", "case": pub, "differs": bad})
        if not bad and (ol != of or ol != orr):
            order_only += 1
            chk.classify("C07:weak-namespace-forward-race" if 6 in classes else "none",
                         "namespace list ORDER differs between the paths (same set): %s vs %s" % (
                             [x["id"] for x in ol], [x["id"] for x in (of if ol != of else orr)]),
                         {"suite": "dispatch", "case": pub, "leader_order": ol, "follower_order": of, "replay_order": orr})
        if c["cls"].endswith("-witness"):
            want = {"poison-witness": "AConfig", "tcache-witness": "ACache", "weakns-witness": "ANamespace"}[c["cls"]]
            witness[c["cls"]] = (want in bad)
        # ---- model vs implementation
        if vals is not None:
            m_agree, m_scope, m_applied = vals[ci]
            m_agree = [(x == "true", y == "true") for x, y in m_agree]
            # the model's verdict "the paths agree on actor a" must hold on the real actors (the converse
            # is not demanded: different message orders need not lead to different states)
            unsound = [a for a, m, i in zip(ACTORS, m_agree, impl_agree) if (m[0] and not i[0]) or (m[1] and not i[1])]
            if c["cls"].endswith("-witness") and all(m == (True, True) for m in m_agree):
                unsound.append("model does not predict the designated divergence")
            if unsound:
                mism += 1
                chk.violation("model != implementation (model says the paths agree on %s, the real actors differ)" % unsound,
                    {"suite": "dispatch", "case": pub, "model": m_agree, "impl": impl_agree, "correspondence": "SM.Dispatch"}, False)
            if c["via"] == "manager":
                la, ls, (fa, fs) = m_applied   # Coq prints ((a, b), (c, d)) as (a, b, (c, d))
                il = r["leader"]["applied"]
                fl = r["follower"]["applied"]
                got = ((il["apply_manager_last_applied_log"], il["index_last_applied_log"]),
                       (fl["apply_manager_last_applied_log"], fl["index_last_applied_log"]))
                if got != ((la, ls), (fa, fs)):
                    mism += 1
                    chk.violation("model != implementation (last_applied bookkeeping): model %s impl %s" % (((la, ls), (fa, fs)), got),
                                  {"suite": "dispatch", "case": pub, "model": [[la, ls], [fa, fs]], "impl": got,
                                   "correspondence": "SM.Dispatch.leader_applied/follower_applied"}, False)

    if not proofs_ok:
        chk.violation("proof obligations of C07 no longer check: %s" % chk.proof_failure[:300],
                      {"broken": "theorem", "detail": chk.proof_failure}, False)

    chk.cov["evaluations"] = n_eval
    chk.cov["distinct_nontrivial"] = len(nontrivial)
    chk.cov["rule"] = ("seeded sequences over all 11 ClientRequest variants (weights below) x follower batchings {one batch, singletons, "
                       "none(=one trailing batch), random sizes incl. 0} x {via StateApplyManager, direct RaftDataHandler calls} x "
                       "{settle between batches, no settle}; nasty classes: undecodable ConfigFullValue, T_CACHE forward race. "
                       "Non-trivial = >= 3 distinct variants and more than one batch.")
    chk.cov["samples"] = [{k: v for k, v in cases[0].items()}, {k: v for k, v in cases[-1].items()}]
    chk.notes["refuted_witnesses_reproduced_on_real_actors"] = witness
    chk.cov["input_distribution"] = {"weights": WEIGHTS, "requests_per_variant": var_count, "cases_per_class": cls_count,
                                     "namespace_order_only_differences": order_only, "model_impl_mismatches": mism,
                                     "tables": "leader/follower/replay x %d variants regenerated" % (len(tables["enum"]) if tables else 0)}
    chk.assumptions += [
        "actix mailboxes are FIFO per actor; handlers are deterministic functions of (state, message)",
        "async-raft-ext: a non-shutdown error of apply_entry_to_state_machine is returned to that client only; an error of "
        "replicate_to_state_machine shuts the follower's Raft down (trusted, read in the vendored source)",
        "SaveLastAppliedLog only writes RaftIndexManager.last_applied_log, which no dispatch message reads",
        "in scope of the theorem: every ConfigFullValue decodes, no request triggers a handler-to-handler forward "
        "(T_CACHE table rows; weak-namespace notifications only affect the ORDER of the namespace list)",
    ]
