"""C14 — Distro ownership: each service has exactly one owner and routing agrees."""
import itertools
import json

import lib

TARGETS = ["Props/C14.v", "Naming/DistroScript.v"]

MANIFEST = dict(
    text="General theorem (ALL cluster sizes, all views without duplicate ids and with a live node, all hash values): "
         "exactly one live node considers itself the owner of a key and every live node routes the key to it "
         "(nth/filter/NoDup lemmas over a literal Gallina transcription of get_current_process_range / is_range / "
         "route_addr); the code before the repair is kept as a regression model with a vm_compute refutation and an "
         "exhaustive kernel sweep (sizes 1..5 x subsets x residues). Model tied to the code by a sweep of the real "
         "InnerNodeManage actor (liveness marked by the genuine check_node_status, once per run also by the genuine "
         "15 s timer), the real QueryOwnerRange answer, NodeManage::route_addr, ProcessRange::is_range and the "
         "DefaultHasher values of real service keys, for sizes 1..5 x all subsets down x all local ids x all residues, "
         "plus an independent oracle (exactly one live owner; routing target considers itself owner; the NamingActor "
         "holds the same range).",
    note="Trusted: Coq kernel+vm_compute, the hand transcription (checked by the correspondence sweep), harness/runner "
         "glue, the hook constructor that fills all_nodes like update_nodes does. DefaultHasher is an arbitrary "
         "key->u64 function for the model (values reported by the implementation). Runtime-only: between a status "
         "flip and the next 3 s heartbeat tick current_range and route_addr see different views.",
    technique="Rocq proof (general, list lemmas) + kernel sweep of the regression model + model/implementation "
              "correspondence sweep",
    design="3/C14",
)

HEADER = "From RN Require Import Naming.Distro Naming.DistroScript.\nOpen Scope N_scope.\n"
U64 = 1 << 64
LCM = 60        # lcm(1..5): a hash set covering all residues mod 60 covers all residues of every modulus 1..5


# ---------------------------------------------------------------- generators
def gen_keys(rng, n):
    ns = ["", "public", "dev", "ns-%d" % rng.randrange(1000)]
    groups = ["DEFAULT_GROUP", "g1", "grp-%d" % rng.randrange(1000)]
    out = []
    for i in range(n):
        name = "svc-%d-%s" % (i, "".join(rng.choice("abcdefghijklmnopqrstuvwxyz0123456789.-_") for _ in range(rng.randrange(1, 12))))
        out.append([rng.choice(ns), rng.choice(groups), name])
    return out


def covering_keys(rng, per_residue, modulus):
    """service keys whose real hash values cover every residue mod `modulus` (`per_residue` keys each)"""
    buckets = {}
    tries = 0
    while tries < 40:
        keys = gen_keys(rng, 40 * modulus)
        res = lib.harness_run("distro", [{"k": "hash", "keys": keys}])[0]["out"]
        for k, h in zip(keys, res):
            b = buckets.setdefault(h % modulus, [])
            if len(b) < per_residue:
                b.append((k, h))
        tries += 1
        if len(buckets) == modulus and all(len(b) >= per_residue for b in buckets.values()):
            break
    if len(buckets) != modulus:
        raise RuntimeError("could not cover all residues mod %d with real key hashes" % modulus)
    out = []
    for r in range(modulus):
        out += buckets[r]
    return out


def id_sets(rng, n, extra):
    """ascending id lists of size n: 1..n plus `extra` seeded ones (gaps, large u64 ids)"""
    sets = [list(range(1, n + 1))]
    for _ in range(extra):
        kind = rng.randrange(3)
        if kind == 0:
            s = sorted(rng.sample(range(1, 20), n))
        elif kind == 1:
            s = sorted(rng.sample(range(1, 1 << 32), n))
        else:
            s = sorted(set([U64 - 1 - rng.randrange(4) for _ in range(n)] + rng.sample(range(1, 1000), n)))[-n:]
        if s not in sets:
            sets.append(s)
    return sets


def effective_view(nodes, local):
    """the view the node really works with: update_nodes inserts the local node when missing, and
    nothing ever marks the local node invalid"""
    if not nodes:
        return []
    d = dict((i, v) for i, v in nodes)
    d[local] = True
    return sorted(d.items())


def coq_view(view):
    return "[" + ";".join("(%d,%s)" % (i, "true" if v else "false") for i, v in view) + "]"


def is_range_py(index, length, h):
    return length < 2 or h % length == index


# ---------------------------------------------------------------- canonical forms
def canon_route_model(r, local):
    if r == "RLocal0":
        return {"t": "local", "i": 0, "id": local}
    if r == "RPanic":
        return "panic"
    _, i, nid, is_local = r
    return {"t": "local" if is_local == "true" else "remote", "i": i, "id": nid}


def impl_range(r, timer=False):
    # in timer mode "range"/"stored" were captured before the wait: the live answer is QueryOwnerRange[0]
    if timer:
        return r["owner_ranges"][0] if r.get("owner_ranges") else None
    return r.get("range")


# ---------------------------------------------------------------- the check
def run(chk, replay=None):
    tier = chk.tier
    rng = chk.rng
    proofs_ok = chk.proofs(TARGETS)
    ok, out = lib.harness_build()
    if not ok:
        chk.violation("harness does not build against /repo", {"broken": "harness build", "log": out[-3000:]}, False)
        return

    max_n = 5 if tier == "quick" else 7
    modulus = LCM if tier == "quick" else 420      # lcm(1..7)
    per_res = 2 if tier == "quick" else 1
    keys_h = covering_keys(rng, per_res, modulus)
    keys = [k for k, _ in keys_h]
    hashes = [h for _, h in keys_h]

    # ---- the genuine liveness timer: every (view, local) of sizes 1..4 (quick) waits concurrently for the
    #      15 s silence + 3 s heartbeat of the started actors
    tkeys = keys[:: max(1, len(keys) // 24)]
    tviews = []
    for n in range(1, (4 if tier == "quick" else 5) + 1):
        ids = list(range(1, n + 1))
        for status in itertools.product([True, False], repeat=n):
            for local in ids:
                if not status[local - 1]:
                    continue
                tviews.append({"local": local, "nodes": [[i, s] for i, s in zip(ids, status)], "keys": tkeys, "naming": True})
    from concurrent.futures import ThreadPoolExecutor
    timer_pool = ThreadPoolExecutor(max_workers=1)
    timer_future = timer_pool.submit(lambda: lib.harness_run(
        "distro", [{"k": "views_timer", "wait_ms": 19000, "views": tviews}], timeout=300, tag="distro_timer_%d" % chk.seed)[0])

    # ---- view cases: sizes x id sets x all subsets down x all local ids (+ local missing from the list, + empty)
    cases = []
    if replay:
        rp = json.load(open(replay))["replay"]
        if isinstance(rp, dict) and isinstance(rp.get("case"), dict) and rp["case"].get("k") == "view":
            cases.append(rp["case"])
    # the recorded witness of the repaired defect always runs first
    for local in (2, 3):
        cases.append({"k": "view", "local": local, "nodes": [[1, False], [2, True], [3, True]], "keys": keys, "naming": True})
    for n in range(1, max_n + 1):
        for ids in id_sets(rng, n, 1 if tier == "quick" else 3):
            for status in itertools.product([True, False], repeat=n):
                nodes = [[i, s] for i, s in zip(ids, status)]
                for local in ids:
                    cases.append({"k": "view", "local": local, "nodes": nodes, "keys": keys, "naming": True})
            # the local node missing from the UpdateNodes list (update_nodes inserts it)
            for _ in range(2):
                status = [rng.random() < 0.6 for _ in ids]
                cands = [x for x in (0, ids[-1] + 1, ids[0] + 1, ids[-1] + 7) if x not in ids and x < U64]
                local = rng.choice(cands)
                cases.append({"k": "view", "local": local, "nodes": [[i, s] for i, s in zip(ids, status)],
                              "keys": keys, "naming": True})
    cases.append({"k": "view", "local": 4, "nodes": [], "keys": keys, "naming": True})

    impl = lib.harness_run_parallel("distro", cases)

    # ---- status flips: a live node is silent > 15 s (marked by the genuine check_node_status), pings again
    #      (genuine ActiveNode), the 3 s heartbeat passes again: every node must be back on the original view
    flip_cases = []
    for n in range(2, (4 if tier == "quick" else 5) + 1):
        ids = list(range(1, n + 1))
        for status in itertools.product([True, False], repeat=n):
            live_ids = [i for i, s in zip(ids, status) if s]
            if len(live_ids) < 2:
                continue
            nodes = [[i, s] for i, s in zip(ids, status)]
            for f in live_ids:
                for local in live_ids:
                    flip_cases.append({"k": "view", "local": local, "nodes": nodes, "keys": tkeys, "naming": True,
                                       "flips": [f] if local != f else [], "flip_group": f})
    impl_flip = lib.harness_run_parallel("distro", flip_cases)

    # ---- raw ProcessRange::is_range (degenerate len 0/1, huge values)
    ir_cases = []
    for _ in range(300 if tier == "quick" else 3000):
        length = rng.choice([0, 1, 2, 3, 4, 5, 7, rng.randrange(1, 1000), rng.getrandbits(64)])
        index = rng.choice([0, 1, 2, max(length - 1, 0), length, rng.randrange(0, max(length, 1) + 2)])
        hs = [rng.choice([0, 1, U64 - 1, rng.getrandbits(64), rng.randrange(0, 50), length, index]) for _ in range(12)]
        hs = [min(h, U64 - 1) for h in hs]
        ir_cases.append({"k": "is_range", "index": min(index, U64 - 1), "len": length, "hs": hs})
    impl_ir = lib.harness_run_parallel("distro", ir_cases)

    timer_res = timer_future.result()
    timer_pool.shutdown()

    n_eval = 0
    nontrivial = set()

    # ---- property oracle on the implementation (independent of the model) ----------------------
    def oracle(group, timer):
        """group: dict local -> (case, result) for ONE cluster view in which every listed local is live"""
        nonlocal n_eval
        any_case = next(iter(group.values()))[0]
        view = effective_view(any_case["nodes"], any_case["local"])
        live = [i for i, v in view if v]
        down = [i for i, v in view if not v]
        ks = any_case["keys"]
        for ki in range(len(ks)):
            n_eval += 1
            h = group[live[0]][1]["keys"][ki]["h"]
            owners = [m for m in live if group[m][1]["keys"][ki]["owner"]]
            targets = set(group[m][1]["keys"][ki]["route"]["id"] for m in live)
            if down and len(live) >= 2:
                nontrivial.add((tuple(view), h % len(live)))
            rep = {"suite": "distro", "case": dict(group[live[0]][0], keys=[ks[ki]]), "view": view, "hash": h,
                   "owners": owners, "route_targets": sorted(targets, key=str), "timer": timer,
                   "ranges": dict((str(m), impl_range(group[m][1], timer)) for m in live)}
            if len(owners) != 1:
                chk.classify("owner-count", "view %s hash %d (residue %d of %d): %d live nodes consider themselves owner (%s)"
                             % (view, h, h % len(live), len(live), len(owners), owners), rep)
            elif targets != {owners[0]}:
                chk.classify("route-vs-owner", "view %s hash %d: routed to %s but the owner is %s"
                             % (view, h, sorted(targets, key=str), owners[0]), rep)
        for m in live:
            c, r = group[m]
            rg = impl_range(r, timer)
            if len(view) >= 2 and r.get("naming_range") != rg:
                chk.classify("naming-range-stale", "view %s node %d: NamingActor works with range %s, node manager with %s"
                             % (view, m, r.get("naming_range"), rg),
                             {"suite": "distro", "case": dict(c, keys=c["keys"][:1]), "timer": timer,
                              "naming_range": r.get("naming_range"), "range": rg})

    groups = {}
    for c, r in zip(cases, impl):
        if r.get("r") != "ok":
            chk.violation("distro suite failed on a view: %s" % r, {"suite": "distro", "case": dict(c, keys=c["keys"][:2]), "impl": r}, True)
            continue
        view = effective_view(c["nodes"], c["local"])
        if not view:
            continue
        g = groups.setdefault(json.dumps(view), {})
        if c["local"] not in g or [list(x) for x in view] == c["nodes"]:
            g[c["local"]] = (c, r)     # prefer the case whose node list is literally the view
        for k in r["keys"]:
            if k["h"] != k["h2"]:
                chk.classify("hash-differs", "route_addr and update_instance hash the service key differently",
                             {"suite": "distro", "case": dict(c, keys=c["keys"][:1])})
        if not (r["range"] == r["stored"] == (r["owner_ranges"][0] if r["owner_ranges"] else None)):
            chk.classify("range-not-stored", "computed range %s, stored %s, QueryOwnerRange %s"
                         % (r["range"], r["stored"], r["owner_ranges"][:1]), {"suite": "distro", "case": dict(c, keys=[])})
    complete = 0
    for vk, g in groups.items():
        view = json.loads(vk)
        live = [i for i, v in view if v]
        if all(m in g for m in live):
            complete += 1
            oracle(g, False)
    # empty map: the node owns everything and routes to itself
    for c, r in zip(cases, impl):
        if not c["nodes"] and r.get("r") == "ok":
            for k in r["keys"]:
                n_eval += 1
                if not (k["owner"] and k["route"]["id"] == c["local"] and k["route"]["t"] == "local"):
                    chk.classify("empty-view", "node without cluster view does not own/route to itself", {"suite": "distro", "case": dict(c, keys=c["keys"][:1])})

    timer_groups = {}
    if timer_res.get("r") != "ok":
        chk.violation("timer run of the distro suite failed: %s" % str(timer_res)[:200], {"suite": "distro", "broken": "views_timer"}, False)
    else:
        for c, rb, ra in zip(tviews, timer_res["before"], timer_res["after"]):
            view = effective_view(c["nodes"], c["local"])
            got = [[x[0], x[3]] for x in ra["nodes"]]
            if got != [list(x) for x in view]:
                chk.classify("liveness-timer", "after 19 s of silence the node statuses are %s, expected %s" % (got, view),
                             {"suite": "distro", "case": dict(c, keys=[]), "mode": "views_timer"})
            if [x[3] for x in rb["nodes"]] != [True] * len(rb["nodes"]):
                chk.classify("liveness-timer", "a node was invalid before the time-out", {"suite": "distro", "case": dict(c, keys=[]), "mode": "views_timer"})
            timer_groups.setdefault(json.dumps(view), {})[c["local"]] = (c, ra)
        for vk, g in timer_groups.items():
            view = json.loads(vk)
            if all(m in g for m, v in view if v):
                oracle(g, True)

    flip_groups = {}
    for c, r in zip(flip_cases, impl_flip):
        if r.get("r") != "ok":
            chk.violation("distro suite failed on a flip case: %s" % r, {"suite": "distro", "case": dict(c, keys=c["keys"][:2]), "impl": r}, True)
            continue
        view = effective_view(c["nodes"], c["local"])
        got = [[x[0], x[3]] for x in r["nodes"]]
        if got != [list(x) for x in view]:
            chk.classify("flip-status", "after node %s was silent and pinged again the node statuses are %s, expected %s"
                         % (c["flip_group"], got, view), {"suite": "distro", "case": dict(c, keys=[])})
        flip_groups.setdefault((json.dumps(view), c["flip_group"]), {})[c["local"]] = (c, r)
    for (vk, f), g in flip_groups.items():
        view = json.loads(vk)
        if all(m in g for m, v in view if v):
            oracle(g, True)

    for c, r in zip(ir_cases, impl_ir):
        for h, b in zip(c["hs"], r["out"]):
            n_eval += 1
            nontrivial.add(("is_range", min(c["len"], 9), b))
            if b != is_range_py(c["index"], c["len"], h):
                chk.classify("is_range", "ProcessRange(%d,%d).is_range(%d) = %s" % (c["index"], c["len"], h, b),
                             {"suite": "distro", "case": dict(c, hs=[h])})

    # ---- model -------------------------------------------------------------------------------
    try:
        hs_coq = lib.coq_list(hashes)
        exprs = ["run_view %s %d hs" % (coq_view(effective_view(c["nodes"], c["local"])), c["local"]) for c in cases]
        exprs += ["run_is_range %d %d %s" % (c["index"], c["len"], lib.coq_list(c["hs"])) for c in ir_cases]
        thashes = [k["h"] for k in timer_res["after"][0]["keys"]] if timer_res.get("r") == "ok" and tviews else []
        exprs += ["run_view %s %d ths" % (coq_view(effective_view(c["nodes"], c["local"])), c["local"]) for c in tviews]
        fhashes = [k["h"] for k in impl_flip[0]["keys"]] if flip_cases and impl_flip[0].get("r") == "ok" else []
        exprs += ["run_view %s %d fhs" % (coq_view(effective_view(c["nodes"], c["local"])), c["local"]) for c in flip_cases]
        header = HEADER + "Definition hs := %s.\nDefinition ths := %s.\nDefinition fhs := %s.\n" % (
            hs_coq, lib.coq_list(thashes), lib.coq_list(fhashes))
        vals = lib.coq_eval_sharded("c14", header, exprs, per=60)
    except RuntimeError as ex:
        chk.violation("model evaluation failed: %s" % str(ex)[:300], {"broken": "model evaluation", "log": str(ex)[-3000:]}, False)
        vals = None

    mism = 0

    def compare_view(c, r, m, timer):
        nonlocal mism
        if r.get("r") != "ok":
            return
        # Coq prints ((i, len), l) as (i, len, l)
        mr, mk = ((m[0], m[1]), m[2]) if len(m) == 3 else m
        model = {"range": [mr[0], mr[1]],
                 "keys": [{"route": canon_route_model(x[0], c["local"]), "owner": x[1] == "true"} for x in mk]}
        im = {"range": impl_range(r, timer), "keys": [{"route": k["route"], "owner": k["owner"]} for k in r["keys"]]}
        if model != im:
            mism += 1
            chk.violation("model != implementation (view %s local %d%s): %s"
                          % (effective_view(c["nodes"], c["local"]), c["local"], ", timer" if timer else "", lib.diff_first(model, im)),
                          {"suite": "distro", "case": dict(c, keys=c["keys"][:3]), "model_range": model["range"],
                           "impl_range": im["range"], "correspondence": "Naming.Distro", "timer": timer}, False)

    if vals is not None:
        i = 0
        for c, r in zip(cases, impl):
            compare_view(c, r, vals[i], False)
            i += 1
            if r.get("r") == "ok":
                got = [[x[0], x[3]] for x in r["nodes"]]
                want = [list(x) for x in effective_view(c["nodes"], c["local"])] or [[c["local"], True]]
                if got != want:
                    mism += 1
                    chk.violation("node statuses %s differ from the intended view %s" % (got, want),
                                  {"suite": "distro", "case": dict(c, keys=[]), "correspondence": "view construction"}, False)
        for c, r in zip(ir_cases, impl_ir):
            m = [x == "true" for x in vals[i]]
            i += 1
            if m != r["out"]:
                mism += 1
                chk.violation("model != implementation (is_range %d %d)" % (c["index"], c["len"]),
                              {"suite": "distro", "case": c, "model": m, "impl": r["out"], "correspondence": "Naming.Distro.is_range"}, False)
        if timer_res.get("r") == "ok":
            for c, r in zip(tviews, timer_res["after"]):
                compare_view(c, r, vals[i], True)
                i += 1
        else:
            i += len(tviews)
        for c, r in zip(flip_cases, impl_flip):
            compare_view(c, r, vals[i], True)
            i += 1

    if not proofs_ok:
        chk.violation("proof obligations of C14 no longer check: %s" % chk.proof_failure[:300],
                      {"broken": "theorem", "detail": chk.proof_failure}, False)

    chk.cov["evaluations"] = n_eval
    chk.cov["distinct_nontrivial"] = len(nontrivial)
    chk.cov["rule"] = ("sizes 1..%d x id sets {1..n, seeded gaps/large ids} x ALL subsets down x ALL local ids (the local flag is "
                       "ignored by the code: every node sees itself valid), plus local-missing-from-list and the empty map; "
                       "%d real service keys whose DefaultHasher values cover every residue mod %d; raw is_range triples incl. "
                       "len 0/1 and 2^64-1; %d (view, local) pairs through the genuine 15 s liveness timer. Non-trivial = "
                       "(view with a node down and >= 2 live, residue) pair, or is_range (len class, outcome)."
                       % (max_n, len(keys), modulus, len(tviews)))
    wi = next((j for j, c in enumerate(cases) if c["local"] == 3), 0)
    chk.cov["samples"] = [dict(cases[wi], keys=keys[:2]), dict(cases[len(cases) // 2], keys=keys[:2]), ir_cases[0],
                          dict(tviews[len(tviews) // 2], keys=tkeys[:1])]
    chk.cov["input_distribution"] = {
        "view_cases": len(cases), "cluster_views_with_all_live_locals": complete, "keys_per_view": len(keys),
        "is_range_cases": len(ir_cases), "timer_view_cases": len(tviews), "timer_cluster_views": len(timer_groups),
        "views_with_node_down": sum(1 for vk in groups if any(not v for _, v in json.loads(vk))),
        "model_impl_mismatches": mism,
    }
    chk.assumptions += [
        "DefaultHasher is an arbitrary function key -> u64 for the model; the hash values are the ones computed by the implementation "
        "(get_hash_value and route_addr are checked to hash a ServiceKey identically)",
        "view = content of all_nodes (BTreeMap, ascending ids); the local node's status is always Valid",
        "u64 -> usize casts are lossless (64-bit target)",
        "runtime-only: current_range is refreshed by the 3 s heartbeat, route_addr reads statuses live; within one tick after a "
        "status flip they may be computed from different views",
    ]
