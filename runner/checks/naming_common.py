"""Shared machinery of the naming-registry checks (C11, C12, C13): case generators for the `naming`
harness suite, translation of cases to Coq terms (Naming/Script.v), canonical forms of the two
dumps, and the property oracles that are independent of the model."""
import json

import lib

HEADER = ("From RN Require Import Base.Res Base.AMap Naming.Service Naming.Filter Naming.Actor Naming.Script.\n"
          "Open Scope N_scope.\n")

CFG = {"h": 300, "i": 600, "s": 1000, "m": 2000, "n": 10000, "t0": 1000000}

TAG_ALL = [True, True, True, True, False]
TAG_BEAT = [False, False, False, False, False]
SERVICE_POOL = [(1, 1, 1), (1, 1, 2), (1, 2, 1), (2, 1, 1)]
KEY_POOL = [0, 1, 2, 8, 9]
GRPC_CLIENTS = [1, 2, 3]


# ------------------------------------------------------------------ case -> Coq
def cb(b):
    return "true" if b else "false"


def c_skey(k):
    return "(%d,%d,%d)" % tuple(k)


def c_inst(i):
    return "(mkInst %d %d %s %s %s %d 0 %s %d %d)" % (
        i["k"], i["w"], cb(i["en"]), cb(i["he"]), cb(i["ep"]), i["md"], cb(i["fg"]), i["fc"], i["cl"])


def c_tag(t):
    if t is None:
        return "None"
    return "(Some (mkTag %s %s %s %s %s))" % tuple(cb(x) for x in t)


def c_thr(q):
    return "None" if q is None else "(Some (%d,4))" % q


def c_list(xs):
    return "[" + ";".join(xs) + "]"


def c_op(op):
    n = op[0]
    if n == "upd":
        return "OpUpdate %s %s %s %s" % (c_skey(op[1]), c_inst(op[2]), c_tag(op[3]), cb(op[4]))
    if n == "batch":
        return "OpBatch " + c_list("(%s,%s)" % (c_skey(k), c_inst(i)) for k, i in op[1])
    if n == "del":
        return "OpDelete %s %d %d" % (c_skey(op[1]), op[2]["k"], op[2]["cl"])
    if n == "delbatch":
        return "OpDeleteBatch " + c_list("(%s,%d,%d)" % (c_skey(k), i["k"], i["cl"]) for k, i in op[1])
    if n in ("rmclient", "rmclient_cluster"):
        return "OpRemoveClient %d" % op[1]
    if n == "rmclients":
        return "OpRemoveClients " + c_list(str(c) for c in op[1])
    if n == "tick":
        return "OpTick %d" % op[1]
    if n == "check":
        return "OpTimeCheck"
    if n == "clear":
        return "OpClearEmpty"
    if n == "clearmeta":
        return "OpClearMeta"
    if n == "rmsvc":
        return "OpRemoveService " + c_skey(op[1])
    if n in ("svc", "svc_cluster"):
        return "OpUpdateService %s %s" % (c_skey(op[1]), c_thr(op[2]))
    if n == "range":
        return "OpRange %d %d" % (op[1], op[2])
    if n == "sniff":
        return "OpSniff %d %s %s" % (op[1], c_list(c_skey(k) for k in op[2]), cb(op[3]))
    if n == "raft":
        return "OpRaftUpdate %s %s" % (c_skey(op[2]), c_inst(op[3]))
    if n == "raftrm":
        return "OpRaftRemove %s %d" % (c_skey(op[1]), op[2])
    if n == "diff":
        return "OpDiff " + c_list("(%d,%s)" % (c, c_list("(%s,%d)" % (c_skey(k), ik) for k, ik in ks)) for c, ks in op[2])
    if n == "snap":
        return "OpSnapshot %s %s" % (c_list("(%s,%s)" % (c_skey(k), c_thr(q)) for k, q in op[1]),
                                      c_list("(%s,%s)" % (c_skey(k), c_inst(i)) for k, i in op[2]))
    if n in ("qlist", "qstr"):
        return "OpQList %s %s" % (c_skey(op[1]), cb(op[2]))
    if n == "qinfo":
        return "OpQInfo %s %s" % (c_skey(op[1]), cb(op[2]))
    if n == "qall":
        return "OpQAll " + c_skey(op[1])
    if n == "qone":
        return "OpQOne %s %d" % (c_skey(op[1]), op[2])
    if n == "qpage":
        return "OpQPage " + ("None" if op[1] is None else "(Some %d)" % op[1])
    if n == "qsvc":
        return "OpQSvc " + c_skey(op[1])
    if n == "qclients":
        return "OpQClients"
    raise ValueError("unknown op " + n)


def c_cfg(cfg):
    return "(mkCfg %d %d %d %d)" % (cfg["h"], cfg["i"], cfg["s"], cfg["m"])


def c_hash(tbl):
    return "(hash_of %s)" % c_list("(%s,%d)" % (c_skey(k), h) for k, h in tbl)


def model_expr(case, hashes, fn="run_dump", steps=None):
    """[steps]: the implementation's results; needed only when the case has a small per-round budget
    (cfg n < 10000): the model's budgeted time check takes the iteration order of service_map, which is
    read from the state dumped before the tick"""
    n = case["cfg"].get("n", 10000)
    ops = []
    for ix, o in enumerate(case["ops"]):
        if o[0] == "check" and n < 10000:
            order = steps[ix - 1]["st"]["order"] if (steps and ix > 0) else []
            ops.append("OpTimeCheckB %d %s" % (n, c_list(c_skey(k) for k in order)))
        else:
            ops.append(c_op(o))
    return "%s %s %s (actor_init %d) %s" % (fn, c_cfg(case["cfg"]), c_hash(hashes), case["cfg"]["t0"], c_list(ops))


# ------------------------------------------------------------------ canonical forms
def tb(x):
    return x == "true"


def m_inst(t):
    k, w, en, he, ep, rest = t
    md, lm, fg, fc, cl = rest
    return {"k": k, "w": w, "en": tb(en), "he": tb(he), "ep": tb(ep), "md": md, "lm": lm, "fg": tb(fg), "fc": fc, "cl": cl}


def m_opt(v):
    if v == "None":
        return None
    return v[1]


def canon_model_state(d):
    svcs, clients, index, rest = d
    empty, metaset, rng, now = rest
    services = []
    for n_, g_, s_, sizes, insts, perp, tail in svcs:
        sk = (n_, g_, s_)
        meta, hset, uset, thr, last_empty = tail
        services.append({
            "map_key": list(sk), "key": list(sk), "size": sizes[0], "hsize": sizes[1],
            "instances": sorted(({"mk": k, "i": m_inst(i)} for k, i in insts), key=lambda x: x["mk"]),
            "perpetual": sorted(perp),
            "meta_map": sorted([k, m] for k, m in meta),
            "hset": sorted([t, k] for t, k in hset),
            "uset": sorted([t, k] for t, k in uset),
            "thr4": thr[0] * 4 // thr[1] if thr[1] else -1,
            "last_empty": last_empty,
        })
    services.sort(key=lambda s: s["map_key"])
    isize, nss = index
    r = m_opt(rng)
    return {
        "services": services,
        "clients": sorted([c, sorted(list(fk) for fk in ks)] for c, ks in clients),
        "index": {"size": isize, "ns": sorted([n, sz, sorted([g, sorted(ss)] for g, ss in groups)] for n, sz, groups in nss)},
        "empty_set": sorted([t, list(k)] for t, k in empty),
        "meta_set": sorted([t, list(fk)] for t, fk in metaset),
        "range": list(r) if r is not None else None,
    }


def canon_impl_state(st):
    s = json.loads(json.dumps(st))
    s.pop("order", None)
    for sv in s["services"]:
        sv["hset"] = sorted(sv["hset"])
        sv["uset"] = sorted(sv["uset"])
        sv["meta_map"] = sorted(sv["meta_map"])
    s["empty_set"] = sorted(s["empty_set"])
    s["meta_set"] = sorted(s["meta_set"])
    s["index"]["ns"] = sorted([n, sz, sorted([g, sorted(ss)] for g, ss in groups)] for n, sz, groups in s["index"]["ns"])
    s["clients"] = sorted([c, sorted(ks)] for c, ks in s["clients"])
    return s


def host_view(i, full=True):
    """fields of an instance that queries are compared on (timestamps never compared across sides,
    but the logical clock makes last_modified deterministic, so it is kept)"""
    if full:
        return dict(i)
    return {k: i[k] for k in ("k", "w", "en", "he", "ep", "md")}


def canon_model_out(o, opname):
    if o == "DOk":
        return "ok"
    if o == "DErr":
        return "err"
    h = o[0]
    if h == "DHosts":
        hosts = sorted((m_inst(x) for x in o[1]), key=lambda x: x["k"])
        if opname == "qstr":
            hosts = [host_view(x, False) for x in hosts]
        return {"hosts": hosts}
    if h == "DInfo":
        return {"hosts": sorted((m_inst(x) for x in o[1]), key=lambda x: x["k"]), "reach": tb(o[2])}
    if h == "DOne":
        v = m_opt(o[1])
        return "none" if v is None else {"i": m_inst(v)}
    if h == "DPage":
        return {"size": o[1], "list": sorted([g_, s_, a, b] for n_, g_, s_, a, b in o[2])}
    if h == "DSvc":
        v = m_opt(o[1])
        return "none" if v is None else {"size": v[0], "hsize": v[1]}
    if h == "DCounts":
        return {"counts": sorted([c, n] for c, n in o[1])}
    if h == "DDiff":
        return {"new": sorted(list(fk) for fk in o[1])}
    raise ValueError("unknown model output %r" % (o,))


def canon_impl_out(o, opname):
    if isinstance(o, dict):
        o = json.loads(json.dumps(o))
        if "list" in o and opname == "qpage":
            o["list"] = sorted(o["list"])
        if "new" in o:
            o["new"] = sorted(o["new"])
        if "counts" in o:
            o["counts"] = sorted(o["counts"])
    return o


# ------------------------------------------------------------------ generators
def mk_inst(k, w=1, en=True, he=True, ep=True, md=0, fg=False, fc=0, cl=0):
    return {"k": k, "w": w, "en": en, "he": he, "ep": ep, "md": md, "fg": fg, "fc": fc, "cl": cl}


def rand_tag(rng):
    r = rng.random()
    if r < 0.3:
        return list(TAG_ALL)
    if r < 0.4:
        return None
    if r < 0.55:     # console update
        return [rng.random() < 0.5, rng.random() < 0.7, rng.random() < 0.5, rng.random() < 0.5, True]
    return [rng.random() < 0.5, rng.random() < 0.5, rng.random() < 0.5, rng.random() < 0.5, False]


def grpc_tag(i):
    return [i["w"] != 1, True, not i["en"], False, False]


def in_scope_inst(i):
    """domain on which the model is claimed faithful AND which real callers produce: an instance that
    is not from gRPC has an empty client id (HTTP handlers never set one; the '<node>_G' assignment is
    commented out in cluster/route.rs and cluster/mod.rs)"""
    return i["fg"] or i["cl"] == 0


def op_instances(op):
    n = op[0]
    if n == "upd":
        return [op[2]]
    if n in ("batch", "delbatch"):
        return [i for _, i in op[1]]
    if n == "del":
        return [op[2]]
    if n == "raft":
        return [op[3]]
    if n == "snap":
        return [i for _, i in op[2]]
    return []


def in_scope_case(case):
    return all(in_scope_inst(i) for op in case["ops"] for i in op_instances(op))


class Gen:
    def __init__(self, rng, services=None, keys=None, clients=None):
        self.rng = rng
        self.services = services or rng.sample(SERVICE_POOL, rng.choice([1, 2, 2, 3]))
        self.keys = keys or rng.sample(KEY_POOL, rng.choice([2, 3, 3, 4]))
        self.clients = list(clients or GRPC_CLIENTS)
        self.remote = [11, 12]          # gRPC connections of another node (synced instances)
        self.next_id = 20

    def sk(self):
        return list(self.rng.choice(self.services))

    def key(self):
        return self.rng.choice(self.keys)

    def http_inst(self, persistent_p=0.2):
        r = self.rng
        return mk_inst(self.key(), w=r.choice([1, 1, 2, 3]), en=r.random() < 0.85, he=True,
                       ep=r.random() >= persistent_p, md=r.choice([0, 0, 1, 2]))

    def grpc_inst(self, persistent_p=0.2):
        r = self.rng
        return mk_inst(self.key(), w=r.choice([1, 1, 2]), en=r.random() < 0.9, he=r.random() < 0.9,
                       ep=r.random() >= persistent_p, md=r.choice([0, 1, 3]), fg=True, fc=0, cl=r.choice(self.clients))

    def sync_inst(self):
        """an instance as another node sends it (after reset_cluster_info)"""
        r = self.rng
        if r.random() < 0.5:
            i = self.http_inst()
        else:
            i = self.grpc_inst()
            i["cl"] = r.choice(self.remote)       # clients of the other node
        i["fc"] = r.choice([2, 2, 3])
        i["he"] = r.random() < 0.85
        return i

    def op(self):
        r = self.rng
        x = r.random()
        if x < 0.16:
            return ["upd", self.sk(), self.http_inst(), rand_tag(r), False]
        if x < 0.24:
            i = self.http_inst(0.1)
            return ["upd", self.sk(), i, list(TAG_BEAT), False]
        if x < 0.36:
            i = self.grpc_inst()
            return ["upd", self.sk(), i, grpc_tag(i), False]
        if x < 0.42:
            return ["upd", self.sk(), self.sync_inst(), None, False]              # SyncUpdateInstance
        if x < 0.46:
            i = self.http_inst()
            i["fc"] = 2
            return ["upd", self.sk(), i, rand_tag(r), True]                       # routed, UpdateFromSync
        if x < 0.50:
            return ["batch", [[self.sk(), self.sync_inst()] for _ in range(r.randrange(1, 4))]]
        if x < 0.54:
            i = self.http_inst(0.8)
            return ["raft", r.choice(["reg", "upd"]), self.sk(), i]
        if x < 0.56:
            return ["raftrm", self.sk(), self.key()]
        if x < 0.64:
            cl = r.choice([0, 0] + self.clients + self.remote[:1])
            i = mk_inst(self.key(), fg=cl != 0, cl=cl)
            return ["del", self.sk(), i]
        if x < 0.66:
            return ["delbatch", [[self.sk(), mk_inst(self.key(), fg=True, cl=r.choice(self.clients + self.remote), fc=2)]
                                 for _ in range(r.randrange(1, 3))]]
        if x < 0.71:
            return [r.choice(["rmclient", "rmclient", "rmclient_cluster"]), r.choice(self.clients + self.remote[:1])]
        if x < 0.72:
            return ["rmclients", [r.choice(self.clients + self.remote) for _ in range(2)]]
        if x < 0.80:
            return ["tick", r.choice([1, 50, 100, 150, 299, 300, 301, 599, 600, 601, 1000, 2000])]
        if x < 0.87:
            return ["check"]
        if x < 0.90:
            return ["clear"]
        if x < 0.91:
            return ["clearmeta"]
        if x < 0.925:
            return ["rmsvc", self.sk()]
        if x < 0.945:
            return [r.choice(["svc", "svc_cluster"]), self.sk(), r.choice([None, 0, 1, 2, 3, 4])]
        if x < 0.955:
            return ["range", 0, 1] if r.random() < 0.5 else ["range", r.randrange(0, 2), 2]
        if x < 0.965:
            return ["sniff", self.key(), [self.sk() for _ in range(r.randrange(1, 3))], r.random() < 0.5]
        if x < 0.975:
            cls = r.sample(self.remote + self.clients, r.randrange(1, 3))
            data = []
            for c in cls:
                ks = []
                for _ in range(r.randrange(0, 3)):
                    e = [self.sk(), self.key()]
                    if e not in ks:
                        ks.append(e)
                data.append([c, ks])
            return ["diff", 2, data]
        if x < 0.985:
            return ["snap", [[self.sk(), r.choice([None, 1, 2])]], [[self.sk(), self.sync_inst()] for _ in range(r.randrange(0, 3))]]
        return self.query()

    def query(self):
        r = self.rng
        x = r.random()
        if x < 0.3:
            return ["qlist", self.sk(), r.random() < 0.5]
        if x < 0.45:
            return ["qstr", self.sk(), r.random() < 0.5]
        if x < 0.7:
            return ["qinfo", self.sk(), r.random() < 0.5]
        if x < 0.8:
            return ["qall", self.sk()]
        if x < 0.85:
            return ["qone", self.sk(), self.key()]
        if x < 0.9:
            return ["qpage", r.choice([None, 1, 2, 3])]
        if x < 0.95:
            return ["qsvc", self.sk()]
        return ["qclients"]

    def retire(self, op):
        """a connection id is not reused after its RemoveClient: replace removed ids by fresh ones"""
        ids = [op[1]] if op[0] in ("rmclient", "rmclient_cluster") else list(op[1]) if op[0] == "rmclients" else []
        for c in ids:
            for pool in (self.clients, self.remote):
                if c in pool:
                    pool[pool.index(c)] = self.next_id
                    self.next_id += 1

    def observe_all(self):
        """the observations of the property: per service the full list and the reported counters"""
        ops = []
        for k in self.services:
            ops.append(["qall", list(k)])
            ops.append(["qsvc", list(k)])
        ops.append(["qpage", None])
        ops.append(["qclients"])
        return ops

    def hash_ops(self):
        return [["hash", list(k)] for k in SERVICE_POOL]


def random_case(rng, nops, dump="all"):
    g = Gen(rng)
    ops = [g.op() for _ in range(nops)]
    return {"cfg": dict(CFG), "ops": ops + g.observe_all(), "dump": dump, "services": [list(k) for k in g.services]}


def hash_case():
    return {"cfg": dict(CFG), "ops": [["hash", list(k)] for k in SERVICE_POOL], "dump": "end"}


def get_hashes():
    r = lib.harness_run("naming", [hash_case()])[0]
    return [(list(k), int(s["out"]["hash"])) for k, s in zip(SERVICE_POOL, r["steps"])]


# ------------------------------------------------------------------ oracles (independent of the model)
def oracle_c11_state(st):
    """bookkeeping of one dumped state; returns list of (key, what)"""
    bad = []
    svc_keys = []
    by_key = {}
    for s in st["services"]:
        sk = tuple(s["map_key"])
        svc_keys.append(sk)
        by_key[sk] = s
        insts = [e["i"] for e in s["instances"]]
        if s["map_key"] != s["key"]:
            bad.append(("service-key", "service stored under %s calls itself %s" % (s["map_key"], s["key"])))
        if any(e["mk"] != e["i"]["k"] for e in s["instances"]):
            bad.append(("instance-key", "instance stored under a key that is not its own address in %s" % (sk,)))
        if s["size"] != len(insts):
            bad.append(("instance_size", "service %s: instance_size=%s but %d instances" % (sk, s["size"], len(insts))))
        nh = sum(1 for i in insts if i["he"])
        if s["hsize"] != nh:
            bad.append(("healthy_instance_size", "service %s: healthy_instance_size=%s but %d healthy instances" % (sk, s["hsize"], nh)))
        perp = sorted(i["k"] for i in insts if not i["ep"])
        if s["perpetual"] != perp:
            bad.append(("perpetual_host_set", "service %s: perpetual_host_set=%s but non-ephemeral keys=%s" % (sk, s["perpetual"], perp)))
    listed = []
    nsum = 0
    for n, sz, groups in st["index"]["ns"]:
        cnt = 0
        if not groups:
            bad.append(("namespace_index", "namespace %s listed with no group" % n))
        for g, ss in groups:
            if not ss:
                bad.append(("namespace_index", "group %s/%s listed with no service" % (n, g)))
            for s in ss:
                listed.append((n, g, s))
                cnt += 1
        if cnt != sz:
            bad.append(("namespace_index", "namespace %s: service_size=%s but %d services listed" % (n, sz, cnt)))
        nsum += cnt
    if st["index"]["size"] != nsum:
        bad.append(("namespace_index", "index service_size=%s but %d services listed" % (st["index"]["size"], nsum)))
    if sorted(listed) != sorted(svc_keys) or len(set(listed)) != len(listed):
        bad.append(("namespace_index", "index lists %s, service map has %s" % (sorted(listed), sorted(svc_keys))))
    for c, keys in st["clients"]:
        if len(set(map(tuple, keys))) != len(keys):
            bad.append(("client_instance_set", "client %s: duplicate keys" % c))
        for n, g, s, ik in keys:
            sv = by_key.get((n, g, s))
            inst = None
            if sv is not None:
                for e in sv["instances"]:
                    if e["mk"] == ik:
                        inst = e["i"]
            if inst is None:
                bad.append(("client_instance_set:missing", "client %s records %s which does not exist" % (c, (n, g, s, ik))))
            elif inst["cl"] != c:
                bad.append(("client_instance_set:owner", "client %s records %s which belongs to client %s" % (c, (n, g, s, ik), inst["cl"])))
    return bad


def oracle_c11_drop(prev, cur):
    """services dropped between two consecutive states had no instances"""
    bad = []
    now_keys = set(tuple(s["map_key"]) for s in cur["services"])
    for s in prev["services"]:
        if tuple(s["map_key"]) not in now_keys and s["instances"]:
            bad.append(("service-dropped", "service %s dropped while it had %d instances" % (s["map_key"], len(s["instances"]))))
    return bad


def oracle_c11_observed(case, steps):
    """reported counters (QueryServiceOnly / QueryServiceInfoPage / QueryClientInstanceCount) against
    the instance lists returned by QueryAllInstanceList at the end of the case"""
    bad = []
    ops = case["ops"]
    lists = {}
    svc = {}
    page = None
    counts = None
    n_obs = 2 * len(case["services"]) + 2
    for op, st in list(zip(ops, steps))[-n_obs:]:
        if op[0] == "qall":
            lists[tuple(op[1])] = st["out"]["hosts"]
        elif op[0] == "qsvc":
            svc[tuple(op[1])] = st["out"]
        elif op[0] == "qpage":
            page = st["out"]
        elif op[0] == "qclients":
            counts = st["out"]
    for k, hosts in lists.items():
        o = svc.get(k)
        if o == "none":
            if hosts:
                bad.append(("observed", "service %s not reported but lists %d instances" % (k, len(hosts))))
            continue
        nh = sum(1 for i in hosts if i["he"])
        if o["size"] != len(hosts) or o["hsize"] != nh:
            bad.append(("observed-count", "service %s reports %s/%s, lists %d/%d" % (k, o["size"], o["hsize"], len(hosts), nh)))
    if page is not None and page != "err":
        listed = [(e[0], e[1]) for e in page["list"]]
        if page["size"] != len(page["list"]):
            bad.append(("observed-page", "page size %s but %d entries" % (page["size"], len(page["list"]))))
    return bad
