"""C13 — ephemeral HTTP instances expire without heartbeats, never while heart-beating (partial)."""
import json

import lib
from checks import naming_common as nc

TARGETS = ["Props/C13.v", "Naming/Script.v", "Naming/Examples.v"]

MANIFEST = dict(
    text="Logical-clock theorems about the NamingActor model (time-out sets keyed by last_modified, re-validation on firing, "
         "is_enable_timeout): never_expired_while_beating (one tick, and over ALL interleavings of clock advances, heartbeats, time "
         "checks and traffic on other addresses in which each check is < health time-out after the last beat), "
         "unhealthy_only_after_silence, removed_only_after_silence, persistent_and_grpc_never_expired, expires_after_silence "
         "(first tick >= last_modified+health marks unhealthy, a later tick >= last_modified+instance removes, under the invariant "
         "armed = every healthy instance under the clock has its (last_modified,key) entry queued), armed_step/armed_reachable "
         "(that invariant is preserved by every op whose cluster-synced updates satisfy sync_ok), update_arms, refresh_rearms "
         "(take-over, after the repair; the old code's failure kept as a refuted regression statement); the per-round budget "
         "once_time_check_size modelled literally with the service-map iteration order as a parameter: "
         "budget_never_drops_due_entries (every service is handled completely or left untouched, for ANY order and budget), "
         "budget_first_visited, budget_incomplete_costs (a round cut short handled >= budget keys), budget_complete_is_time_check, "
         "budget_rounds_bound (budget * rounds cut short <= 2|healthy set|+|unhealthy set| during silence).  Tied to the code by "
         "running the REAL NamingActor with the cfg(rnacos_verif) logical clock and hooked 300/600 ms time-outs against the model "
         "(full state incl. both time-out sets after every op), an independent timing oracle, and a small wall-clock run.",
    note="PARTIAL: proved for the logical clock of one node. Runtime only (sampled, not proved): wall-clock jitter of the 2 s driver "
         "(instance_time_out_heartbeat is not started in the harness; PeekListenerTimeout is sent explicitly, a few real-sleep "
         "cases with 300/600 ms check the un-hooked clock path) and cross-node propagation of an expiry ('then everywhere'). "
         "Known finding C13:sync-into-own-range-unarmed (not repaired): an instance arriving by a from_sync path (UpdateFromSync / "
         "UpdateBatch / ReceiveSnapshot) for a service in this node's own range is stored as locally owned but never queued, so it "
         "does not expire until a heartbeat arrives; excluded from armed_step by sync_ok, refuted witness in Props/C13.v. Instances "
         "REGISTERED unhealthy are outside expires_after_silence (HTTP handlers always register healthy=true). The HashMap iteration "
         "order of service_map is read from the implementation's dump before each budgeted tick and passed to the model (like the "
         "DefaultHasher values); the budget oracle (complete-or-untouched, cut-short-only-after-budget, potential decrease, "
         "starvation bound) is order-independent. now < time-out (negative i64 -> u64 cast) is not modelled: observation in the "
         "evidence notes (the real code drains every queued entry unhandled); excluded by cfg_ok.",
    technique="Rocq proof (per-key characterisation of time_check, invariants, induction over histories) + model/implementation "
              "correspondence with a logical clock + sampled wall-clock run",
    design="3/C13",
)

H, I = nc.CFG["h"], nc.CFG["i"]


def enabled(i):
    return i["ep"] and not i["fg"] and i["fc"] == 0


def all_instances(state):
    return {(tuple(s["map_key"]), e["mk"]): e["i"] for s in state["services"] for e in s["instances"]}


def touched_keys(op):
    """addresses an op may write, with the way it writes them"""
    n = op[0]
    if n == "upd":
        return [((tuple(op[1]), op[2]["k"]), "sync" if op[4] else "direct")]
    if n == "batch":
        return [((tuple(k), i["k"]), "sync") for k, i in op[1]]
    if n == "snap":
        return [((tuple(k), i["k"]), "sync") for k, i in op[2]]
    if n == "raft":
        return [((tuple(op[2]), op[3]["k"]), "sync")]
    return []


def in_range(op, sk, hashes):
    idx, ln = op[1], op[2]
    if ln < 2:
        return True
    h = dict((tuple(k), v) for k, v in hashes).get(tuple(sk), 0)
    return h % ln == idx


def svc_actions(svc, now):
    """number of keys one Service::time_check pushes to its two result lists (what the per-round budget
    counts), recomputed from the dumped service alone"""
    insts = {e["mk"]: dict(e["i"]) for e in svc["instances"]}
    n = 0
    for t, k in svc["uset"]:
        if t <= now - I:
            i = insts.get(k)
            if i is None or (enabled(i) and i["lm"] <= now - I):
                n += 1
                insts.pop(k, None)
    for t, k in svc["hset"]:
        if t <= now - H:
            i = insts.get(k)
            if i is None or (enabled(i) and i["lm"] <= now - H):
                n += 1
                if i is not None:
                    i["he"] = False
    return n


def svc_due(svc, now):
    return any(t <= now - H for t, _ in svc["hset"]) or any(t <= now - I for t, _ in svc["uset"])


def potential(state):
    return sum(2 * len(s["hset"]) + len(s["uset"]) for s in state["services"])


def budget_oracle(prev_state, cur_state, now, budget, ix):
    """one round of the driver: every service is handled completely or left untouched (no due entry is
    dropped), a round is cut short only after `budget` keys were handled, and the potential
    2*|healthy set| + |unhealthy set| drops by at least the number of handled keys.
    Returns (violations, set of service keys that were left untouched although work was due)"""
    bad = []
    cur = {tuple(s["map_key"]): s for s in cur_state["services"]}
    handled = 0
    deferred = set()
    for s in prev_state["services"]:
        sk = tuple(s["map_key"])
        after = cur.get(sk)
        if after is None:
            bad.append(("service-vanished", "service %s vanished on a tick" % (sk,), ix))
            continue
        same = all(after[f] == s[f] for f in ("instances", "hset", "uset", "size", "hsize"))
        if same and svc_due(s, now):
            deferred.add(sk)
            continue
        if same:
            continue
        handled += svc_actions(s, now)
        left_h = [e for e in after["hset"] if e[0] <= now - H]
        left_u = [e for e in s["uset"] if e[0] <= now - I and e in after["uset"]
                  and after["uset"].count(e) >= s["uset"].count(e)]
        if left_h or left_u:
            bad.append(("due-entry-left", "service %s was handled by the tick but due entries remain queued: healthy %s unhealthy %s"
                        % (sk, left_h, left_u), ix))
    if deferred and handled < budget:
        bad.append(("round-cut-short", "services %s with due entries were left out although only %d keys (< budget %d) were handled"
                    % (sorted(deferred), handled, budget), ix))
    if potential(cur_state) + handled > potential(prev_state):
        bad.append(("potential", "2*|healthy set|+|unhealthy set| went from %d to %d while %d keys were handled"
                    % (potential(prev_state), potential(cur_state), handled), ix))
    return bad, deferred


def timing_oracle(case, steps, hashes):
    """safety and liveness of the heartbeat clock, from the implementation's dumps and the logical
    times only.  Returns list of (key, what, op index)."""
    bad = []
    prev = {}
    last_write = {}   # address -> "direct" | "sync"
    marked = set()    # addresses marked unhealthy by a tick (not registered unhealthy)
    taken = set()     # HTTP addresses synced from another node whose service this node took over
    budget = case["cfg"].get("n", 10000)
    prev_state = {"services": []}
    waiting = 0       # consecutive rounds that left due work out
    phi_start = 0
    owned = {}        # address -> gRPC connection that registered it here (from the op log alone)
    for ix, (op, st) in enumerate(zip(case["ops"], steps)):
        now = st["now"]
        cur_state = nc.canon_impl_state(st["st"])
        cur = all_instances(cur_state)
        deferred = set()
        # history-only ownership: an ephemeral instance registered by a LIVE gRPC connection of this node stays that
        # connection's instance whatever HTTP / console writes touch it afterwards; it is never under the heartbeat clock
        if op[0] == "upd" and not op[4]:
            key, i = (tuple(op[1]), op[2]["k"]), op[2]
            if i["fg"] and i["cl"] and i["fc"] == 0 and i["ep"] and key in cur:
                owned[key] = i["cl"]
            elif key in owned and not i["ep"]:
                # an HTTP write that NAMES the instance persistent (even when its tag leaves the stored flag alone) ends the
                # connection's ownership in r-nacos: not judged by this rule any further
                owned.pop(key, None)
        elif op[0] == "del":
            owned.pop((tuple(op[1]), op[2]["k"]), None)
        elif op[0] == "rmclient":
            for key in [k for k, c in owned.items() if c == op[1]]:
                owned.pop(key)
        elif op[0] not in ("tick", "check", "qlist", "qall", "range", "upd"):
            for key, _how in touched_keys(op):
                owned.pop(key, None)           # overwritten by a sync path: judged by the state-based rules only
        if op[0] == "check":
            for key, c in owned.items():
                v, after = prev.get(key), cur.get(key)
                if v is not None and (after is None or (v["he"] and not after["he"])):
                    bad.append(("grpc-owned-expired", "instance %s, registered by the live gRPC connection %s and never deregistered, was %s by "
                                "the heartbeat clock" % (key, c, "removed" if after is None else "marked unhealthy"), ix))
        if op[0] == "check":
            b, deferred = budget_oracle(prev_state, cur_state, now, budget, ix)
            bad += b
            if deferred and waiting == 0:
                phi_start = potential(prev_state)
            waiting = waiting + 1 if deferred else 0
            # budget * (rounds cut short) <= potential at the start of the streak (C13_budget_rounds_bound); writes in between
            # only add to the potential, so the streak bound is re-based on every registration / heartbeat
            if deferred and budget > 0 and waiting > phi_start // budget + 1:
                bad.append(("starved", "due work left out for %d consecutive rounds (potential %d at the start, budget %d)" %
                            (waiting, phi_start, budget), ix))
        elif touched_keys(op) and waiting:
            phi_start = potential(cur_state) + waiting * budget
        for key, how in touched_keys(op):
            last_write[key] = how
            marked.discard(key)
            taken.discard(key)
        if op[0] == "range":
            for key, v in prev.items():
                if not v["fg"] and v["fc"] != 0 and in_range(op, key[0], hashes):
                    last_write[key] = "direct"       # taken over: the node responsible for it from now on
                    taken.add(key)
                    if not v["he"]:
                        marked.add(key)
        if op[0] == "check":
            for key, v in prev.items():
                if key[0] in deferred:
                    continue            # the whole service waits for a later round (judged by budget_oracle)
                after = cur.get(key)
                age = now - v["lm"]
                if key in taken and v["ep"] and not v["fg"] and v["fc"] != 0 and v["he"] and age >= H and after is not None and after["he"]:
                    bad.append(("taken-over-never-expires", "instance %s taken over from node %s, silent for %d ms (>= %d), is still healthy "
                                "after a tick" % (key, v["fc"], age, H), ix))
                if not enabled(v):
                    if after != v:
                        bad.append(("not-under-clock", "instance %s (ephemeral=%s grpc=%s cluster=%s) changed by the heartbeat clock" %
                                    (key, v["ep"], v["fg"], v["fc"]), ix))
                    continue
                if age < H and after != v:
                    bad.append(("expired-while-beating", "instance %s modified %d ms ago (< %d) was %s" %
                                (key, age, H, "removed" if after is None else "marked unhealthy"), ix))
                if after is None and age < I:
                    bad.append(("removed-early", "instance %s removed %d ms after its last modification (< %d)" % (key, age, I), ix))
                if after is not None and after != v and (dict(after, he=True) != dict(v, he=True) or after["he"]):
                    bad.append(("changed", "instance %s changed other than being marked unhealthy" % (key,), ix))
                # liveness
                if v["he"] and age >= H and after is not None and after["he"]:
                    how = last_write.get(key, "direct")
                    bad.append(("sync-into-own-range-unarmed" if how == "sync" else "not-marked-unhealthy",
                                "instance %s silent for %d ms (>= %d) is still healthy after a tick (last write: %s)" % (key, age, H, how), ix))
                if (not v["he"]) and key in marked and age >= I and after is not None:
                    bad.append(("not-removed", "unhealthy instance %s silent for %d ms (>= %d) survived a tick" % (key, age, I), ix))
                if v["he"] and after is not None and not after["he"]:
                    marked.add(key)
            for key in cur:
                if key not in prev:
                    bad.append(("appeared", "instance %s appeared on a tick" % (key,), ix))
        prev = cur
        prev_state = cur_state
    return bad


# ---------------------------------------------------------------- generators
def timing_case(rng):
    g = nc.Gen(rng, services=rng.sample(nc.SERVICE_POOL, rng.choice([1, 2])), keys=rng.sample(nc.KEY_POOL, rng.choice([2, 3, 4])))
    ops = []
    for _ in range(rng.choice([20, 30, 40])):
        x = rng.random()
        if x < 0.22:
            ops.append(["tick", rng.choice([1, 50, 100, 149, 150, 151, 299, 300, 301, 450, 599, 600, 601])])
        elif x < 0.42:
            ops.append(["check"])
        elif x < 0.60:      # HTTP registration / heartbeat
            i = g.http_inst(0.1)
            ops.append(["upd", g.sk(), i, rng.choice([list(nc.TAG_ALL), list(nc.TAG_BEAT), list(nc.TAG_BEAT), nc.rand_tag(rng)]), False])
        elif x < 0.66:
            i = g.grpc_inst(0.1)
            ops.append(["upd", g.sk(), i, nc.grpc_tag(i), False])
        elif x < 0.72:      # synced from another node (remotely owned)
            ops.append(["upd", g.sk(), g.sync_inst(), None, False])
        elif x < 0.76:      # flips
            i = g.http_inst(0.5)
            ops.append(["upd", g.sk(), i, [False, False, False, True, True], False])
        elif x < 0.80:
            ops.append(["del", g.sk(), nc.mk_inst(g.key())])
        elif x < 0.83:
            ops.append(["range", 0, 1] if rng.random() < 0.6 else ["range", rng.randrange(0, 2), 2])
        elif x < 0.86:
            ops.append(["batch", [[g.sk(), g.sync_inst()] for _ in range(rng.randrange(1, 3))]])
        elif x < 0.88:
            ops.append(["snap", [], [[g.sk(), g.sync_inst()]]])
        elif x < 0.91:
            ops.append(["raft", "reg", g.sk(), g.http_inst(0.9)])
        elif x < 0.93:
            ops.append(["sniff", g.key(), [g.sk()], rng.random() < 0.5])
        else:
            ops.append(["qlist", g.sk(), rng.random() < 0.5])
    return {"cfg": dict(nc.CFG), "ops": ops, "dump": "all", "services": [list(k) for k in g.services]}


def budget_case(rng):
    """several services, many HTTP instances, a small per-round budget: mass failures, staggered beats"""
    svcs = rng.sample(nc.SERVICE_POOL, rng.choice([2, 3, 4]))
    keys = list(range(rng.choice([2, 3, 5])))
    cfg = dict(nc.CFG)
    cfg["n"] = rng.choice([1, 2, 3, 5])
    ops = []
    for sk in svcs:
        for k in keys:
            ops.append(["upd", list(sk), nc.mk_inst(k), list(nc.TAG_ALL), False])
        if rng.random() < 0.5:
            ops.append(["tick", rng.choice([10, 100])])
    for _ in range(rng.choice([8, 12, 16])):
        x = rng.random()
        if x < 0.35:
            ops.append(["tick", rng.choice([100, 299, 300, 301, 400, 600])])
        elif x < 0.85:
            ops.append(["check"])
        else:
            ops.append(["upd", list(rng.choice(svcs)), nc.mk_inst(rng.choice(keys)), list(nc.TAG_BEAT), False])
    ops += [["tick", 700]] + [["check"]] * 6 + [["tick", 700]] + [["check"]] * 6
    ops += [["qall", list(sk)] for sk in svcs]
    return {"cfg": cfg, "ops": ops, "dump": "all", "services": [list(k) for k in svcs]}


def nasty_cases():
    mk = nc.mk_inst
    sk = [1, 1, 1]
    beat = list(nc.TAG_BEAT)
    reg = list(nc.TAG_ALL)
    out = []

    def case(ops):
        out.append({"cfg": dict(nc.CFG), "ops": ops, "dump": "all", "services": [sk]})

    # exact boundaries of both time-outs
    for d1 in (299, 300, 301):
        for d2 in (299, 300, 301):
            case([["upd", sk, mk(0), reg, False], ["tick", d1], ["check"], ["qlist", sk, True], ["tick", d2], ["check"], ["qall", sk],
                  ["tick", 1], ["check"], ["qall", sk]])
    # heartbeat arriving just before / after the entry was queued and fired
    case([["upd", sk, mk(0), reg, False], ["tick", 299], ["upd", sk, mk(0), beat, False], ["tick", 1], ["check"], ["tick", 298], ["check"],
          ["tick", 1], ["check"], ["tick", 300], ["check"]])
    case([["upd", sk, mk(0), reg, False], ["tick", 300], ["check"], ["upd", sk, mk(0), beat, False], ["tick", 300], ["check"], ["qlist", sk, True],
          ["tick", 299], ["upd", sk, mk(0), beat, False], ["check"], ["tick", 301], ["check"], ["tick", 300], ["check"]])
    # instance replaced between queueing and firing: by gRPC, by a persistent one, back to ephemeral HTTP
    case([["upd", sk, mk(0), reg, False], ["tick", 200], ["upd", sk, mk(0, fg=True, cl=1), nc.grpc_tag(mk(0)), False], ["tick", 500], ["check"],
          ["tick", 500], ["check"], ["rmclient", 1], ["upd", sk, mk(0, ep=False), reg, False], ["tick", 700], ["check"], ["check"],
          ["upd", sk, mk(0, ep=True), [False, False, False, True, True], False], ["tick", 300], ["check"], ["tick", 300], ["check"]])
    # deregistered before firing, re-registered after
    case([["upd", sk, mk(0), reg, False], ["tick", 100], ["del", sk, mk(0)], ["tick", 250], ["check"], ["upd", sk, mk(0), reg, False],
          ["tick", 299], ["check"], ["tick", 301], ["check"], ["tick", 10], ["check"]])
    # many instances with staggered beats
    ops = []
    for k in (0, 1, 2, 8):
        ops += [["upd", sk, mk(k), reg, False], ["tick", 75]]
    for _ in range(4):
        ops += [["upd", sk, mk(0), beat, False], ["upd", sk, mk(2), beat, False], ["tick", 150], ["check"], ["qlist", sk, True]]
    case(ops)
    # a mass failure in ONE service with a small per-round budget (once_time_check_size): the round may stop
    # AFTER the service (the remaining services wait for the next round) but every due instance of the service
    # itself must be handled - nothing may be dropped from the time-out sets
    for budget, count in ((2, 7), (4, 10), (1, 3)):
        cfg = dict(nc.CFG)
        cfg["n"] = budget
        ops = [["upd", sk, mk(k), reg, False] for k in range(count)]
        ops += [["tick", 301], ["check"], ["qall", sk], ["tick", 1], ["check"], ["qall", sk], ["tick", 300], ["check"], ["qall", sk],
                ["tick", 300], ["check"], ["qall", sk]]
        out.append({"cfg": cfg, "ops": ops, "dump": "all", "services": [sk]})
    # take-over (repaired): synced instances, one healthy one unhealthy, a gRPC one, and a local control
    case([["upd", sk, mk(0, fc=2), None, False], ["upd", sk, mk(1, fc=2, he=False), None, False], ["upd", sk, mk(2, fg=True, fc=2, cl=11), None, False],
          ["upd", sk, mk(8), reg, False], ["tick", 100], ["range", 0, 1], ["tick", 200], ["check"], ["qall", sk], ["tick", 300], ["check"],
          ["qall", sk], ["tick", 300], ["check"], ["qall", sk]])
    return out


def known_finding_cases():
    """the input class recorded as C13:sync-into-own-range-unarmed"""
    mk = nc.mk_inst
    sk = [1, 1, 1]
    silence = [["tick", 400], ["check"], ["tick", 400], ["check"], ["tick", 800], ["check"], ["qall", sk]]
    return [
        {"cfg": dict(nc.CFG), "dump": "all", "services": [sk],
         "ops": [["range", 0, 1], ["snap", [[sk, None]], [[sk, mk(0, fc=2)]]]] + silence},
        {"cfg": dict(nc.CFG), "dump": "all", "services": [sk],
         "ops": [["range", 0, 1], ["batch", [[sk, mk(0, fc=2)]]]] + silence},
        {"cfg": dict(nc.CFG), "dump": "all", "services": [sk],
         "ops": [["range", 0, 1], ["upd", sk, mk(0, fc=2), list(nc.TAG_ALL), True]] + silence},
    ]


def real_clock_cases():
    mk = nc.mk_inst
    sk = [1, 1, 1]
    beat = list(nc.TAG_BEAT)
    reg = list(nc.TAG_ALL)
    cfg = dict(nc.CFG, real=True)
    silent = {"cfg": cfg, "dump": "none", "services": [sk], "ops": [
        ["upd", sk, mk(0), reg, False], ["upd", sk, mk(1, fg=True, cl=1), None, False], ["upd", sk, mk(2, ep=False), reg, False],
        ["tick", 100], ["check"], ["qall", sk], ["tick", 350], ["check"], ["qall", sk], ["tick", 400], ["check"], ["qall", sk]]}
    ops = [["upd", sk, mk(0), reg, False]]
    for _ in range(8):
        ops += [["tick", 120], ["upd", sk, mk(0), beat, False], ["check"], ["qall", sk]]
    ops += [["tick", 450], ["check"], ["qall", sk], ["tick", 450], ["check"], ["qall", sk]]
    beating = {"cfg": cfg, "dump": "none", "services": [sk], "ops": ops}
    return [silent, beating]


def judge_real(cases, res, chk):
    def hosts(st):
        return {h["k"]: h for h in st["out"]["hosts"]}
    s, b = res
    q = [st for op, st in zip(cases[0]["ops"], s["steps"]) if op[0] == "qall"]
    ok1 = (hosts(q[0]).get(0, {}).get("he") is True and hosts(q[1]).get(0, {}).get("he") is False and 0 not in hosts(q[2])
           and all(1 in hosts(x) and 2 in hosts(x) and hosts(x)[1]["he"] and hosts(x)[2]["he"] for x in q))
    qb = [st for op, st in zip(cases[1]["ops"], b["steps"]) if op[0] == "qall"]
    ok2 = all(hosts(x).get(0, {}).get("he") is True for x in qb[:8]) and hosts(qb[8]).get(0, {}).get("he") is False and 0 not in hosts(qb[9])
    return ok1, ok2


def run(chk, replay=None):
    tier = chk.tier
    rng = chk.rng
    proofs_ok = chk.proofs(TARGETS)
    ok, out = lib.harness_build()
    if not ok:
        chk.violation("harness does not build against /repo", {"broken": "harness build", "log": out[-3000:]}, False)
        return
    hashes = nc.get_hashes()
    rp = json.load(open(replay))["replay"] if replay else None
    if rp and isinstance(rp, dict) and rp.get("case"):
        cases = [rp["case"]]
        kf = []
        replay = True
    else:
        replay = None
        n = 800 if tier == "quick" else 6000
        kf = known_finding_cases()
        cases = nasty_cases() + [budget_case(rng) for _ in range(n // 8)] + [timing_case(rng) for _ in range(n)]
    impl = lib.harness_run_parallel("naming", cases + kf)
    impl_kf = impl[len(cases):]
    impl = impl[:len(cases)]

    n_eval = 0
    nontrivial = set()
    outcomes = {"unchanged": 0, "marked": 0, "removed": 0}
    for c, r in zip(cases + kf, impl + impl_kf):
        if r.get("r") != "ok":
            chk.violation("NamingActor panicked", {"suite": "naming", "case": c}, True)
            continue
        if not nc.in_scope_case(c):
            continue
        for key, what, ix in timing_oracle(c, r["steps"], hashes):
            chk.classify("C13:" + key, "op %d: %s" % (ix, what), {"suite": "naming", "case": dict(c, ops=c["ops"][:ix + 1]), "what": what})
        prev = {}
        for op, st in zip(c["ops"], r["steps"]):
            cur = all_instances(nc.canon_impl_state(st["st"]))
            if op[0] == "check":
                for key, v in prev.items():
                    if enabled(v):
                        n_eval += 1
                        after = cur.get(key)
                        kind = "removed" if after is None else ("unchanged" if after == v else "marked")
                        outcomes[kind] += 1
                        age = st["now"] - v["lm"]
                        nontrivial.add((kind, v["he"], min(age, 1300) // 50, age in (299, 300, 301, 599, 600, 601)))
            prev = cur
    # the known-finding class must be hit by its own cases (otherwise the recorded key is stale)
    if not replay:
        hits = [k for k, _ in chk.known_hits]
        if "C13:sync-into-own-range-unarmed" not in hits:
            chk.notes["known_finding_not_reproduced"] = ("the witness histories of C13:sync-into-own-range-unarmed expire now: the defect "
                                                         "seems repaired; remove the known_findings.json entry and sync_ok")

    # ---- model (logical clock: the two sides must agree on everything, including both time-out sets)
    mism = 0
    allc = cases + kf
    try:
        vals = lib.coq_eval_sharded("c13", nc.HEADER, [nc.model_expr(c, hashes, steps=r.get("steps")) for c, r in zip(allc, impl + impl_kf)], per=5 if tier == "quick" else 40, timeout=1800)
    except RuntimeError as ex:
        chk.violation("model evaluation failed: %s" % str(ex)[:300], {"broken": "model evaluation", "log": str(ex)[-3000:]}, False)
        vals = None
    if vals is not None:
        for c, r, m in zip(allc, impl + impl_kf, vals):
            if r.get("r") != "ok":
                continue
            for ix, (op, st, ms) in enumerate(zip(c["ops"], r["steps"], m)):
                d = (lib.diff_first(nc.canon_model_out(ms[0], op[0]), nc.canon_impl_out(st["out"], op[0]), "out")
                     or lib.diff_first(nc.canon_model_state(ms[1]), nc.canon_impl_state(st["st"]), "state"))
                if d:
                    mism += 1
                    chk.violation("model != implementation after op %d %s: %s" % (ix, op[0], d),
                                  {"suite": "naming", "case": dict(c, ops=c["ops"][:ix + 1]), "diff": d,
                                   "correspondence": "Naming.Script.run_dump"}, False)
                    break

    # ---- outside the model's domain (observation only): a clock that is still below the time-outs.  The real code computes
    # a negative i64 limit, casts it to u64 (drains EVERY queued entry) and then skips every instance (last_modified > negative)
    if not replay:
        try:
            mk = nc.mk_inst
            sk = [1, 1, 1]
            early = {"cfg": dict(nc.CFG, t0=100), "dump": "all", "services": [sk], "ops": [
                ["upd", sk, mk(0), list(nc.TAG_ALL), False], ["check"], ["tick", 2000], ["check"], ["tick", 1000], ["check"], ["qall", sk]]}
            r = lib.harness_run("naming", [early], tag="naming_early")[0]
            chk.notes["clock_below_timeouts_observation"] = {
                "healthy_set_after_first_tick": r["steps"][1]["st"]["services"][0]["hset"],
                "hosts_after_3s_of_silence": [(h["k"], h["he"]) for h in r["steps"][-1]["out"]["hosts"]],
                "meaning": "with now < time-out (system clock within 33 s of the epoch; excluded by cfg_ok) the queued entries are drained "
                           "unhandled and the instance never expires; not modelled (N subtraction saturates), not judged"}
        except Exception as ex:     # observation only
            chk.notes["clock_below_timeouts_observation"] = "failed: %s" % ex

    # ---- wall clock (runtime part; a timing-only discrepancy is retried once with the same schedule, then reported inconclusive)
    if not replay:
        rc = real_clock_cases()
        verdict = None
        for attempt in range(2):
            res = lib.harness_run("naming", rc, tag="naming_real_%d" % attempt)
            verdict = judge_real(rc, res, chk)
            if all(verdict):
                break
        chk.notes["wall_clock_run"] = {"silent_instance_expires": verdict[0], "beating_instance_survives": verdict[1],
                                       "timeouts_ms": [H, I], "status": "ok" if all(verdict) else "inconclusive (timing)"}

    if not proofs_ok:
        chk.violation("proof obligations of C13 no longer check: %s" % chk.proof_failure[:300],
                      {"broken": "theorem", "detail": chk.proof_failure}, False)

    chk.cov["evaluations"] = n_eval
    chk.cov["distinct_nontrivial"] = len(nontrivial)
    chk.cov["rule"] = ("one evaluation = one instance under the heartbeat clock at one tick (PeekListenerTimeout at a logical time), judged "
                       "for safety and liveness from its age; histories: all 9 combinations of ticks at 299/300/301 ms around both "
                       "time-outs, heartbeat just before/after queueing and firing, replacement (gRPC / persistent / flip back) between "
                       "queueing and firing, deregister-before-fire, staggered beats of 4 instances, take-over of healthy/unhealthy/gRPC "
                       "synced instances + seeded random schedules; non-trivial = distinct (outcome, healthy, age bucket of 50 ms, exact "
                       "boundary)")
    chk.cov["samples"] = [cases[0], cases[11] if len(cases) > 11 else cases[-1]]
    chk.cov["input_distribution"] = {"histories": len(allc), "tick_outcomes_under_clock": outcomes, "model_impl_mismatches": mism,
                                     "known_finding_histories": len(kf)}
    chk.assumptions += ["logical clock (verif_hooks::clock) replaces SystemTime/Local::now in now_millis, now_millis_i64 and time_check",
                        "time-outs hooked to 300/600 ms (production: env + 3000 ms)", "health time-out <= instance time-out <= now",
                        "the 2 s driver and cross-node propagation are runtime, not proved"]
