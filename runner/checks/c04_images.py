"""C04, compaction crash images: a REAL single-node raft (restart suite) runs a history with frequent compactions under the
crashfs shim; for crash points inside every compaction window (new snapshot file being written .. catalogue saved .. log cut)
the data directory image of that journal prefix is materialised and a REAL node is started on it (`rnverif restart-child`).
Oracle (from the history and the image alone): the restarted node serves the state after SOME prefix of the acknowledged
history (never a mixture), and that prefix contains every request that had been applied (last_applied header of the image)
before the kill.  This is what SM/Replay.v `crash_restart` / C04_compaction_crash_points_harmless state, on the real code."""
import json
import os
import struct
from concurrent.futures import ThreadPoolExecutor

import lib


def crash_images(C04, rng, base, n_images, multi_file=False):
    def cs(key, val, hid):
        return {"ConfigSet": {"config_type": None, "desc": None, "history_id": hid, "history_table_id": None, "key": key,
                              "op_time": 1700000000000 + hid, "op_user": None, "value": val}}
    n = rng.randrange(45, 70)
    keys = ["k%d\u0002g" % i for i in range(7)]
    if multi_file:
        # the rollover limit hook: a log file is full after 128 records, so the history spreads over several log files;
        # compactions (every 100 entries) then cut the log across file boundaries and remove whole files
        n = rng.randrange(420, 700)
    # every third request writes a key of its own (round 7): with the seven cyclic keys alone the last seven requests
    # determine the whole served state, and a lost PREFIX of the history (a snapshot that is gone) would be invisible
    key_of = [("u%d\u0002g" % i) if i % 3 == 0 else keys[i % 7] for i in range(n)]
    reqs = [cs(key_of[i], "v%d" % i, i + 1) for i in range(n)]
    case = {"threshold": rng.choice([6, 10, 13]), "phases": [{"reqs": reqs}], "plants": [], "pace": True}
    if multi_file:
        case = {"threshold": rng.choice([100, 150, 100000]), "log_limit": 43, "phases": [{"reqs": reqs}], "plants": [], "pace": True,
                "timeout_s": 300}
    d = os.path.join(base, "cimg"); tmp = os.path.join(d, "tmp"); os.makedirs(tmp)
    cin, cout, jr = os.path.join(d, "case.jsonl"), os.path.join(d, "out.jsonl"), os.path.join(d, "journal")
    open(cin, "w").write(json.dumps(case) + "\n")
    rc, out = lib.sh([lib.BIN, "restart", cin, cout], timeout=600, cwd=d,
                     env={"LD_PRELOAD": C04.SHIM_SO, "CRASHFS_ROOT": tmp, "CRASHFS_JOURNAL": jr, "RNVERIF_TMP": tmp})
    assert rc == 0, out[-500:]
    j = [m for m in C04.parse_journal(jr, os.path.realpath(tmp)) if "/data/" in m[1]]
    name = lambda m: m[1].split("/data/")[-1]
    stop = next((i for i, m in enumerate(j) if m[0] == "U" and name(m) in ("db_lock", "index")), len(j))
    j = j[:stop]
    while j and j[-1][0] == "U":
        j.pop()
    # last_applied header values
    la = [(i, struct.unpack(">Q", m[3])[0] if len(m[3]) == 8 else None) for i, m in enumerate(j) if m[0] == "W" and name(m) == "index" and m[2] == 0]
    la = [(i, v) for i, v in la if v is not None]
    l_final = la[-1][1]
    basei = l_final - n            # raft index of request r (1-based) = basei + r
    creates = [i for i, m in enumerate(j) if m[0] == "C" and name(m).startswith("snapshot_")]
    points = set()
    for ci, c in enumerate(creates):
        end = creates[ci + 1] if ci + 1 < len(creates) else len(j)
        win = [i for i in range(c, min(end, c + 40)) if not (j[i][0] == "W" and name(j[i]).startswith("log_1"))]
        for i in win:
            points.add(i + 1)
    # windows around the creation of a further log file (rollover): new file, catalogue entry, first records
    for i, m in enumerate(j):
        if m[0] == "C" and name(m).startswith("log_") and name(m) not in ("log_0", "log_1"):
            for q in range(max(1, i - 6), min(len(j), i + 16)):
                points.add(q)
        if m[0] == "U" and name(m).startswith("log_"):
            for q in range(max(1, i - 2), min(len(j), i + 6)):
                points.add(q)
    # round 7: the window after a snapshot file is removed, up to the next rewrite of the catalogue record, is always
    # taken (at most 3 removals, 4 points each): the catalogue on disk must never name a snapshot file that is gone
    must = set()
    removals = [i for i, m in enumerate(j) if m[0] == "U" and name(m).startswith("snapshot_")]
    for i in (removals if len(removals) <= 3 else rng.sample(removals, 3)):
        nxt = next((q for q in range(i + 1, len(j)) if j[q][0] == "W" and name(j[q]) == "index" and j[q][2] == 8), len(j))
        for q in range(i + 1, min(nxt + 1, i + 5)):
            must.add(q)
    points = sorted(points - must)
    if len(points) > n_images:
        points = sorted(rng.sample(points, n_images))
    points = sorted(set(points) | must)
    jobs = []
    for p in points:
        files = {}
        for m in j[:p]:
            C04.apply_mut(files, (m[0], name(m)) + tuple(m[2:]))
        img = os.path.join(d, "img%d" % p)
        C04.write_image(img, files)
        lap = max([v for i, v in la if i < p] or [0])
        jobs.append((p, img, lap))
    phase = {"threshold": 100000, "reqs": [], "all_reqs": reqs, "pace": False, "scratch": tmp, "log_limit": case.get("log_limit")}
    pf = os.path.join(d, "phase.json"); open(pf, "w").write(json.dumps(phase))
    def one(job):
        p, img, lap = job
        of = os.path.join(d, "out%d.json" % p)
        rc, out = lib.sh([lib.BIN, "restart-child", img, pf, of], timeout=120, cwd=d)
        try:
            return json.load(open(of))
        except Exception as e:
            return {"r": "noout", "msg": str(e), "rc": rc}
    with ThreadPoolExecutor(max_workers=8) as ex:
        outs = list(ex.map(one, jobs))
    bad = []
    stats = []
    for (p, img, lap), o in zip(jobs, outs):
        if o.get("r") not in (None, "ok") or "start_dump" not in o:
            bad.append((p, "restart failed: %s" % json.dumps(o)[:200])); continue
        got = {}
        for e in o["start_dump"]["config"]["keys"]:
            got[e["key"]] = (e["get"] or {}).get("content") if e.get("get") else None
        # the request index (1-based) of the newest value served; prefix-consistent: the served state is exactly the
        # state after the first m requests (every key its last write among them, keys written later absent)
        okv = all(v is None or (v.startswith("v") and v[1:].isdigit() and int(v[1:]) < n and key_of[int(v[1:])] == k)
                  for k, v in got.items())
        m = max([int(v[1:]) + 1 for v in got.values() if v is not None] or [0]) if okv else 0
        want = {}
        for r in range(1, m + 1):
            want[key_of[r - 1]] = "v%d" % (r - 1)
        idx = {k: v for k, v in got.items() if v is not None}
        m_lo = max(0, lap - basei)
        stats.append((p, lap, m_lo, m))
        if not okv or want != idx:
            bad.append((p, "the restarted node serves %s: not the state after any prefix of the history (last_applied in the image: request %d)" % (got, m_lo)))
        elif m < m_lo:
            bad.append((p, "the restarted node serves the state after %d requests although %d had been applied (last_applied header) before the kill" % (m, m_lo)))
    return case, j, jobs, outs, bad, stats

