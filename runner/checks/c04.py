"""C04 — Raft store is crash-consistent at every file-write boundary (proof, partial)."""
import json
import os
import shutil
from concurrent.futures import ThreadPoolExecutor

import lib
from checks import c05
from checks import raftlog_common as rl

TARGETS = ["Props/C04.v", "RaftLog/Script.v", "RaftLog/LogCrashScript.v", "RaftLog/LogCrashExamples.v"]

MANIFEST = dict(
    text="Theorems over ALL histories and ALL crash points. (1) Index file: crash_safe_index / crash_safe_acked — for every "
         "history of writer operations and reopens and EVERY prefix of the journal of file mutations it issues, the restarted "
         "store reads back exactly the state after some prefix of the history (term, vote, membership, addresses, catalogue, "
         "last_applied are values written before the crash), and every acknowledged save is in every later image. (2) Log "
         "file: crash_safe_log_append — for every history of appends to a fresh log file (all payloads, block boundaries, "
         "file growth) and EVERY prefix of its journal (set_len / data write / index entry, in program order), the repaired "
         "init succeeds and exposes exactly the records whose data write is in the prefix (contiguous, only submitted, none "
         "missing), including the image where the data write completing a 128-block landed and its index entry did not "
         "(init rebuilds the entry: C04_init_lagging_index). (3) crash_safe_store — log file + last_applied header with Raft's "
         "discipline (applied only what was appended): in every crash state last_applied is 0 or below the recovered end "
         "index. Tied to the code by crashfs: the real RaftIndexManager / FileStore / LogInnerManager run under an LD_PRELOAD "
         "shim journalling every write/pwrite/ftruncate/rename/unlink/create; the observed journals must have the model's "
         "shape (kind, offset, length); the directory / file image of EVERY prefix of the OBSERVED journal is reopened by the "
         "real recovery code and by the model's init, then used (more appends, another reopen), and judged by an independent "
         "oracle computed from the meaning of the mutations. (4) compaction_crash_points_harmless — a node killed during a "
         "compaction (new snapshot file complete, oldest one removed, then catalogue save and log cut in EITHER order; the "
         "log is cut one snapshot behind) restarts, for every history, all compaction points and all four combinations, to a "
         "state equivalent to the one that ran the history (component premises as in C01); tied to the code by the journal "
         "of REAL compactions (restart suite under the shim): the catalogue is never rewritten while the new file is being "
         "written, the pointer written points at the previous snapshot, only older snapshot files are removed; and by crash "
         "IMAGES taken inside the compaction windows of that journal and restarted by a real node (restart-child): the node "
         "must serve the state after a prefix of the history that contains every request applied before the kill; the same "
         "for histories spread over several log files (rollover hook), with crash points around every new / removed log file.",
    note="proof, partial. Not covered by a theorem: crash images of delete-from (strip_log_to) — they are replayed "
         "exhaustively on the real code and on the model for the generated histories (the three defects found this way are "
         "repaired) and enumerated for one concrete history in RaftLog/LogCrashExamples.v; rollover across log files and the "
         "catalogue-vs-new-log-file ordering (two actors) - these are covered by real-node crash images only; snapshot data files enter theorem (4) through the snapshot-file round trip of C01 (a partially written new file is never named by the catalogue). The model cannot exhibit: torn single writes "
         "(each write call is atomic in the model and in the materialised images), fsync / power loss and directory-entry "
         "durability (the OS survives), and the blocking-pool scheduling that decides in which order writes of different "
         "tokio handles/actors reach the OS (the observed order is recorded and compared, not controlled; the data and index "
         "handles of one log file are two such handles). Acknowledgements are journalled too: an image whose prefix holds "
         "the mark of a save must reopen to a state that includes it.",
    technique="Rocq proof (journal-prefix induction over refinement invariants; canonical-state lemmas of the log model) + "
              "LD_PRELOAD syscall journal + exhaustive crash-prefix replay on the real recovery code",
    design="3/C04",
)
HEADER = ("From RN Require Import Base.Res Codec.Varint RaftLog.IndexFile RaftLog.Script.\n"
          "Open Scope N_scope.\n")
SHIM_SRC = os.path.join(lib.HARNESS, "shim", "crashfs.c")
SHIM_SO = os.path.join(lib.WORK, "shim", "libcrashfs.so")
WRITERS = ("hs", "member", "addr", "logs", "snaps")


def build_shim():
    os.makedirs(os.path.dirname(SHIM_SO), exist_ok=True)
    if os.path.exists(SHIM_SO) and os.path.getmtime(SHIM_SO) >= os.path.getmtime(SHIM_SRC):
        return True, ""
    rc, out = lib.sh(["gcc", "-shared", "-fPIC", "-O2", "-o", SHIM_SO, SHIM_SRC, "-ldl", "-lpthread"], timeout=120)
    return rc == 0, out


# ---------------------------------------------------------------- histories
def gen_actor_history(rng):
    ops = []
    for _ in range(rng.randrange(3, 11)):
        ops.append(c05.gen_writer(rng))
        if rng.random() < 0.2:
            ops.append(["reopen"])
    return ops


def gen_store_history(rng):
    ops, appended, pointer_done = [], 0, False
    for _ in range(rng.randrange(3, 10)):
        k = rng.choices(["hs", "member", "addr", "append", "applied", "pointer", "reopen"], [3, 2, 2, 4, 3, 1, 1])[0]
        if k == "append":
            n = rng.randrange(1, 4)
            ops.append(["append", n, 1])
            appended += n
        elif k == "applied":
            if appended:
                ops.append(["applied", rng.randrange(1, appended + 1)])   # raft applies only what it appended
        elif k == "pointer":
            if appended and not pointer_done:
                ops.append(["pointer", 1])
                pointer_done = True
        elif k == "reopen":
            ops.append(["reopen"])
        else:
            w = [4 if k == "hs" else 0, 4 if k == "member" else 0, 4 if k == "addr" else 0, 0, 0, 0]
            ops.append(c05.gen_writer(rng, w))
    return ops


FIXED = [
    ("actor", [["hs", 3, 2], ["applied", 7], ["member", [1, 2, 3], None, None], ["addr", 1, "a:1"], ["reopen"], ["hs", 4, 0]]),
    ("actor", [["member", list(range(1, 23)), None, None], ["member", [], None, None], ["hs", 1, 1], ["hs", 0, 0], ["reopen"]]),
    ("store", [["hs", 3, 2], ["append", 2, 3], ["applied", 2], ["append", 1, 3], ["pointer", 1], ["addr", 1, "a:1"], ["reopen"],
               ["append", 1, 3], ["applied", 4]]),
]


# ---------------------------------------------------------------- journal
def parse_journal(path, root):
    muts = []
    if not os.path.exists(path):
        return muts
    for line in open(path):
        parts = line.rstrip("\n").split(" ")
        if not parts or not parts[0]:
            continue
        rel = lambda p: os.path.relpath(p, root)
        k = parts[0]
        if k == "W":
            muts.append(("W", rel(parts[1]), int(parts[2]), bytes.fromhex(parts[3]) if len(parts) > 3 else b""))
        elif k == "T":
            muts.append(("T", rel(parts[1]), int(parts[2])))
        elif k == "C":
            muts.append(("C", rel(parts[1])))
        elif k == "R":
            muts.append(("R", rel(parts[1]), rel(parts[2])))
        elif k == "U":
            muts.append(("U", rel(parts[1])))
    return muts


def apply_mut(files, m):
    k = m[0]
    if k == "C":
        files.setdefault(m[1], bytearray())
    elif k == "W":
        f = files.setdefault(m[1], bytearray())
        off, d = m[2], m[3]
        if len(f) < off:
            f.extend(b"\0" * (off - len(f)))
        f[off:off + len(d)] = d
    elif k == "T":
        f = files.setdefault(m[1], bytearray())
        if m[2] <= len(f):
            del f[m[2]:]
        else:
            f.extend(b"\0" * (m[2] - len(f)))
    elif k == "R":
        if m[1] in files:
            files[m[2]] = files.pop(m[1])
    elif k == "U":
        files.pop(m[1], None)


def write_image(d, files):
    os.makedirs(d, exist_ok=True)
    for name, content in files.items():
        if name in ("ack_mark", "db_lock"):
            continue
        p = os.path.join(d, name)
        os.makedirs(os.path.dirname(p), exist_ok=True)
        body = bytes(content).rstrip(b"\0")
        with open(p, "wb") as f:
            f.write(body)
            f.truncate(len(content))      # the zero tail stays sparse


def run_history(ix, mode, ops, base):
    """run one history on the real store under the shim; returns (journal, live result)"""
    d = os.path.join(base, "h%d" % ix)
    live = os.path.join(d, "live")
    os.makedirs(live)
    case = {"mode": mode, "marks": True, "dir": live, "ops": ops}
    cin, cout, jr = os.path.join(d, "case.jsonl"), os.path.join(d, "out.jsonl"), os.path.join(d, "journal")
    with open(cin, "w") as f:
        f.write(json.dumps(case) + "\n")
    rc, out = lib.sh([lib.BIN, "indexfile", cin, cout], timeout=300, cwd=d,
                     env={"LD_PRELOAD": SHIM_SO, "CRASHFS_ROOT": live, "CRASHFS_JOURNAL": jr})
    if rc != 0:
        raise RuntimeError("harness under crashfs failed rc=%s: %s" % (rc, out[-2000:]))
    res = json.loads(open(cout).read().strip())
    return parse_journal(jr, os.path.realpath(live)), res


# ---------------------------------------------------------------- oracle on one crash image
def expectations(ops):
    """snapshot of the last saved values after every op prefix j = 0..n (python, independent of the model)"""
    e = c05.Expect()
    snaps = [e.snapshot()]
    for op in ops:
        if op[0] not in ("read", "reopen", "append", "pointer", "snap"):
            e.apply(op)
        snaps.append(e.snapshot())
    return snaps


def meta_of(snap, store):
    keys = ("term", "vote", "member", "mac", "addrs") if store else ("term", "vote", "member", "mac", "addrs", "logs", "snaps")
    return tuple(json.dumps(snap[k], sort_keys=True) for k in keys)


def judge_image(chk, hist, k, acked, o, stats):
    mode, ops, snaps = hist["mode"], hist["ops"], hist["snaps"]
    store = mode == "store"
    rp = {"suite": "indexfile under crashfs", "mode": mode, "ops": ops, "journal_prefix": k,
          "journal": [list(m[:3]) + ([m[3].hex()] if m[0] == "W" else []) for m in hist["journal"][:k]],
          "recovered": {x: o.get(x) for x in o if x != "file"} if isinstance(o, dict) else o}
    where = "crash after mutation #%d of %d of %s" % (k, len(hist["journal"]), json.dumps(ops)[:140])
    if not isinstance(o, dict):
        chk.classify("store:reopen_panic", "the store panicked reopening the image: %s" % where, rp)
        return
    c = c05.canon_impl_obs(o)
    if c == "fail" or (store and ("err" in o.get("is", {}) or isinstance(o.get("log"), dict))):
        chk.classify("store:reopen_error", "the store does not reopen (%s): %s" % (o.get("err") or o.get("is") or o.get("log"), where), rp)
        return
    # metadata = the values after SOME prefix of the history
    got = meta_of(c, store)
    js = [j for j, s in enumerate(snaps) if meta_of(s, store) == got]
    if not js:
        chk.classify("index:invented", "recovered term/vote/membership/addresses%s equal no value written before the crash: %s"
                     % ("" if store else "/catalogue", where), rp)
    else:
        # acknowledged saves: a save whose acknowledgement precedes the crash point must be in the image
        need = max([0] + [i + 1 for i in acked if ops[i][0] in WRITERS])
        if max(js) < need:
            stats["ack_before_write"] += 1
            chk.classify("index:ack_before_write",
                         "save #%d (%s) was acknowledged before the crash point but the image reopens to the state before it: %s"
                         % (need, json.dumps(ops[need - 1])[:80], where), rp)
    applied_vals = set([0] + [op[1] for op in ops if op[0] == "applied"])
    if c["applied"] not in applied_vals:
        chk.classify("index:invented_applied", "recovered last_applied %d was never written: %s" % (c["applied"], where), rp)
    if store:
        log = o.get("log", [])
        st = o.get("is", {})
        submitted = hist["submitted"]
        idx = [e[0] for e in log]
        if any(b != a + 1 for a, b in zip(idx, idx[1:])):
            chk.classify("log:gap", "recovered log is not contiguous %s: %s" % (idx[:12], where), rp)
        if any((e[0], e[1]) not in submitted for e in log):
            chk.classify("log:invented", "recovered log holds an entry that was never submitted: %s" % where, rp)
        repro = max([st.get("last_log_index", 0)] + idx)
        if c["applied"] > repro:
            stats["applied_past_log"] += 1
            chk.classify("store:applied_past_log",
                         "recovered last_applied %d points past the recovered log (last index %d): %s" % (c["applied"], repro, where), rp)


# ================================================================ log file (LogInnerManager) under crashfs
LOG_HEADER = ("From RN Require Import Base.Res Codec.Varint Codec.BufReader Codec.Script RaftLog.LogFile "
              "RaftLog.LogScript RaftLog.LogCrash RaftLog.LogCrashScript.\nOpen Scope N_scope.\n")


def log_fixed_histories():
    w = lambda i, n=5: ["w", i, 1, n, i]
    return [
        # the 128-record block boundary: data write of #128, then its index entry
        dict(name="block-boundary", ops=[w(i) for i in range(1, 131)], model_images=True),
        # delete-from inside the first block: the file is cut behind the last kept record, then regrown
        dict(name="strip-cut", ops=[w(i, 20) for i in range(1, 11)] + [["s", 5]] + [w(i, 3) for i in range(5, 8)],
             model_images=True),
        # delete-from that pops an index entry
        dict(name="strip-pop", ops=[w(i) for i in range(1, 131)] + [["s", 100], w(100, 7), w(101, 7)], model_images=True),
        # growth of the file (set_len before the data write)
        dict(name="growth", ops=[w(i, 230000) for i in range(1, 6)], model_images=False),
    ]


def gen_log_history(rng):
    ops, nxt = [], 1
    for _ in range(rng.randrange(3, 14)):
        if rng.random() < 0.25 and nxt > 2:
            k = rng.randrange(1, nxt)
            ops.append(["s", k])
            nxt = k
        else:
            ops.append(["w", nxt, rng.randrange(1, 4), rng.choice([0, 1, 5, 20, 120, 130, 300]), rng.randrange(1, 1 << 20)])
            nxt += 1
    return dict(name="random", ops=ops, model_images=True)


def run_log_history(ix, h, base):
    d = os.path.join(base, "log%d" % ix)
    live = os.path.join(d, "live")
    os.makedirs(live)
    case = {"start": 1, "pre_term": 0, "split": 0, "path": os.path.join(live, "log_1"), "ops": h["ops"]}
    cin, cout, jr = os.path.join(d, "case.jsonl"), os.path.join(d, "out.jsonl"), os.path.join(d, "journal")
    with open(cin, "w") as f:
        f.write(json.dumps(case) + "\n")
    rc, out = lib.sh([lib.BIN, "logfile", cin, cout], timeout=300, cwd=d,
                     env={"LD_PRELOAD": SHIM_SO, "CRASHFS_ROOT": live, "CRASHFS_JOURNAL": jr})
    if rc != 0:
        raise RuntimeError("logfile harness under crashfs failed rc=%s: %s" % (rc, out[-2000:]))
    res = json.loads(open(cout).read().strip())
    return [m for m in parse_journal(jr, os.path.realpath(live)) if m[1] == "log_1"], res


def rec_digest(op):
    v = rl.lcg_bytes(op[3], op[4])
    return [op[1], op[2], len(v), rl.msum(v)]


def rec_frame(op):
    """LogRecord as quick-protobuf writes it: varint(len) ++ [8 index] [16 term] [42 len value]"""
    v = rl.lcg_bytes(op[3], op[4])
    body = []
    if op[1]:
        body += [8] + c05.leb(op[1])
    if op[2]:
        body += [16] + c05.leb(op[2])
    if v:
        body += [42] + c05.leb(len(v)) + list(v)
    return bytes(c05.leb(len(body)) + body)


def log_expected(h, journal, k):
    """the records a file image must expose, from the meaning of the mutations alone: the i-th data write is
    the i-th accepted write; a set_len below the end of a record removes it"""
    acc = [op for op, o in zip(h["ops"], h["live"]["out"]) if op[0] == "w" and o.get("w") in ("ok", "end")]
    recs, wi = [], 0          # (digest, end offset)
    for m in journal[:k]:
        if m[0] == "W" and m[2] >= 4096:
            if wi < len(acc) and m[3] == rec_frame(acc[wi]):
                recs.append((rec_digest(acc[wi]), m[2] + len(m[3])))
                wi += 1
            # any other write into the data area is not a record (the journal-shape comparison reports it)
        elif m[0] == "T":
            recs = [r for r in recs if r[1] <= m[2]]
    return [r[0] for r in recs]


def image_parts(content):
    b = bytes(content)
    if len(b) == 0:
        return None
    be = lambda a, n: int.from_bytes(b[a:a + n], "big")
    idx = list(b[32:4096].rstrip(b"\0"))
    data = list(b[4096:].rstrip(b"\0"))
    return dict(lt=be(6, 8), fi=be(14, 8), da=be(22, 2), iv=be(24, 2), idx=idx, data=data, len=len(b))


def coq_image(p):
    if p is None:
        return "None"
    return "(image %d %d %d %d %s %s %d)" % (p["lt"], p["fi"], p["da"], p["iv"], c05.coq_bytes(p["idx"]),
                                             c05.coq_bytes(p["data"]), p["len"])


def log_part(chk, rng, quick, base, stats):
    hists = log_fixed_histories() + [gen_log_history(rng) for _ in range(5 if quick else 60)]
    with ThreadPoolExecutor(max_workers=8) as ex:
        outs = list(ex.map(lambda ix: run_log_history(ix, hists[ix], base), range(len(hists))))
    cases, meta = [], []
    for ix, (h, (journal, live)) in enumerate(zip(hists, outs)):
        h["journal"], h["live"] = journal, live
        files = {}
        for k in range(len(journal) + 1):
            if k > 0:
                apply_mut(files, journal[k - 1])
            exp = log_expected(h, journal, k)
            d = os.path.join(base, "limg", "h%d" % ix, "k%d" % k)
            write_image(d, files)
            n = len(exp)
            # after the reopen: more appends, another reopen (a block boundary needs 128 more records to show
            # a missing index entry)
            more = 130 if (n > 0 and n % 128 == 0) else 3
            follow = [["w", 1 + n + i, 2, 4, 7000 + i] for i in range(more)]
            ops = [["i"], ["r", 1, n + 10]] + follow + [["o"], ["i"], ["r", 1, n + more + 10]]
            cases.append({"start": 1, "pre_term": 0, "split": 0, "path": os.path.join(d, "log_1"), "ops": ops})
            meta.append((ix, k, exp, follow, image_parts(files.get("log_1", b""))))
    rec = lib.harness_run_parallel("logfile", cases)

    # ---- oracle
    for (ix, k, exp, follow, parts), c, r in zip(meta, cases, rec):
        h = hists[ix]
        rp = {"suite": "logfile under crashfs", "history": h["name"], "ops": h["ops"] if len(h["ops"]) < 40 else
              {"n": len(h["ops"]), "head": h["ops"][:3], "tail": h["ops"][-4:]}, "journal_prefix": k,
              "journal_tail": [list(m[:3]) + ([len(m[3])] if m[0] == "W" else []) for m in h["journal"][max(0, k - 4):k]],
              "reopen_case": {"ops_head": c["ops"][:2], "follow_up": len(follow)}, "impl": r if len(str(r)) < 3000 else str(r)[:3000]}
        where = "log file image after mutation #%d of %d (%s)" % (k, len(h["journal"]), h["name"])
        if r.get("r") != "ok" or any(isinstance(o, dict) and "x" in o for o in r.get("out", [])):
            chk.classify("log:reopen_error", "the log file does not reopen: %s" % where, rp)
            continue
        o = r["out"]
        n = len(exp)
        if o[0].get("i", [None])[0] != 1 + n or o[1].get("r") != exp:
            chk.classify("log:image_content", "reopened log holds end index %s / %d records, the image holds %d records written: %s"
                         % (o[0].get("i", [None])[0], len(o[1].get("r") or []), n, where), rp)
            continue
        after = exp + [rec_digest(w) for w in follow]
        ws = [x.get("w") for x in o[2:2 + len(follow)]]
        last_i, last_r = o[-2], o[-1]
        if any(x not in ("ok", "end") for x in ws) or o[2 + len(follow)].get("o") != "ok" \
                or last_i.get("i", [None])[0] != 1 + len(after) or last_r.get("r") != after:
            chk.classify("log:image_poisons_future",
                         "after reopening the image, %d appends and another reopen the log holds end index %s / %d records "
                         "instead of %d: %s" % (len(follow), last_i.get("i", [None])[0], len(last_r.get("r") or []), len(after), where), rp)
        if 0 < k <= len(h["journal"]):
            m = h["journal"][k - 1]
            if m[0] == "T" and m[2] < 1048576 and parts and parts["len"] == m[2]:
                stats["log_cut_images"] += 1
            if m[0] == "W" and m[2] >= 4096 and n > 0 and n % 128 == 0:
                stats["log_lagging_index_images"] += 1

    # ---- model: journal shape, and init + script on every image
    mism = 0
    try:
        shapes = lib.coq_eval_sharded("c04ls", LOG_HEADER,
                                      ["script_journal 4096 1 0 0 [%s]" % ";".join(rl.coq_lop(o) for o in h["ops"]) for h in hists],
                                      per=2)
        mi = [i for i, (ix, k, exp, follow, parts) in enumerate(meta) if hists[ix]["model_images"]]
        vals = lib.coq_eval_sharded("c04li", LOG_HEADER,
                                    ["open_image_log %s 4096 1 0 0 [%s]" % (coq_image(meta[i][4]),
                                                                          ";".join(rl.coq_lop(o) for o in cases[i]["ops"]))
                                     for i in mi], per=12)
    except RuntimeError as ex:
        chk.violation("model evaluation failed (log file): %s" % str(ex)[:300], {"broken": "model evaluation", "log": str(ex)[-3000:]}, False)
        return len(cases), mism
    for h, sh in zip(hists, shapes):
        real = [(1, 0, 0) if m[0] == "C" else (0, m[2], len(m[3])) if m[0] == "W" else (2, m[2], 0) for m in h["journal"]]
        model = [tuple(t) for t in sh]
        if real != model:
            if sorted(real) == sorted(model):
                stats["log_journal_reordered"] += 1      # another linearisation of the two handles: recorded
            else:
                mism += 1
                d = next((i for i, (a, b) in enumerate(zip(real, model)) if a != b), min(len(real), len(model)))
                chk.violation("observed log-file journal is not the model's journal (kind, offset, length) at #%d: %s vs %s"
                              % (d, real[d:d + 3], model[d:d + 3]),
                              {"suite": "logfile under crashfs", "history": h["name"], "ops": h["ops"][:40], "real": real[:200],
                               "model": model[:200], "correspondence": "RaftLog.LogCrash.write_journal / strip_journal"}, False)
    for i, v in zip(mi, vals):
        ix, k, exp, follow, parts = meta[i]
        m = [{"o": "ok" if v[0][1] == "true" else "err"}] + rl.canon_lf_model(v[1:]) if v and v[0][0] == "OO" else "?"
        r = rec[i]
        im = [{"o": "ok"}] + [o for op, o in zip(cases[i]["ops"], r.get("out", []))] if r.get("r") == "ok" else "panic"
        if m != im:
            mism += 1
            chk.violation("model init != real LogInnerManager::init on a crash image: %s" % lib.diff_first(m, im),
                          {"suite": "logfile open", "history": hists[ix]["name"], "journal_prefix": k,
                           "image": {kk: (vv if not isinstance(vv, list) else len(vv)) for kk, vv in (parts or {}).items()},
                           "correspondence": "RaftLog.LogFile.init (rebuild_index) / LogCrashScript.open_image_log"}, False)
    stats["log_histories"] = len(hists)
    stats["log_images"] = len(cases)
    stats["log_images_model_checked"] = len(mi)
    return len(cases), mism


# ---------------------------------------------------------------- compaction: what SM/Replay.v crash_restart assumes
def compaction_stage_order(chk, rng, base):
    """a REAL single-node raft (restart suite) under the shim, compactions every few entries.  In the observed journal of
    every compaction (creation of snapshot_N .. next creation) the three facts the model's [crash_restart] rests on:
      (a) the index record (catalogue) is not rewritten while snapshot_N is still being written: the catalogue never names an
          incomplete file;
      (b) the log cut LAGS: the snapshot pointer written to a log file during this compaction points at snapshot N-1 or older;
      (c) only snapshot files older than N-1 are removed (the file the catalogue names last is never removed)."""
    import re

    def cs(key, val, hid):
        return {"ConfigSet": {"config_type": None, "desc": None, "history_id": hid, "history_table_id": None, "key": key,
                              "op_time": 1700000000000 + hid, "op_user": None, "value": val}}
    n = rng.randrange(45, 70)
    reqs = [cs("k%d\u0002g" % (i % 7), "v%d" % i, i + 1) for i in range(n)]
    case = {"threshold": rng.choice([6, 10, 13]), "phases": [{"reqs": reqs}, {"reqs": reqs[:2]}], "plants": [], "pace": True}
    d = os.path.join(base, "compaction")
    tmp = os.path.join(d, "tmp")
    os.makedirs(tmp)
    cin, cout, jr = os.path.join(d, "case.jsonl"), os.path.join(d, "out.jsonl"), os.path.join(d, "journal")
    with open(cin, "w") as f:
        f.write(json.dumps(case) + "\n")
    rc, out = lib.sh([lib.BIN, "restart", cin, cout], timeout=600, cwd=d,
                     env={"LD_PRELOAD": SHIM_SO, "CRASHFS_ROOT": tmp, "CRASHFS_JOURNAL": jr, "RNVERIF_TMP": tmp})
    if rc != 0:
        chk.violation("restart suite under crashfs failed rc=%s" % rc, {"broken": "harness", "log": out[-2000:]}, False)
        return 0
    j = [m for m in parse_journal(jr, os.path.realpath(tmp)) if "/data/" in m[1]]
    name = lambda m: m[1].split("/data/")[-1]
    sid = lambda s: int(s.split("_")[1])
    # the suite removes the data directory at the end: everything from the removal of db_lock / index on is clean-up
    stop = next((i for i, m in enumerate(j) if m[0] == "U" and name(m) in ("db_lock", "index")), len(j))
    j = j[:stop]
    while j and j[-1][0] == "U":          # (the directory is removed in directory order: snapshot files may go first)
        j.pop()
    creates = [i for i, m in enumerate(j) if m[0] == "C" and name(m).startswith("snapshot_")]
    n_ok = 0
    for ci, c in enumerate(creates):
        end = creates[ci + 1] if ci + 1 < len(creates) else len(j)
        snap = name(j[c])
        N = sid(snap)
        w_last = max([i for i in range(c, end) if j[i][0] == "W" and name(j[i]) == snap] or [c])
        bad = []
        early = [i for i in range(c, w_last) if j[i][0] == "W" and name(j[i]) == "index" and j[i][2] == 8]
        if early:
            bad.append("the index record was rewritten (journal #%d) while %s was still being written (last write #%d)" % (early[0], snap, w_last))
        for i in range(c, end):
            m = j[i]
            if m[0] == "W" and name(m).startswith("log_") and b"SnapshotPointer" in m[3]:
                mm = re.search(rb'"id":"(\d+)"', m[3])
                if mm and int(mm.group(1)) >= N:
                    bad.append("the snapshot pointer written during the compaction that creates %s points at snapshot %d: the log is cut "
                               "at the NEW snapshot while the catalogue may still name the previous one" % (snap, int(mm.group(1))))
            if m[0] == "U" and name(m).startswith("snapshot_") and sid(name(m)) >= N - 1:
                bad.append("%s removed during the compaction that creates %s" % (name(m), snap))
        if bad:
            chk.violation("the file mutations of a compaction are not what the model (SM/Replay.v crash_restart) assumes: %s" % "; ".join(bad),
                          {"suite": "restart under crashfs", "case": case, "snapshot": snap,
                           "journal": [[m[0], name(m)] + ([m[2]] if len(m) > 2 and not isinstance(m[2], bytes) else []) for m in j[c:end][:60]],
                           "correspondence": "SM.Replay.crash_restart"}, False)
        else:
            n_ok += 1
    return n_ok


# ---------------------------------------------------------------- the check
def run(chk, replay=None):
    tier = chk.tier
    rng = chk.rng
    quick = tier == "quick"
    proofs_ok = chk.proofs(TARGETS)
    ok, out = lib.harness_build()
    if not ok:
        chk.violation("harness does not build against /repo", {"broken": "harness build", "log": out[-3000:]}, False)
        return
    ok, out = build_shim()
    if not ok:
        chk.violation("crashfs shim does not build", {"broken": "shim build", "log": out[-2000:]}, False)
        return
    base = os.path.join(lib.WORK, "crash", "run%d" % os.getpid())
    shutil.rmtree(base, ignore_errors=True)
    os.makedirs(base)
    try:
        _run(chk, rng, quick, proofs_ok, base)
        # the writer actor's Flush answer (after which the catalogue is saved) must not precede the data
        fa = lib.harness_run("snapfile", [{"k": "flush_ack", "n": n, "size": size} for n, size in ((3, 100), (5, 200000), (3, 4000000), (10, 1000000))] * 2)
        short = [r for r in fa if r.get("r") == "ok" and r["at_ack"] < r["want"]]
        chk.cov["flush_ack_cases"] = len(fa)
        if short or any(r.get("r") != "ok" for r in fa):
            r0 = (short or fa)[0]
            chk.classify("snapshot-flush-ack", "SnapshotWriterActor answered Flush while only %s of %s bytes of the snapshot file were on disk (in %d of %d "
                         "runs): do_build_snapshot saves the catalogue right after that answer, so a kill in the window leaves a catalogue "
                         "naming an incomplete snapshot file" % (r0.get("at_ack"), r0.get("want"), len(short), len(fa)),
                         {"suite": "snapfile", "case": {"k": "flush_ack", "n": 5, "size": 200000}, "impl": r0})
        # crash images INSIDE compaction windows, restarted by a real node (what crash_restart states, on the real code)
        from checks import c04_images
        import sys as _sys
        n_img = 0
        for ci in range(2 if quick else 8):
            b = os.path.join(base, "cimg%d" % ci)
            os.makedirs(b)
            try:
                # even: one log file, compactions every few entries; odd: several log files (rollover hook), compactions that
                # cut across file boundaries, crash points also around every new / removed log file
                ccase, cj, cjobs, couts, cbad, cstats = c04_images.crash_images(_sys.modules[__name__], rng, b, (16 if quick else 48) if ci % 2 == 0
                                                                                else (24 if quick else 60), multi_file=(ci % 2 == 1))
            except AssertionError as ex:
                chk.violation("restart suite under crashfs failed: %s" % str(ex)[:200], {"broken": "harness"}, False)
                continue
            n_img += len(cjobs)
            for pnt, what in cbad:
                chk.classify("compaction-crash-image",
                             "a node killed during a compaction / log rollover (after file mutation #%d of the observed journal) and restarted: %s" % (pnt, what),
                             {"suite": "restart under crashfs + restart-child", "case": ccase, "journal_prefix": pnt,
                              "journal_tail": [[m[0], m[1].split("/data/")[-1]] + ([m[2]] if len(m) > 2 and not isinstance(m[2], bytes) else [])
                                               for m in cj[max(0, pnt - 12):pnt]]})
        chk.cov["compaction_crash_images_restarted"] = n_img
        chk.cov["compactions_in_model_stage_order"] = sum(compaction_stage_order(chk, rng, os.path.join(base, "cmp%d" % i))
                                                          for i in range(1 if quick else 6))
    finally:
        shutil.rmtree(base, ignore_errors=True)


def _run(chk, rng, quick, proofs_ok, base):
    hists = [{"mode": m, "ops": o} for m, o in FIXED]
    n_actor, n_store = (26, 12) if quick else (300, 120)
    hists += [{"mode": "actor", "ops": gen_actor_history(rng)} for _ in range(n_actor)]
    hists += [{"mode": "store", "ops": gen_store_history(rng)} for _ in range(n_store)]

    def one(ix):
        return run_history(ix, hists[ix]["mode"], hists[ix]["ops"], base)

    with ThreadPoolExecutor(max_workers=8) as ex:
        outs = list(ex.map(one, range(len(hists))))

    stats = {"ack_before_write": 0, "applied_past_log": 0, "journal_deviates_from_model": 0,
             "log_cut_images": 0, "log_lagging_index_images": 0, "log_journal_reordered": 0}
    images = []     # (hist index, k, dir)
    for ix, (h, (journal, live)) in enumerate(zip(hists, outs)):
        h["journal"] = journal
        h["live"] = live
        h["snaps"] = expectations(h["ops"])
        # entries submitted to the log, in order: (index, term); a snapshot pointer sits at the last index
        sub, nxt = set(), 1
        for op in h["ops"]:
            if op[0] == "append":
                for _ in range(op[1]):
                    sub.add((nxt, op[2]))
                    nxt += 1
        h["submitted"] = sub
        files = {}
        acked = set()
        for k in range(len(journal) + 1):
            if k > 0:
                m = journal[k - 1]
                apply_mut(files, m)
                if m[0] == "C" and m[1] == "ack_mark":
                    continue
                if m[0] == "W" and m[1] == "ack_mark":
                    # not a mutation of the store, but a crash point of its own: the same files, one more
                    # acknowledgement known to the caller
                    for tok in m[3].decode().split():
                        acked.add(int(tok) - 1)
            d = os.path.join(base, "img", "h%d" % ix, "k%d" % k)
            write_image(d, files)
            images.append((ix, k, d, set(acked), bytes(files.get("index", b""))))

    cases = [{"mode": hists[ix]["mode"], "dir": d, "ops": []} for ix, k, d, _, _ in images]
    rec = lib.harness_run_parallel("indexfile", cases)

    # ---- oracle on every image (independent of the model)
    nontrivial = set()
    for (ix, k, d, acked, idxbytes), r in zip(images, rec):
        o = r["obs"][0] if r.get("r") == "ok" and r.get("obs") else "panic"
        judge_image(chk, hists[ix], k, acked, o, stats)
        nontrivial.add((ix, len(idxbytes), hash(idxbytes) % 1000003, tuple(sorted(
            (n, os.path.getsize(os.path.join(d, n))) for n in os.listdir(d)))))

    # ---- model: recover(image) on the bytes of every image's index file; journal of actor histories
    mism = 0
    try:
        exprs = ["open_image %s" % c05.coq_bytes(list(idxbytes)) for _, _, _, _, idxbytes in images]
        vals = lib.coq_eval_sharded("c04", HEADER, exprs, per=100)
        actor_ix = [ix for ix, h in enumerate(hists) if h["mode"] == "actor"]
        jvals = lib.coq_eval_sharded("c04j", HEADER, ["journal_of_script [%s]" % ";".join(c05.coq_op(o) for o in hists[ix]["ops"])
                                                      for ix in actor_ix], per=20)
    except RuntimeError as ex:
        chk.violation("model evaluation failed: %s" % str(ex)[:300], {"broken": "model evaluation", "log": str(ex)[-3000:]}, False)
        vals = jvals = None
    if vals is not None:
        for (ix, k, d, acked, idxbytes), r, v in zip(images, rec, vals):
            m = c05.canon_model_obs(v)
            o = r["obs"][0] if r.get("r") == "ok" and r.get("obs") else None
            i = c05.canon_impl_obs(o) if o else "fail"
            dd = c05.cmp_obs(m, i, with_file=False)
            if dd:
                mism += 1
                chk.violation("model recover != real recovery on a crash image: %s" % dd,
                              {"suite": "indexfile open", "ops": hists[ix]["ops"], "journal_prefix": k,
                               "index_file": list(idxbytes), "diff": dd, "correspondence": "RaftLog.Script.open_image"}, False)
        for ix, jv in zip(actor_ix, jvals):
            real = [m for m in hists[ix]["journal"] if m[1] == "index"]
            rj = [(1, 0, 0) if m[0] == "C" else (0, m[2], len(m[3])) if m[0] == "W" else (2, 0, 0) for m in real]
            mj = [(t[0], t[1], len(t[2])) for t in jv]
            if rj != mj:
                # same multiset of writes in another order = another linearisation (recorded, not judged);
                # anything else is a broken tie
                if sorted(rj) == sorted(mj):
                    stats["journal_deviates_from_model"] += 1
                else:
                    mism += 1
                    chk.violation("observed index-file journal != model journal (kind, offset, length): %s vs %s"
                                  % (rj[:8], mj[:8]),
                                  {"suite": "indexfile under crashfs", "ops": hists[ix]["ops"], "real": rj, "model": mj,
                                   "correspondence": "RaftLog.Crash.journal"}, False)

    # ---- the log file (LogInnerManager) under the same shim
    n_log, log_mism = log_part(chk, rng, quick, base, stats)
    mism += log_mism

    if not proofs_ok:
        chk.violation("proof obligations of C04 no longer check: %s" % chk.proof_failure[:300],
                      {"broken": "theorem", "detail": chk.proof_failure}, False)

    chk.cov["evaluations"] = len(images) + n_log
    chk.cov["distinct_nontrivial"] = len(nontrivial)
    chk.cov["rule"] = ("one evaluation = one directory image = one prefix of the OBSERVED syscall journal of one history, reopened "
                       "by the real recovery code (RaftIndexManager actor; in store mode the full FileStore chain with the log "
                       "manager). Non-trivial = distinct (history, index-file bytes, file sizes) image.")
    chk.cov["samples"] = [{"mode": hists[0]["mode"], "ops": hists[0]["ops"],
                           "journal": [list(m[:3]) + ([m[3].hex()[:60]] if m[0] == "W" else []) for m in hists[0]["journal"]]},
                          {"mode": hists[2]["mode"], "ops": hists[2]["ops"],
                           "journal": [list(m[:3]) + ([m[3].hex()[:40]] if m[0] == "W" else []) for m in hists[2]["journal"]]}]
    chk.cov["input_distribution"] = dict(histories_actor=sum(1 for h in hists if h["mode"] == "actor"),
                                         histories_store=sum(1 for h in hists if h["mode"] == "store"),
                                         journal_mutations=sum(len(h["journal"]) for h in hists),
                                         images=len(images), model_impl_mismatches=mism, **stats)
    chk.assumptions += [
        "crash model of the property: process death, OS survives, every write call atomic, applied in issue order",
        "the observed journal is ONE linearisation chosen by the tokio blocking pool; others are not enumerated",
        "log file: append histories proved; delete-from images, rollover and snapshot files judged by replay only",
        "log-file histories start at index 1 in a fresh file; payloads are pseudo-random bytes of 0..300 (one history 230000) bytes",
        "acknowledged-but-unflushed log entries may be absent from an image (the property demands only flushed ones)",
    ]
    chk.notes["crash_stats"] = stats
