"""C01 — served state survives restart: snapshot plus log replay reproduces it exactly."""
import copy
import json
import os
import shutil
import sys

import lib
from checks import c07

TARGETS = ["Props/C01.v"]

MANIFEST = dict(
    text="Theorems (Rocq): for ALL histories of committed component messages x ALL compaction points x ALL leftovers of an "
         "interrupted earlier compaction attempt, the node restarted from (snapshot file BYTES, log, last_applied) is "
         "observationally equivalent on every component to the node that ran the history. Generic form "
         "(C01_restart_reproduces) over a component interface with invariants; CONCRETE form without component, framing or "
         "codec premises (C01_restart_reproduces_config_seq) for the ConfigActor store (cache with content/md5/type/desc/"
         "history/last_modified, listed keys, history-id high-water mark: builder E's model), SequenceDbManager and the "
         "TableManager rows: their snapshot round-trip laws are PROVED (C01_config_snapshot_roundtrip, "
         "C01_component_roundtrip_laws) over byte-level codecs (LogSnapshotItem, ConfigValueDO/ConfigHistoryItemDO, "
         "id_to_bin) built on the protobuf wire layer, and the C20 framing theorem chunking_invariance discharges the "
         "file layer. The snapshot fan-out tables (build order, tree-name routing incl. the unknown-tree arm, tree names "
         "each component writes) are REGENERATED from raftdata.rs and the component sources on every run and proved closed "
         "(C01_tree_names_closed). Interrupted compaction: full strength for the repaired writer, refuted witness for the "
         "writer without truncate; compaction racing with apply: exact on replay-idempotent components "
         "(C01_restart_racy_idempotent), refuted on accumulating ones. Tied to the code by the translator and by "
         "correspondence suites on the real code: SnapshotWriter/Reader vs the file model, load_snapshot routing vs the "
         "generated table, REAL record / ConfigValueDO / id_to_bin bytes vs the model encoders and decoders, and "
         "multi-phase restarts of a full in-process single-node Raft (all ClientRequest kinds, natural compactions, planted "
         "partial snapshot files) whose post-restart dump is diffed against the pre-stop dump.",
    note="proof, partial: Namespace, Naming, MCP and direct cache still enter only through the interface {apply; snapshot; "
         "load_record; observe} with the round-trip law as hypothesis (known findings show that the law FAILS for cache, "
         "MCP, namespace marker/weak flags); the concrete corollary assumes requests in scope (imported keys are "
         "ConfigKeys, sequence key != SEQ_CONFIG, tables T_USER/T_CACHE, no temporary follower values) and an encodable "
         "state at the compaction point (byte strings, u64 ids); UTF-8 validation of protobuf strings is not modelled; "
         "compaction concurrent with apply is only sampled; last_applied is assumed flushed at the stop point. Trusted: "
         "Coq kernel+vm_compute, translators (self-tested), harness/runner glue.",
    technique="Rocq proof (fold/fan-out lemmas over generated tables, file model over the C20 framing, protobuf codecs over "
              "PbWire, concrete component models) + translator + model/implementation correspondence + restart oracle "
              "on a real in-process node",
    design="3/C01",
)

ARM_COMP = {"KSequence": "sequence", "KConfig": "config", "KTable": "table", "KNamespace": "namespace",
            "KMcp": "mcp", "KNaming": "naming", "KCache": "cache"}


def run_translator():
    out = os.path.join(lib.COQ, "Gen", "SnapshotTables.v")
    js = os.path.join(lib.WORK, "tmp", "snapshot_%d.json" % os.getpid())
    rc, log = lib.sh([sys.executable, os.path.join(lib.VERIF, "translators", "snapshot.py"), lib.REPO, out, "--json", js],
                     timeout=120)
    if rc != 0:
        return None, log.strip()
    d = json.load(open(js))
    os.remove(js)
    return d, log.strip()


MUTATIONS = [
    ("load_snapshot arm routed to another component", "src/raft/filestore/raftdata.rs",
     "            let req = RaftApplyDataRequest::LoadSnapshotRecord(record);\n            self.namespace.send(req).await??;",
     "            let req = RaftApplyDataRequest::LoadSnapshotRecord(record);\n            self.naming_actor.send(req).await??;",
     "closure_breaks"),
    ("load_snapshot arm removed", "src/raft/filestore/raftdata.rs",
     "        } else if record.tree.as_str() == NAMING_INSTANCE_TABLE.as_str() {\n            let req = RaftApplyDataRequest::LoadSnapshotRecord(record);\n            self.naming_actor.send(req).await??;\n",
     "", "closure_breaks"),
    ("build_snapshot skips a component", "src/raft/filestore/raftdata.rs",
     "        self.mcp_manager\n            .send(RaftApplyDataRequest::BuildSnapshot(writer.clone()))\n            .await??;\n", "", "refused"),
    ("component writes a new tree name", "src/namespace/mod.rs", "tree: NAMESPACE_TREE_NAME.clone(),", "tree: USER_TREE_NAME.clone(),",
     "closure_breaks"),
    ("load error swallowed", "src/raft/filestore/raftdata.rs", "self.table.send(req).await??;\n        } else if record.tree.as_str() == CACHE_TREE_NAME",
     "self.table.send(req).await.ok();\n        } else if record.tree.as_str() == CACHE_TREE_NAME", "refused"),
]


def closure_ok(consts_arms, writes):
    """python re-statement of closed_entry over the generated tables (used only for the mutation self-test)"""
    def route(tree, key):
        for names, kc, kv, comp, msg in consts_arms:
            if tree in names and (kc != "KeyIs" or key == kv):
                return comp
        return None
    ok = True
    for comp, ws in writes.items():
        for kind, name, kc in ws:
            if kind == "dynamic":
                ok &= route("USER_TREE_NAME", "k") == comp and route("CACHE_TREE_NAME", "k") == comp
            elif kc:
                ok &= route(name, kc) == comp
            else:
                ok &= route(name, "some-key") == comp
    return ok


def translator_selftest():
    sys.path.insert(0, os.path.join(lib.VERIF, "translators"))
    import snapshot as tr
    from rust_lex import Refuse
    root = os.path.join(lib.WORK, "tmp", "mutc01_%d" % os.getpid())
    files = ["src/raft/filestore/raftdata.rs", "src/common/constant.rs"] + list(tr.COMP_FILE.values())
    res = []
    for name, rel, old, new, expect in MUTATIONS:
        shutil.rmtree(root, ignore_errors=True)
        for r in files:
            os.makedirs(os.path.dirname(os.path.join(root, r)), exist_ok=True)
            shutil.copyfile(os.path.join(lib.REPO, r), os.path.join(root, r))
        p = os.path.join(root, rel)
        src = open(p).read()
        if src.count(old) < 1:
            res.append((name, "anchor-missing", False))
            continue
        open(p, "w").write(src.replace(old, new, 1))
        try:
            consts, order, arms, writes = tr.translate(root)
            outcome = "accepted-closed" if closure_ok(arms, writes) else "closure_breaks"
        except Refuse:
            outcome = "refused"
        res.append((name, outcome, outcome == expect or (outcome == "refused" and expect == "closure_breaks")))
    shutil.rmtree(root, ignore_errors=True)
    return res


# ------------------------------------------------------------------ tiny protobuf reader (LogSnapshotItem)
def pb_varint(b, i):
    v, s = 0, 0
    while True:
        x = b[i]
        i += 1
        v |= (x & 0x7F) << s
        s += 7
        if x < 128:
            return v, i


def pb_fields(b):
    i, out = 0, {}
    while i < len(b):
        tag, i = pb_varint(b, i)
        f, wt = tag >> 3, tag & 7
        if wt == 0:
            v, i = pb_varint(b, i)
        elif wt == 2:
            ln, i = pb_varint(b, i)
            v = b[i:i + ln]
            i += ln
        else:
            raise ValueError("wire type %d" % wt)
        out[f] = v
    return out


def frame_to_record(frame):
    ln, i = pb_varint(frame, 0)
    f = pb_fields(frame[i:i + ln])
    return [bytes(f.get(1, b"")).decode("utf-8", "replace"), list(f.get(4, b"")), list(f.get(5, b""))]   # LogSnapshotItem: tree=1, key=4, value=5


# ------------------------------------------------------------------ generators
def gen_snapfile_cases(rng, n):
    cases = []
    trees = ["T_USER", "T_CONFIG", "T_NAMESPACE", "T_SEQUENCE", "T_X"]

    def recs(k, big=False):
        out = []
        for _ in range(k):
            vl = rng.choice([1, 3, 20, 120, 130, 600, 1100]) if big else rng.choice([1, 2, 5, 30])
            out.append([rng.choice(trees), [rng.randrange(97, 123) for _ in range(rng.randrange(1, 6))],
                        [rng.randrange(256) for _ in range(vl)]])
        return out
    for i in range(n):
        new = recs(rng.randrange(0, 7), big=rng.random() < 0.5)
        kind = rng.randrange(5)
        hdr = {"last_index": rng.choice([1, 7, 127, 128, 300, 20000]), "last_term": rng.choice([1, 2]), "member": [1]}
        if kind == 0:
            c = {"old": None, "old_raw": None}
        elif kind == 1:      # the defect class: same records plus more, same header
            c = {"old": new + recs(rng.randrange(1, 4)), "old_raw": None}
        elif kind == 2:      # shorter leftover
            c = {"old": new[:max(0, len(new) - 1)], "old_raw": None}
        elif kind == 3:      # unrelated longer garbage
            c = {"old": None, "old_raw": [rng.randrange(1, 256) for _ in range(rng.choice([10, 500, 3000]))]}
        else:                # longer leftover with different records
            c = {"old": recs(len(new) + rng.randrange(1, 5), big=True), "old_raw": None}
        c.update({"hdr": hdr, "recs": new, "kind": kind})
        cases.append(c)
    return cases


def gen_restart_case(rng, g, samples, tier, plant):
    """phases of a single-node history; threshold small so that compactions happen naturally"""
    threshold = rng.choice([6, 10, 17, 30])
    nph = rng.choice([2, 3])
    phases = []
    for p in range(nph):
        n = rng.choice([8, 20, 45]) if tier == "quick" else rng.choice([20, 60, 150])
        reqs = [q for q in g.sequence(n) if c07.variant_of(q) not in ("NodeAddr", "Members")]
        # deletes matter for resurrection: remove a few earlier keys
        phases.append({"reqs": reqs})
    case = {"threshold": threshold, "phases": phases, "plants": [], "pace": rng.random() < 0.75}
    if plant:
        # a partial snapshot_<next id> that is longer than what the next compaction will write:
        # extra records = a user that never existed and a config that is not served
        extra = [["T_USER", "67686f7374", "0a0567686f7374"],
                 ["T_CONFIG", "67686f73740267", "0a05676f6e6521"]]
        case["plants"].append({"before_phase": 1, "kind": "copy_last_plus", "extra": extra})
    return case


TABLES_IN_USE = ("T_USER", "T_CACHE")
SNAP_TREE_COMP = {"T_CONFIG": "config", "T_SEQUENCE": "sequences", "T_USER": "table", "T_CACHE": "table",
                  "T_NAMESPACE": "namespace", "T_MCP_SERVER": "mcp", "T_MCP_TOOL_SPEC": "mcp",
                  "T_NAMING_INSTANCE": "naming", "T_DIRECT_CACHE": "cache"}


def norm_naming(v):
    """a service without instances (left behind when its last persistent instance is removed) is not persisted;
    the property speaks of persistent service INSTANCES: an empty service shell counts as absent"""
    if isinstance(v, dict):
        if "instance_size" in v and v.get("instance_size") == 0 and not v.get("metadata"):
            return None
        return {k: norm_naming(x) for k, x in v.items()}
    if isinstance(v, list):
        return [norm_naming(x) for x in v]
    return v


def split_dump(d):
    """per-component views of a node dump; tables that no API serves go to 'out_of_scope'"""
    parts = {k: [d.get(k)] for k in ("config", "mcp", "naming", "cache", "index")}
    parts["naming"] = [norm_naming(d.get("naming"))]
    seqs = d.get("sequences") or []
    parts["sequences"] = [[x for x in seqs if x[0] != "SEQ_CONFIG"]]
    parts["config"].append([x for x in seqs if x[0] == "SEQ_CONFIG"])
    parts["namespace"] = [(d.get("namespace") or {}).get("sorted")]
    t = d.get("table") or {}
    # an empty table and an absent table answer every query identically: drop empty ones
    parts["table"] = [[x for x in t.get("tables", []) if x.get("name") in TABLES_IN_USE and x.get("rows")]]
    parts["out_of_scope"] = [[x for x in t.get("tables", []) if x.get("name") not in TABLES_IN_USE],
                             [n for n in t.get("names", []) if n not in TABLES_IN_USE]]
    for r in d.get("snapshot", []):
        tree = r.get("tree")
        comp = SNAP_TREE_COMP.get(tree, "out_of_scope")
        if tree == "T_SEQUENCE" and r.get("key") == "5345515f434f4e464947":
            comp = "config"
        parts[comp].append(r)
    return parts


ADMIN_HEX = "61646d696e"


def startup_admin_only(before, after):
    """the only difference is the default admin row that start-up inserts into an empty T_USER"""
    def users(d):
        rows = []
        for t in (d[0] if d and isinstance(d[0], list) else []):
            if isinstance(t, dict) and t.get("name") == "T_USER":
                rows += [r[0] for r in t.get("rows", [])]
        return rows

    def strip(d):
        out = json.loads(json.dumps(d))
        if out and isinstance(out[0], list):
            out[0] = [t for t in out[0] if not (isinstance(t, dict) and t.get("name") == "T_USER")]
        return [x for x in out if not (isinstance(x, dict) and x.get("tree") == "T_USER" and x.get("key") == ADMIN_HEX)]
    return users(before) == [] and users(after) == [ADMIN_HEX] and strip(before) == strip(after)


def classify_restart_diff(comp, a, b, case, phase=None):
    """stable key of the known finding that explains a difference in component `comp`, or 'none'"""
    ds = json.dumps([a, b])
    if "ghost" in ds:
        return "C01:snapshot-stale-tail"
    racy = not case.get("pace", False)
    if comp == "cache":
        # (the recorded finding makes every restored entry invisible; whatever the replayed log then does to such a key -
        #  an Incr that restarts from zero, a Set-if-absent that now succeeds - differs as well: not separable on dumps.
        #  The OTHER direction, a lifetime that GROWS through a snapshot, is checked directly in part B2 below.)
        return "C01:direct-cache-snapshot-expired"
    if comp == "mcp":
        return "C01:mcp-toolspec-roundtrip"
    if comp == "namespace":
        # user namespaces (flag bit 2) must come back with the same id and name, whatever weak bits they also
        # carry; only the marker record and the weak CONFIG/NAMING bits / weak-only namespaces are recorded findings
        def users(x, ids):
            lst = x[0] if x and isinstance(x[0], list) else []
            return sorted((e.get("id"), e.get("name"), bool(e.get("flag", 0) & 2)) for e in lst
                          if isinstance(e, dict) and e.get("id") in ids)
        # namespaces the history created with NamespaceReq::Set (what the API does) and did not delete afterwards
        set_ids = set()
        for ph in case["phases"][:phase if phase is not None else len(case["phases"])]:
            for q in ph["reqs"]:
                nr = q.get("NamespaceReq") if isinstance(q, dict) else None
                if not nr:
                    continue
                if "Set" in nr and nr["Set"].get("namespace_id") not in ("", "public", "__already_sync"):
                    set_ids.add(nr["Set"]["namespace_id"])
                if "Delete" in nr:
                    set_ids.discard(nr["Delete"].get("id"))
        if users(a, set_ids) != users(b, set_ids):
            return "none"
        return "C01:namespace-already-sync-marker" if "__already_sync" in ds else "C01:weak-namespace-flags-not-restored"
    if comp in ("sequences", "config") and racy:
        return "C01:compaction-concurrent-apply"
    return "none"


HEADER = ("From RN Require Import SM.Replay RaftLog.SnapFile SM.SnapCodec SM.Concrete SM.ConcreteNs.\n"
          "Open Scope N_scope.\nOpen Scope string_scope.\n")


def coq_bytes(b):
    return "[" + ";".join(str(x) for x in b) + "]%N"


def coq_opt_bytes(s):
    return "None" if s is None else "(Some %s)" % coq_bytes(list(s.encode("utf-8")))


def coq_value_of_dump(get, hist_newest_first):
    """a cvalue from what the real ConfigActor answers (GET + history page): only the fields that
    ConfigValueDO carries matter for enc_value"""
    hs = []
    for h in reversed(hist_newest_first):
        hs.append("mkHist %d %s %d %s" % (h["id"], coq_bytes(list(h["content"].encode("utf-8"))), h["modified_time"],
                                           coq_opt_bytes(h.get("op_user"))))
    return "(mkVal %s [] false [%s] %s %s 0)" % (
        coq_bytes(list(get["content"].encode("utf-8"))), ";".join(hs), coq_opt_bytes(get.get("config_type")),
        coq_opt_bytes(get.get("desc")))


def model_opt_bytes(v):
    if v == "None":
        return None
    return bytes(v[1]).decode("utf-8", "replace")


def run(chk, replay=None):
    tier = chk.tier
    rng = chk.rng
    tables, tlog = run_translator()
    if tables is None:
        chk.violation("translators/snapshot.py refuses the sources: %s" % tlog[:300], {"broken": "translator snapshot.py", "log": tlog}, False)
    proofs_ok = chk.proofs(TARGETS)
    ok, out = lib.harness_build()
    if not ok:
        chk.violation("harness does not build against the repo", {"broken": "harness build", "log": out[-3000:]}, False)
        return
    env = {"RNVERIF_TMP": os.path.join(lib.WORK, "tmp")}
    st = translator_selftest()
    chk.notes["translator_selftest"] = [{"mutation": n, "outcome": o, "as_expected": k} for n, o, k in st]
    for n, o, k in st:
        if not k:
            chk.violation("translator self-test: mutation '%s' gave '%s'" % (n, o), {"broken": "translator self-test", "mutation": n}, False)

    n_eval = 0
    nontrivial = set()
    mism = 0

    # ---- A. snapshot file: real SnapshotWriter / SnapshotReader vs RaftLog/SnapFile.v ----------------
    sf_cases = gen_snapfile_cases(rng, 300 if tier == "quick" else 3000)
    sf_impl = lib.harness_run_parallel("snapfile", sf_cases, env=env)
    exprs, idx = [], []
    for i, (c, r) in enumerate(zip(sf_cases, sf_impl)):
        n_eval += 1
        if r.get("r") != "ok":
            chk.violation("snapfile case failed: %s" % json.dumps(r)[:200], {"suite": "snapfile", "case": c, "impl": r}, True)
            continue
        if c["kind"] in (1, 3, 4):
            nontrivial.add(("leftover", c["kind"], len(c["recs"]), r.get("file_len")))
        # property oracle: the reader returns exactly the records of the LAST write
        got = r["records"]
        if got != c["recs"] or r.get("end") != "none":
            chk.classify("C01:snapshot-stale-tail",
                         "snapshot written over a leftover file of the same id reads back %d records instead of %d (first extra: %s)"
                         % (len(got), len(c["recs"]), json.dumps(got[len(c["recs"]):][:1])[:120]),
                         {"suite": "snapfile", "case": c, "got": got})
        if "file" in r and r["file"] is not None and len(r["file"]) <= 4000:
            exprs.append("snap_read %s" % lib.coq_list(r["file"]))
            idx.append(i)
            # the repaired writer: the file is exactly the new image
            want = list(r["frames"]["header"]) + [b for f in r["frames"]["records"] for b in f]
            if r["file"] != want:
                mism += 1
                chk.violation("model != implementation (write_truncate: file is not the new image; %d bytes vs %d)" % (len(r["file"]), len(want)),
                              {"suite": "snapfile", "case": c, "file_len": len(r["file"]), "image_len": len(want),
                               "correspondence": "RaftLog.SnapFile.write_truncate"}, False)
    try:
        vals = lib.coq_eval_sharded("c01sf", HEADER, exprs, per=12) if exprs else []
    except RuntimeError as ex:
        chk.violation("model evaluation failed: %s" % str(ex)[:300], {"broken": "model evaluation", "log": str(ex)[-3000:]}, False)
        vals = None
    if vals is not None:
        for i, v in zip(idx, vals):
            c, r = sf_cases[i], sf_impl[i]
            if isinstance(v, tuple) and v[0] == "Ok":
                h, frames = v[1]
                try:
                    mrecs = [frame_to_record(bytes(f)) for f in frames]
                except Exception:
                    mrecs = "undecodable"
                # the reader stops at the first frame that does not decode; the model returns raw frames, so
                # compare the decodable prefix
                if mrecs != "undecodable" and mrecs[:len(r["records"])] != r["records"]:
                    mism += 1
                    chk.violation("model != implementation (snap_read): %s" % lib.diff_first(mrecs, r["records"]),
                                  {"suite": "snapfile", "case": c, "model": mrecs, "impl": r["records"], "correspondence": "RaftLog.SnapFile.snap_read"}, False)
            else:
                if r["records"]:
                    mism += 1
                    chk.violation("model != implementation (snap_read fails in the model: %s)" % str(v)[:80],
                                  {"suite": "snapfile", "case": c, "model": str(v), "impl": r["records"], "correspondence": "RaftLog.SnapFile.snap_read"}, False)

    # ---- B. routing: real load_snapshot vs the generated load_arms -------------------------------------
    rs = lib.harness_run("dispatch", [{"k": "route_samples"}], env=env)[0]
    route_cases = []
    for name, (tree, key, value) in sorted(rs.get("samples", {}).items()):
        route_cases.append({"k": "route", "tree": tree, "key": key, "value": value})
    seqv = [0, 0, 0, 0, 0, 0, 0, 9]
    route_cases += [{"k": "route", "tree": "T_SEQUENCE", "key": list(b"SEQ_CONFIG"), "value": seqv},
                    {"k": "route", "tree": "T_SEQUENCE", "key": list(b"seqX"), "value": seqv},
                    {"k": "route", "tree": "T_OTHER", "key": list(b"k"), "value": [1]},
                    {"k": "route", "tree": "tb1", "key": list(b"k"), "value": [1]},
                    {"k": "route", "tree": "", "key": list(b"k"), "value": [1]}]
    r_impl = lib.harness_run("dispatch", route_cases, env=env)
    try:
        r_model = lib.coq_eval_sharded("c01rt", HEADER, ["route load_arms %s %s" % (
            coq_bytes(list(c["tree"].encode("utf-8"))), coq_bytes(c["key"])) for c in route_cases], per=50)
    except RuntimeError as ex:
        chk.violation("model evaluation failed: %s" % str(ex)[:300], {"broken": "model evaluation", "log": str(ex)[-3000:]}, False)
        r_model = None
    for k, (c, r) in enumerate(zip(route_cases, r_impl)):
        n_eval += 1
        nontrivial.add(("route", c["tree"], bytes(c["key"]).decode("utf-8", "replace")[:12]))
        if r_model is None:
            continue
        m = r_model[k]
        want = [] if m == "None" else [ARM_COMP[m[1][0]]]
        got = sorted(r.get("changed", []))
        # side effects through handler-to-handler forwards (not part of the routing): a T_CACHE row is forwarded by
        # TableManager to both cache managers; a persistent instance registers its namespace as a weak namespace
        extras = {"T_CACHE": {"cache", "legacy_cache"}, "T_NAMING_INSTANCE": {"namespace"}, "T_CONFIG": {"namespace"}}.get(c["tree"], set())
        undecodable = str(r.get("result", "")).startswith("err:")
        okr = r.get("r") == "ok" and (set(want) <= set(got) and set(got) - set(want) <= extras or (undecodable and got == []))
        if not okr:
            mism += 1
            chk.violation("model != implementation (load_snapshot routing of tree %r key %r): model %s impl %s" % (
                c["tree"], bytes(c["key"])[:12], want, got),
                {"suite": "dispatch/route", "case": c, "model": want, "impl": r, "correspondence": "Gen.SnapshotTables.load_arms"}, False)

    # ---- B2. record codecs: real bytes vs SM/SnapCodec.v -------------------------------------------------
    # (i) LogSnapshotItem frames as the real SnapshotWriter wrote them (snapfile suite) vs frame (enc_item r), and
    #     dec_item_frame on the real frame; (ii) ConfigValueDO bytes of the real ConfigActor snapshot records vs
    #     enc_value of the value the real actor serves, and dec_value on the real bytes; (iii) id_to_bin vs be8
    exprs, meta = [], []
    for c, r in list(zip(sf_cases, sf_impl))[:60]:
        if r.get("r") != "ok":
            continue
        for rec, fr in list(zip(c["recs"], r["frames"]["records"]))[:3]:
            if len(fr) > 700:
                continue
            tree, key, val = rec
            rc = "(mkRec %s %s %s)" % (coq_bytes(list(tree.encode("utf-8"))), coq_bytes(key), coq_bytes(val))
            exprs.append("(frame (enc_item %s), dec_item_frame %s)" % (rc, coq_bytes(fr)))
            meta.append(("item", rec, fr))
    samples_d = lib.harness_run("dispatch", [{"k": "samples"}], env=env)[0]["samples"]
    gd = c07.Gen(rng, samples_d)
    dcases = [{"reqs": [q for q in gd.sequence(rng.choice([8, 20, 40]))], "batches": [], "via": "direct"} for _ in range(24 if tier == "quick" else 200)]
    douts = lib.harness_run_parallel("dispatch", dcases, env=env)
    seen_vals = set()
    for dc, do in zip(dcases, douts):
        if do.get("r") != "ok":
            continue
        dump = do["leader"]["dump"]
        views = {x["key"]: x for x in dump["config"]["keys"]}
        for rec in dump["snapshot"]:
            if rec["tree"] == "T_CONFIG":
                key = bytes.fromhex(rec["key"]).decode("utf-8", "replace")
                v = views.get(key)
                if not v or not v.get("get") or rec["value"] in seen_vals or len(rec["value"]) > 1200:
                    continue
                seen_vals.add(rec["value"])
                real = list(bytes.fromhex(rec["value"]))
                exprs.append("(enc_value %s, dec_value %s)" % (coq_value_of_dump(v["get"], v["history"]["list"]), coq_bytes(real)))
                meta.append(("value", v, real))
            elif rec["tree"] == "T_NAMESPACE" and rec["value"] not in seen_vals:
                seen_vals.add(rec["value"])
                nid = bytes.fromhex(rec["key"]).decode("utf-8", "replace")
                ent = [x for x in dump["namespace"]["sorted"] if x["id"] == nid]
                # the marker record is written without being a namespace of the live actor
                name, flag = (ent[0]["name"], ent[0]["flag"]) if ent else ("", 2)
                real = list(bytes.fromhex(rec["value"]))
                if nid == "__already_sync" and bytes(real[2 + len(nid):4 + len(nid)]) == b"\x12\x00":
                    name, flag = "", 2      # the marker record itself (a namespace with this id may exist as well)
                exprs.append("(enc_ns %s %s (db_type %d), dec_ns %s)" % (
                    coq_bytes(list(nid.encode("utf-8"))), coq_bytes(list(name.encode("utf-8"))), flag, coq_bytes(real)))
                meta.append(("ns", (nid, name, flag), real))
            elif rec["tree"] == "T_SEQUENCE" and len(seen_vals) < 400:
                real = list(bytes.fromhex(rec["value"]))
                n = int.from_bytes(bytes(real), "big")
                if ("seq", n) in seen_vals:
                    continue
                seen_vals.add(("seq", n))
                exprs.append("(be8 %d, of_be8 %s)" % (n, coq_bytes(real)))
                meta.append(("be8", n, real))
    try:
        cvals = lib.coq_eval_sharded("c01cd", HEADER, exprs, per=12) if exprs else []
    except RuntimeError as ex:
        chk.violation("model evaluation failed: %s" % str(ex)[:300], {"broken": "model evaluation", "log": str(ex)[-3000:]}, False)
        cvals = []
    codec_counts = {"item": 0, "value": 0, "be8": 0, "ns": 0}
    for (kind, a, real), mv in zip(meta, cvals):
        n_eval += 1
        codec_counts[kind] += 1
        enc, dec = mv
        bad = None
        if list(enc) != list(real):
            bad = "encoder bytes differ: model %s real %s" % (list(enc)[:24], list(real)[:24])
        elif kind == "item":
            want = [list(a[0].encode("utf-8")), list(a[1]), list(a[2])]
            got = None if dec == "None" else [list(dec[1]["rtree"]), list(dec[1]["rkey"]), list(dec[1]["rval"])]
            if got != want:
                bad = "dec_item_frame(real frame) = %s, written record %s" % (got, want)
        elif kind == "ns":
            ok_dec = isinstance(dec, tuple) and dec[0] == "Ok" and model_opt_bytes(dec[1]["nd_id"]) == a[0] \
                and model_opt_bytes(dec[1]["nd_name"]) == a[1] and model_opt_bytes(dec[1]["nd_type"]) == ("0" if a[2] == 1 else "2")
            if not ok_dec:
                bad = "dec_ns(real bytes) = %s, namespace %s" % (str(dec)[:80], a)
        elif kind == "be8":
            if dec == "None" or dec[1] != a:
                bad = "of_be8(real bytes) = %s, value %s" % (dec, a)
        else:
            if not (isinstance(dec, tuple) and dec[0] == "Ok"):
                bad = "dec_value(real bytes) = %s" % str(dec)[:60]
            else:
                d = dec[1]
                got = (bytes(d["do_content"]).decode("utf-8", "replace"), model_opt_bytes(d["do_type"]), model_opt_bytes(d["do_desc"]),
                       [(h["h_id"], bytes(h["h_content"]).decode("utf-8", "replace"), h["h_time"], model_opt_bytes(h["h_user"])) for h in d["do_hist"]])
                g = a["get"]
                want = (g["content"], g.get("config_type"), g.get("desc"),
                        [(h["id"], h["content"], h["modified_time"], h.get("op_user")) for h in reversed(a["history"]["list"])])
                if got != want:
                    bad = "dec_value(real bytes) != served value: %s" % lib.diff_first(list(got), list(want))
        if bad:
            mism += 1
            chk.violation("model != implementation (%s codec): %s" % (kind, bad),
                          {"suite": "snapfile/dispatch", "kind": kind, "case": a if kind != "value" else a.get("key"), "real": real,
                           "correspondence": "SM.SnapCodec"}, False)
        else:
            nontrivial.add(("codec", kind, len(real)))

    # ---- B3. the exclusion of cfg_inv (no temporary values) on the real actors: the model's refuted
    #      statement C01_tmp_value_snapshot_refuted replayed (SetTmpValue -> snapshot -> load -> commit)
    tkey = "d\x02g"
    tcase = {"k": "tmp_snapshot", "key": tkey, "content": "v",
             "commit": {"ConfigSet": {"key": tkey, "value": "v", "config_type": None, "desc": None, "history_id": 1,
                                      "history_table_id": None, "op_time": 10, "op_user": None}}}
    tr = lib.harness_run("dispatch", [tcase], env=env)[0]
    n_eval += 1
    if tr.get("r") != "ok":
        chk.violation("tmp_snapshot case failed: %s" % json.dumps(tr)[:200], {"suite": "dispatch", "case": tcase, "impl": tr}, True)
    else:
        def hist_total(d):
            return [x["history"]["total"] for x in d["config"]["keys"] if x["key"] == tkey]
        ha, hb = hist_total(tr["a_committed"]), hist_total(tr["b_committed"])
        chk.notes["tmp_value_snapshot"] = {"live_history_total": ha, "restarted_history_total": hb, "model": [[1], [0]]}
        if ha != hb:
            chk.classify("C01:tmp-value-snapshot-loses-history",
                         "history of a config whose temporary value was snapshotted: live %s, restarted %s" % (ha, hb),
                         {"suite": "dispatch", "case": tcase, "live": ha, "restarted": hb})
        if (ha, hb) != ([1], [0]):
            mism += 1
            chk.violation("model != implementation (temporary value through a snapshot): model ([1],[0]) impl (%s,%s)" % (ha, hb),
                          {"suite": "dispatch", "case": tcase, "impl": [ha, hb], "correspondence": "SM.ConcreteInst.tmp_value_snapshot_refuted"}, False)

    # ---- B2. direct-cache entries through a snapshot: a finite lifetime must never grow --------------------------------
    # node A holds entries with a finite expiry (a login token, a counter); a fresh node B loads A's real snapshot.  On B an
    # entry may be gone (the recorded finding: it fails closed) but it must not live longer than on A (permanent / later expiry).
    cset = dict(samples_b2 := lib.harness_run("dispatch", [{"k": "samples"}], env=env)[0]["samples"])
    creqs = [q for k_, q in cset.items() if k_.startswith("CacheReq/") and "Limit" not in k_ and ("Set" in k_ or "Incr" in k_ or "Decr" in k_)]
    inst = lib.harness_run("dispatch", [{"k": "install", "reqs": creqs, "prefix": 0}], env=env)[0]
    n_eval += 1
    if inst.get("r") != "ok":
        chk.violation("install case failed: %s" % json.dumps(inst)[:200], {"suite": "dispatch", "case": {"k": "install", "reqs": creqs, "prefix": 0}}, True)
    else:
        ca = {(e.get("type"), e.get("key")): e for e in inst["a_final"]["cache"]}
        for e in inst["b_installed"]["cache"]:
            va = ca.get((e.get("type"), e.get("key")), {})
            vis_b = (e.get("exists") or {}).get("Exists") is True
            if vis_b and va.get("expire") is not None and (e.get("expire") is None or e["expire"] > va["expire"]):
                chk.classify("C01:cache-lifetime-grows", "direct-cache entry %s with expiry %s on the node that wrote it is %s on a node that "
                             "loaded its snapshot: a lifetime grows through the snapshot (an expired login token would be accepted)"
                             % (e.get("key"), va.get("expire"), "PERMANENT" if e.get("expire") is None else "valid until %s" % e["expire"]),
                             {"suite": "dispatch", "case": {"k": "install", "reqs": creqs, "prefix": 0}, "writer": va, "loader": e})
            if (va.get("exists") or {}).get("Exists") is True:
                nontrivial.add(("cache-lifetime", e.get("key"), vis_b))

    # ---- C. restart oracle on a real single-node Raft ------------------------------------------------------
    samples = lib.harness_run("dispatch", [{"k": "samples"}], env=env)[0]["samples"]
    g = c07.Gen(rng, samples)
    n_hist = 48 if tier == "quick" else 600
    rcases = []
    if replay:
        rp = json.load(open(replay))["replay"]
        if isinstance(rp, dict) and rp.get("suite") == "restart":
            rcases.append(rp["case"])
    # corpus: the aligned interrupted-compaction plant (a leftover snapshot_2 whose extra records start exactly where
    # the next real snapshot ends) — with the writer before the repair the ghost user/config are served after the restart
    for line in open(os.path.join(os.path.dirname(os.path.abspath(__file__)), "c01_corpus.jsonl")):
        if line.strip():
            rcases.append(json.loads(line))
    for i in range(n_hist):
        rcases.append(gen_restart_case(rng, g, samples, tier, plant=(i % 2 == 1)))
    # a LONG log suffix behind the last snapshot (the default snapshot size is 10000 entries): more than 2048 applied
    # entries are replayed from one log file at start-up, every one of them must reach the state machine
    big, hid = [], 0
    for j in range(2300 if tier == "quick" else 4500):
        hid += 1
        big.append({"ConfigSet": {"key": c07.K("big%d" % (j % 700), "g1", ""), "value": "v%d" % j, "config_type": None, "desc": None,
                                  "history_id": hid, "history_table_id": None, "op_time": 1700000000000 + hid, "op_user": None}})
    rcases.append({"threshold": 100000, "phases": [{"reqs": big}, {"reqs": big[:3]}], "plants": [], "pace": True})
    # ONE key changed more often than the history bound (100), compacted while its history is AT the bound, then restarted:
    # the history served after the restart must be the one served before the stop
    hot = []
    for j in range(170):
        hid += 1
        # 110 changes of the hot key, then 60 changes of other keys: the later compactions snapshot the hot key with its
        # history at the bound and no later change of it is replayed over the loaded value
        key = c07.K("hot", "g1", "") if j < 110 else c07.K("cold%d" % (j % 9), "g1", "")
        hot.append({"ConfigSet": {"key": key, "value": "h%d" % j, "config_type": None, "desc": None,
                                  "history_id": hid, "history_table_id": None, "op_time": 1700000000000 + hid, "op_user": None}})
    rcases.append({"threshold": 40, "phases": [{"reqs": hot}, {"reqs": hot[:1]}], "plants": [], "pace": True})
    # a LARGE state: the snapshot holds 20000+ configs, whose records are loaded before the user records (about 2 s); what
    # the user table serves - the admin record in particular - must be what it served before the stop (the default admin
    # must not be created again while the load is still running)
    large = []
    for j in range(25000):
        hid += 1
        large.append({"ConfigSet": {"key": c07.K("lg%d" % j, "g1", ""), "value": "x", "config_type": None, "desc": None,
                                    "history_id": hid, "history_table_id": None, "op_time": 1700000000000 + hid, "op_user": None}})
    rcases.append({"threshold": 20000, "phases": [{"reqs": large}, {"reqs": large[:1]}], "plants": [], "pace": False, "timeout_s": 600})
    # the raft log spread over SEVERAL files (rollover hook: a file is full after 128 records), compactions that cut across file
    # boundaries and remove whole files, three restarts
    multi = []
    for j in range(900):
        hid += 1
        multi.append({"ConfigSet": {"key": c07.K("mf%d" % (j % 11), "g1", ""), "value": "m%d" % j, "config_type": None, "desc": None,
                                    "history_id": hid, "history_table_id": None, "op_time": 1700000000000 + hid, "op_user": None}})
    for thr in (100, 100000):
        rcases.append({"threshold": thr, "log_limit": 43, "phases": [{"reqs": multi[:400]}, {"reqs": multi[400:650]}, {"reqs": multi[650:]}],
                       "plants": [], "pace": True})
    r_out = lib.harness_run_parallel("restart", rcases, shards=8, env=env, timeout=2400)
    compactions = 0
    planted = 0
    out_of_scope = 0
    log_lost = 0
    diff_count = {}
    var_count = {}
    for c, r in zip(rcases, r_out):
        n_eval += 1
        for ph in c["phases"]:
            for q in ph["reqs"]:
                v = c07.variant_of(q)
                var_count[v] = var_count.get(v, 0) + 1
        if r.get("r") != "ok":
            chk.violation("restart case failed: %s" % json.dumps(r)[:300], {"suite": "restart", "case": c, "impl": r}, True)
            continue
        snaps = [len(ph.get("index", {}).get("snapshots", [])) for ph in r["phases"]]
        compactions += sum(1 for s in snaps if s)
        planted += len(r.get("plants_done", []))
        nontrivial.add(("restart", c["threshold"], tuple(len(p["reqs"]) for p in c["phases"]), bool(c["plants"]), tuple(snaps)))
        for i, ph in enumerate(r["phases"]):
            if i == 0:
                continue
            before = split_dump(r["phases"][i - 1]["end_dump"])
            after = split_dump(ph["start_dump"])
            growth = ph.get("log_growth_since_prev_end")
            if isinstance(growth, int) and growth < 0:
                # the raft log itself came back shorter (C02: acknowledged entries survive reopen) — everything the
                # lost entries wrote is gone; that is the log layer's defect, seen through C01
                log_lost += 1
                pm = (r["phases"][i - 1].get("metrics") or {}).get("last_log_index")
                sm = (ph.get("start_metrics") or {}).get("last_log_index")
                chk.classify("C01:raft-log-loses-entries-on-reopen",
                             "the raft log is shorter after the restart: last_log_index %s before the stop, %s after (phase %d, threshold %d)"
                             % (pm, sm, i, c["threshold"]),
                             {"suite": "restart", "case": c, "phase": i, "last_log_index_before": pm, "last_log_index_after": sm})
                continue
            for comp in sorted(before):
                if before[comp] == after[comp]:
                    continue
                d = lib.diff_first(before[comp], after[comp])
                if comp == "out_of_scope":
                    out_of_scope += 1
                    continue
                if comp == "table" and startup_admin_only(before[comp], after[comp]):
                    # not persistence: with an EMPTY user table (the history dropped T_USER) the start-up code of the
                    # node creates the default `admin` user again through a new raft write (log grows by one entry)
                    out_of_scope += 1
                    continue
                key = classify_restart_diff(comp, before[comp], after[comp], c, i)
                diff_count[comp + ":" + key] = diff_count.get(comp + ":" + key, 0) + 1
                chk.classify(key, "%s served after the restart differs from %s served before the stop (phase %d, threshold %d, %s): %s"
                             % (comp, comp, i, c["threshold"], "paced" if c.get("pace") else "racing compaction", d),
                             {"suite": "restart", "case": c, "phase": i, "component": comp, "diff": d})

    if not proofs_ok:
        chk.violation("proof obligations of C01 no longer check: %s" % chk.proof_failure[:300],
                      {"broken": "theorem", "detail": chk.proof_failure}, False)

    chk.cov["evaluations"] = n_eval
    chk.cov["distinct_nontrivial"] = len(nontrivial)
    chk.cov["rule"] = ("A: real SnapshotWriter/Reader over leftover files {none, same+more records, shorter, raw garbage, longer other} "
                       "vs snap_read/write_truncate; B: every tree name incl. T_SEQUENCE/SEQ_CONFIG and unknown trees through the real "
                       "load_snapshot vs generated load_arms; C: multi-phase single-node Raft histories over all ClientRequest kinds with "
                       "natural compactions (threshold 6..30), planted partial snapshot_<next id> files, restart dump == pre-stop dump. "
                       "Non-trivial = leftover present / distinct route / restart case with its compaction profile.")
    chk.cov["samples"] = [sf_cases[1] if len(sf_cases) > 1 else None, route_cases[0] if route_cases else None,
                          {"threshold": rcases[0]["threshold"], "phases": [len(p["reqs"]) for p in rcases[0]["phases"]], "plants": rcases[0]["plants"]} if rcases else None]
    chk.cov["input_distribution"] = {"snapfile_cases": len(sf_cases), "route_cases": len(route_cases), "restart_histories": len(rcases),
                                     "phases_with_catalogued_snapshot": compactions, "planted_partial_snapshots": planted,
                                     "requests_per_variant": var_count, "model_impl_mismatches": mism,
                                     "codec_comparisons": codec_counts,
                                     "restart_differences_by_component_and_key": diff_count,
                                     "out_of_scope_table_differences_not_judged": out_of_scope,
                                     "restarts_with_shorter_raft_log": log_lost}
    chk.assumptions += [
        "generic theorems: component round-trip laws and snap_routed are premises; DISCHARGED for Config, Sequence and Table rows "
        "(SM/Concrete.v), still premises for Namespace, Naming, MCP, direct cache (validated / refuted by the restart harness)",
        "concrete corollary: requests in scope (n_mok), encodable state at the compaction point (n_ok), header frame fits the first "
        "1024-byte read; protobuf string fields are byte strings (UTF-8 validation not modelled)",
        "the stop point is after quiescence and flush: last_applied on disk = last committed index",
        "compaction concurrent with apply (a snapshot containing effects of entries beyond its last_index) is only sampled",
    ]
