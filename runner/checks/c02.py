"""C02 — Raft log: acknowledged entries survive reopen unchanged; none are invented."""
import json

import lib
from checks import raftlog_common as rc

TARGETS = ["Props/C02.v", "RaftLog/LogScript.v", "RaftLog/ManagerScript.v", "RaftLog/Examples.v"]

MANIFEST = dict(
    text="Refinement theorems (Rocq; induction over ALL operation histories and ALL payloads with the "
         "well-formedness invariant WF of the byte layout) from a literal Gallina model of LogInnerManager "
         "(sparse log file: header, varint index area, length-prefixed LogRecord stream, after the recorded "
         "repairs) to the abstract log (first index + list of (term,payload)): every append / batch / "
         "delete-from / read / reopen step returns what the abstract log demands (logfile_refines_alog); "
         "corollaries reopen_returns_exactly_acked, no_invented_entry, acked_only, "
         "last_index_term_is_last_acked, entries_contiguous_in_order, record_roundtrip, "
         "full_only_at_block_end. The multi-file manager (catalogue, rollover, batch re-submission, pointer "
         "logs, split-off, delete-from with dropped files, id re-use, restart) is modelled literally and proved "
         "to refine ONE abstract log: catalogue invariant mgr_rep (distinct increasing ids, one well-formed actor "
         "per range, closed ranges with exact counts, contiguity of the visible parts, current = last open range, "
         "saved = in-memory catalogue), preserved by every operation; forward simulation mgr_refines_alog for every "
         "history over {append, batch, delete-from, query, last index, snapshot pointer install / install ahead "
         "of the log / build, restart}; corollaries manager_query, reopen_returns_exactly_acked_multi_file "
         "(the old routing theorem manager_query_partial is kept). Scope of the manager theorems (mops_ok): "
         "delete-from and new pointers not below the newest snapshot pointer. Model tied "
         "to the code by differential runs of the real LogInnerManager and the real FileStore actor chain "
         "(harness suites logfile, filestore) on seeded nasty histories, plus an independent property oracle.",
    note="Trusted: Coq kernel+vm_compute, the hand transcription (checked by the correspondence), harness and "
         "runner glue, binrw header encoding. quick-protobuf record frames are compared byte for byte (`enc`). "
         "Outside the model: flush/crash (C04), disk errors, the 2 GB data limit, concurrent mailbox "
         "interleavings (every request is awaited).",
    technique="Rocq proof (refinement + invariant) + model/implementation correspondence + property oracle",
    design="3/C02",
)


def gen_logfile(rng, tier):
    cases = []
    cases += rc.gen_chunk_boundary(rng)
    cases += rc.gen_reopen_points(rng)
    cases += rc.gen_offset_width(rng)
    cases += rc.gen_small_limit(rng)
    cases += rc.gen_random(rng, 36 if tier == "quick" else 1200, 30 if tier == "quick" else 60)
    return cases


def gen_enc(rng, n):
    out = []
    for _ in range(n):
        idx = rng.choice([0, 1, 127, 128, 300, 16383, 16384, rng.getrandbits(rng.choice([7, 14, 21, 35, 63, 64]))])
        term = rng.choice([0, 1, 2, 127, 128, rng.getrandbits(rng.choice([7, 14, 40, 64]))])
        vlen = rng.choice([0, 1, 2, 126, 127, 128, 129, 1015, 1017, 2000, rng.randrange(0, 600)])
        if idx == 0 and term == 0 and vlen == 0:
            idx = 1
        out.append(["enc", idx, term, vlen, rng.randrange(1, 1 << 30)])
    return out


def run(chk, replay=None):
    tier, rng = chk.tier, chk.rng
    proofs_ok = chk.proofs(TARGETS)
    ok, out = lib.harness_build()
    if not ok:
        chk.violation("harness does not build against /repo", {"broken": "harness build", "log": out[-3000:]}, False)
        return
    lf_cases = gen_logfile(rng, tier)
    _growth_model, growth_impl = rc.gen_growth(rng)
    fs_cases = (rc.gen_fs_rollover(rng, tier) + rc.gen_fs_pointer_shapes(rng)[:4]
                + rc.gen_fs_random(rng, 20 if tier == "quick" else 400, 30 if tier == "quick" else 60))
    if replay:
        rp = json.load(open(replay))["replay"]
        if isinstance(rp, dict) and "case" in rp:
            (lf_cases if rp.get("suite") == "logfile" else fs_cases).insert(0, rp["case"])

    n1, nt1, mm1, d1 = rc.run_logfile_part(chk, lf_cases, growth_impl + rc.known_finding_cases(), "c02lf")
    n2, nt2, mm2, d2 = rc.run_filestore_part(chk, fs_cases, "c02fs")

    # ---- the record encoding, byte for byte
    enc_ops = gen_enc(rng, 300 if tier == "quick" else 3000)
    impl_enc = lib.harness_run("logfile", [{"start": 0, "pre_term": 0, "ops": enc_ops}])[0]
    mm3 = 0
    try:
        vals = lib.coq_eval_sharded("c02enc", rc.LF_HEADER,
                                    ["enc_record %d %d %d%%nat %d" % (o[1], o[2], o[3], o[4]) for o in enc_ops], per=40)
        for o, ri, v in zip(enc_ops, impl_enc["out"], vals):
            if list(v) != ri.get("enc"):
                mm3 += 1
                chk.violation("model != implementation (LogRecord encoding %s)" % o,
                              {"suite": "logfile", "case": {"start": 0, "pre_term": 0, "ops": [o]},
                               "model": list(v), "impl": ri, "correspondence": "RaftLog.LogFile.rec_frame"}, False)
    except RuntimeError as ex:
        chk.violation("model evaluation failed: %s" % str(ex)[:300], {"broken": "model evaluation", "log": str(ex)[-3000:]}, False)

    if not proofs_ok:
        chk.violation("proof obligations of C02 no longer check: %s" % chk.proof_failure[:300],
                      {"broken": "theorem", "detail": chk.proof_failure}, False)

    chk.cov["evaluations"] = n1 + n2 + len(enc_ops)
    chk.cov["distinct_nontrivial"] = len(nt1) + len(nt2)
    chk.cov["rule"] = ("logfile history non-trivial = its byte layout has a record ending exactly on a 1024-byte read-chunk "
                       "boundary (from the scan start), a 128-record index step with a 2-/3-byte offset, a reopen at 0 mod 128 "
                       "records, a cut, or a full file; filestore history non-trivial = several log files, a pointer log or a "
                       "cut; counted as distinct (generator tag, feature set)")
    chk.cov["samples"] = [rc.short_case(lf_cases[0]), rc.short_case(lf_cases[len(lf_cases) // 2]),
                          rc.short_case(fs_cases[0]), rc.short_case(fs_cases[-1])]
    chk.cov["input_distribution"] = {
        "logfile_histories_model_compared": len(lf_cases), "logfile_histories_oracle_only(>1MiB files)": len(growth_impl),
        "logfile_by_generator": d1, "filestore_histories": len(fs_cases), "filestore_by_generator": d2,
        "ops_total": sum(len(c["ops"]) for c in lf_cases + fs_cases + growth_impl),
        "record_encodings": len(enc_ops), "model_impl_mismatches": mm1 + mm2 + mm3}
    chk.assumptions += [
        "a record is never (index 0, term 0, empty value): its frame is the single byte 0 = the end marker "
        "(known finding logfile:*, FileStore values are JSON and never empty)",
        "record value length < 2^62, indexes/terms < 2^64 (no u64 overflow in offsets)",
        "graceful close before reopen (crash points are C04); requests are awaited one at a time",
        "delete-from k only above the newest snapshot pointer; pointers at increasing indexes",
        "files larger than 1 MiB are checked against the oracle only (the model's vm_compute evaluation is slow there)",
        "hard state is saved before the first log write (otherwise C05's <=20-byte index file defect loses the catalogue)"]
