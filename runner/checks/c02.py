"""C02 — Raft log: acknowledged entries survive reopen unchanged; none are invented."""
import json

import lib
from checks import raftlog_common as rc

TARGETS = ["Props/C02.v", "RaftLog/Script.v", "RaftLog/ManagerScript.v"]

MANIFEST = dict(
    text="Refinement theorems (Rocq, by induction over ALL operation histories and all payload sizes, with the "
         "well-formedness invariant WF of the byte layout) from a literal Gallina model of LogInnerManager "
         "(sparse log file: header, varint index area, length-prefixed LogRecord stream) to the abstract log "
         "(first index + list of (term,payload)): every append/batch/delete-from/read/reopen step returns the "
         "abstract result; corollaries reopen_returns_exactly_acked, no_invented_entry, "
         "last_index_term_is_last_acked. The multi-file manager (catalogue, rollover, pointer logs, split-off) is "
         "modelled and tied to the real FileStore actor chain by correspondence; its refinement is proved for the "
         "single-file layer and stated `_partial` for the catalogue. Model tied to the code by differential runs "
         "of the real LogInnerManager / FileStore (harness suites logfile, filestore) + an independent property oracle.",
    note="Trusted: Coq kernel+vm_compute, the hand transcription (checked on seeded nasty histories), harness and "
         "runner glue; quick-protobuf/binrw byte encoders are modelled (record frames are compared byte for byte "
         "through the `enc` op); flush/crash, disk errors and the 2 GB data limit are outside the model.",
    technique="Rocq proof (refinement + invariant) + model/implementation correspondence + property oracle",
    design="3/C02",
)


def gen_cases(rng, tier):
    cases = []
    cases += rc.gen_chunk_boundary(rng)
    cases += rc.gen_reopen_points(rng)
    cases += rc.gen_offset_width(rng)
    cases += rc.gen_cuts(rng, 1 if tier == "quick" else 4)
    cases += rc.gen_small_limit(rng)
    cases += rc.gen_random(rng, 120 if tier == "quick" else 1500, 30 if tier == "quick" else 60)
    return cases


def gen_enc(rng, n):
    out = []
    for _ in range(n):
        idx = rng.choice([0, 1, 127, 128, 300, 16383, 16384, rng.getrandbits(rng.choice([7, 14, 21, 35, 63, 64]))])
        term = rng.choice([0, 1, 2, 127, 128, rng.getrandbits(rng.choice([7, 14, 40, 64]))])
        vlen = rng.choice([0, 1, 2, 126, 127, 128, 129, 1015, 1017, 16383, 16384 % 3000, rng.randrange(0, 600)])
        out.append(["enc", idx, term, vlen, rng.randrange(1, 1 << 30)])
    return out


def run(chk, replay=None):
    tier, rng = chk.tier, chk.rng
    proofs_ok = chk.proofs(TARGETS)
    ok, out = lib.harness_build()
    if not ok:
        chk.violation("harness does not build against /repo", {"broken": "harness build", "log": out[-3000:]}, False)
        return
    cases = gen_cases(rng, tier)
    if replay:
        rp = json.load(open(replay))["replay"]
        if isinstance(rp, dict) and rp.get("suite") == "logfile" and "case" in rp:
            cases = [rp["case"]] + cases
    enc_ops = gen_enc(rng, 300 if tier == "quick" else 3000)
    enc_case = {"start": 0, "pre_term": 0, "ops": enc_ops}

    impl = lib.harness_run_parallel("logfile", cases)
    impl_enc = lib.harness_run("logfile", [enc_case])[0]

    # ---- property oracle on the implementation
    n_eval = 0
    nontrivial = set()
    dist = {}
    for c, r in zip(cases, impl):
        n_eval += 1
        fails, feats = rc.oracle_logfile(c, r)
        feats |= rc.layout_features(c)
        dist[c["tag"].split("-")[0]] = dist.get(c["tag"].split("-")[0], 0) + 1
        if feats & {"record-ends-on-1024-boundary", "cut-on-index-boundary", "file-full", "reopen-at-0-mod-128",
                    "index-step-3-byte-offset", "index-step-2-byte-offset"}:
            nontrivial.add((c["tag"], tuple(sorted(feats))))
        for key, what in fails:
            chk.classify("logfile:" + key, "log file: " + what + " [case %s]" % c["tag"],
                         {"suite": "logfile", "case": c, "impl": r, "oracle": what})

    # ---- model
    mism = 0
    try:
        exprs = [rc.coq_logfile_case(c) for c in cases]
        exprs += ["enc_record %d %d %d%%nat %d" % (o[1], o[2], o[3], o[4]) for o in enc_ops]
        vals = lib.coq_eval_sharded("c02", rc.LF_HEADER, exprs, per=8 if tier == "quick" else 12, timeout=1500)
    except RuntimeError as ex:
        chk.violation("model evaluation failed: %s" % str(ex)[:300], {"broken": "model evaluation", "log": str(ex)[-3000:]}, False)
        vals = None
    if vals is not None:
        for c, r, v in zip(cases, impl, vals[:len(cases)]):
            m = rc.canon_lf_model(v)
            ri = rc.canon_lf_impl(c, r)
            if m != ri:
                mism += 1
                fails, _ = rc.oracle_logfile(c, r)
                chk.violation("model != implementation (LogInnerManager, case %s): %s" % (c["tag"], lib.diff_first(m, ri)),
                              {"suite": "logfile", "case": c, "model": m, "impl": ri,
                               "correspondence": "RaftLog.LogFile", "oracle_failures": fails}, bool(fails))
        for o, ri, v in zip(enc_ops, impl_enc["out"], vals[len(cases):]):
            n_eval += 1
            if list(v) != ri.get("enc"):
                mism += 1
                chk.violation("model != implementation (LogRecord encoding %s)" % o,
                              {"suite": "logfile", "case": {"start": 0, "pre_term": 0, "ops": [o]},
                               "model": list(v), "impl": ri, "correspondence": "RaftLog.LogFile.rec_frame"}, False)

    if not proofs_ok:
        chk.violation("proof obligations of C02 no longer check: %s" % chk.proof_failure[:300],
                      {"broken": "theorem", "detail": chk.proof_failure}, False)

    chk.cov["evaluations"] = n_eval
    chk.cov["distinct_nontrivial"] = len(nontrivial)
    chk.cov["rule"] = ("a history is non-trivial when its byte layout has a record ending exactly on a 1024-byte read "
                       "chunk boundary (measured from the scan start), a 128-record index step with a 2- or 3-byte "
                       "offset, a reopen at 0 mod 128 records, a cut on an index boundary or a full file; counted as "
                       "distinct (generator tag, feature set)")
    chk.cov["samples"] = [{k: (v if k != "ops" else v[:12]) for k, v in cases[i].items()}
                          for i in (0, len(cases) // 3, len(cases) - 1)]
    chk.cov["input_distribution"] = {"logfile_histories": len(cases), "by_generator": dist,
                                     "ops_total": sum(len(c["ops"]) for c in cases),
                                     "record_encodings": len(enc_ops), "model_impl_mismatches": mism}
    chk.assumptions += ["a record is never (index 0, term 0, empty value): its frame would be the single byte 0 "
                        "(the end marker); FileStore values are JSON and never empty",
                        "record value length < 2^62, indexes/terms < 2^64 (no u64 overflow in offsets)",
                        "graceful close (flush) before reopen; crash points are C04",
                        "the 2 GB data_cursor limit is not exercised (index-area exhaustion / hooked small limit is)"]
