"""C11 — registry bookkeeping: counters, indexes, reverse maps always match instances."""
import json

import lib
from checks import naming_common as nc

TARGETS = ["Props/C11.v", "Naming/Script.v", "Naming/Examples.v"]

MANIFEST = dict(
    text="Invariant Inv of the NamingActor model (instance_size/healthy_instance_size = counts of the instance map, "
         "perpetual_host_set = non-ephemeral keys, namespace_index lists dom(service_map) exactly once with matching size "
         "counters, every (client,key) of client_instance_set exists and belongs to that client) proved for the initial state, "
         "for EVERY op (Inv_step: register/update of any origin and tag, heartbeat, deregister, batch sync, snapshot, client "
         "removal, time_check, probes, flips, clean-ups, take-over, raft requests, distro diff) and for all histories by "
         "induction (Inv_reachable); services are dropped only when empty.  The model is a literal Gallina transcription of "
         "naming/service.rs, core.rs, service_index.rs, tied to the code by a differential run of the REAL NamingActor (through "
         "its mailbox, logical clock hook) against the model with the FULL bookkeeping state compared after every op, plus an "
         "independent recount oracle on the dumped state and on the query results.",
    note="Input domain of the theorem (op_wf): an instance that is not from gRPC carries no client id (what every real caller "
         "produces); outside it the ownership clause fails (Inv_step_needs_wf, replayed on the real code, counted as out-of-domain). "
         "Trusted: Coq kernel+vm_compute, hand transcription (checked by the correspondence), harness/runner glue, the "
         "cfg(rnacos_verif) hooks (clock override, dump). Not modelled: notifications, InstanceMetaManager actor (absent), "
         "service metadata, once_time_check_size cut-off, HashMap iteration order (states are compared as sorted sets).",
    technique="Rocq proof (invariant by induction over all op sequences) + model/implementation correspondence",
    design="3/C11",
)


def out_of_domain_case():
    mk = nc.mk_inst
    sk = [1, 1, 1]
    return {"cfg": dict(nc.CFG), "dump": "all", "services": [sk], "ops": [
        ["upd", sk, mk(0, fg=True, cl=1), nc.grpc_tag(mk(0)), False],
        ["upd", sk, mk(0, fg=False, fc=2, cl=7), None, False]]}


def nasty_cases(rng):
    """structured histories for each bookkeeping path"""
    mk = nc.mk_inst
    sk, sk2 = [1, 1, 1], [1, 2, 1]
    cases = []

    def case(ops, services=(sk, sk2)):
        g = nc.Gen(rng, services=[tuple(s) for s in services], keys=[0, 1, 8])
        cases.append({"cfg": dict(nc.CFG), "ops": ops + g.observe_all(), "dump": "all", "services": [list(s) for s in services]})

    # replace with health flip, both directions, then time-out removal
    case([["upd", sk, mk(0), list(nc.TAG_ALL), False], ["upd", sk, mk(0, he=False, fg=True, cl=1), None, False],
          ["upd", sk, mk(0, he=True, fg=True, cl=2), None, False], ["tick", 700], ["check"], ["check"]])
    # remove by wrong client id, then by the right one, then again (absent)
    case([["upd", sk, mk(1, fg=True, cl=1), nc.grpc_tag(mk(1)), False], ["del", sk, mk(1, fg=True, cl=2)],
          ["del", sk, mk(1, fg=True, cl=1)], ["del", sk, mk(1, fg=True, cl=1)], ["del", sk, mk(1)]])
    # time-out removal of an absent key (entry queued, instance deregistered before it fires)
    case([["upd", sk, mk(0), list(nc.TAG_ALL), False], ["tick", 301], ["check"], ["del", sk, mk(0)], ["tick", 300], ["check"],
          ["tick", 1000], ["clear"]])
    # ephemeral flag flips through every tag shape, persistent over gRPC, raft overwrite
    case([["upd", sk, mk(0, ep=False, fg=True, cl=1), nc.grpc_tag(mk(0)), False],
          ["upd", sk, mk(0, ep=True), [False, False, False, True, True], False],
          ["upd", sk, mk(0, ep=False), [False, False, False, True, True], False],
          ["upd", sk, mk(0, ep=True), [True, True, True, False, False], False],
          ["raft", "upd", sk, mk(0, ep=False, w=2)], ["rmclient", 1], ["raftrm", sk, 0]])
    # same address in two services, two gRPC clients swapping ownership, HTTP overwrite keeping gRPC identity
    case([["upd", sk, mk(8, fg=True, cl=1), nc.grpc_tag(mk(8)), False], ["upd", sk2, mk(8, fg=True, cl=1), nc.grpc_tag(mk(8)), False],
          ["upd", sk, mk(8, fg=True, cl=2), nc.grpc_tag(mk(8)), False], ["upd", sk2, mk(8), list(nc.TAG_ALL), False],
          ["upd", sk2, mk(8, ep=False), list(nc.TAG_ALL), False], ["rmclient", 1], ["rmclient", 2]])
    # batch sync + snapshot + take-over + clean-up of services that became empty
    case([["batch", [[sk, mk(0, fc=2)], [sk, mk(1, fg=True, fc=2, cl=11)], [sk2, mk(0, fc=3, he=False)]]],
          ["snap", [[sk2, 2]], [[sk2, mk(1, fc=2)]]], ["range", 0, 1], ["tick", 400], ["check"], ["tick", 400], ["check"],
          ["rmclient_cluster", 11], ["tick", 1001], ["clear"], ["tick", 1001], ["clear"]])
    # console metadata, clean-up of metadata after removal
    case([["upd", sk, mk(0, md=1), list(nc.TAG_ALL), False], ["upd", sk, mk(0, md=2), [False, True, False, False, True], False],
          ["upd", sk, mk(0, md=3), list(nc.TAG_ALL), False], ["del", sk, mk(0)], ["upd", sk, mk(0, md=0), list(nc.TAG_ALL), False],
          ["del", sk, mk(0)], ["tick", 2001], ["clearmeta"], ["upd", sk, mk(0, md=0), list(nc.TAG_ALL), False]])
    # remove service with and without instances, index with several namespaces/groups
    case([["svc", [2, 1, 1], 2], ["svc", [1, 1, 2], None], ["upd", sk, mk(0), None, False], ["rmsvc", sk], ["rmsvc", [2, 1, 1]],
          ["rmsvc", [1, 1, 2]], ["rmsvc", [3, 3, 3]], ["del", sk, mk(0)], ["rmsvc", sk]], services=(sk, [2, 1, 1], [1, 1, 2]))
    return cases


def run(chk, replay=None):
    tier = chk.tier
    rng = chk.rng
    proofs_ok = chk.proofs(TARGETS)
    ok, out = lib.harness_build()
    if not ok:
        chk.violation("harness does not build against /repo", {"broken": "harness build", "log": out[-3000:]}, False)
        return
    hashes = nc.get_hashes()
    rp = json.load(open(replay))["replay"] if replay else None
    if rp and isinstance(rp, dict) and rp.get("case"):
        cases = [rp["case"]]
        cases[0].setdefault("services", [list(k) for k in nc.SERVICE_POOL])
    else:
        n = 900 if tier == "quick" else 6000
        cases = nasty_cases(rng) + [nc.random_case(rng, rng.choice([12, 20, 30])) for _ in range(n)]
    ood = out_of_domain_case()
    impl = lib.harness_run_parallel("naming", cases + [ood])
    impl_ood = impl.pop()

    # ---- property oracle on the implementation (independent of the model)
    n_eval = 0
    nontrivial = set()
    hist = {}
    failing = []
    for c, r in zip(cases, impl):
        if r.get("r") != "ok":
            chk.violation("NamingActor panicked", {"suite": "naming", "case": c}, True)
            continue
        prev = None
        scope = nc.in_scope_case(c)
        for ix, (op, st) in enumerate(zip(c["ops"], r["steps"])):
            n_eval += 1
            hist[op[0]] = hist.get(op[0], 0) + 1
            cur = nc.canon_impl_state(st["st"])
            bad = nc.oracle_c11_state(cur)
            if prev is not None:
                bad += nc.oracle_c11_drop(prev, cur)
            for key, what in bad:
                if not scope:
                    continue
                failing.append((key, what))
                chk.classify("C11:" + key, "after op %d %s: %s" % (ix, op[0], what),
                             {"suite": "naming", "case": dict(c, ops=c["ops"][:ix + 1]), "what": what})
                break
            if len(cur["services"]) > 1 or any(len(s["instances"]) > 1 for s in cur["services"]):
                nontrivial.add((op[0], len(cur["services"]), sum(len(s["instances"]) for s in cur["services"]),
                                len(cur["clients"]), sum(s["hsize"] for s in cur["services"])))
            prev = cur
        for key, what in nc.oracle_c11_observed(c, r["steps"]):
            if scope:
                chk.classify("C11:" + key, what, {"suite": "naming", "case": c, "what": what})

    # the out-of-domain history: the ownership clause must fail exactly as Inv_step_needs_wf says
    ood_bad = nc.oracle_c11_state(nc.canon_impl_state(impl_ood["steps"][-1]["st"]))
    chk.notes["out_of_domain_replay"] = [w for _, w in ood_bad]
    if [k for k, _ in ood_bad] != ["client_instance_set:owner"]:
        chk.violation("the out-of-domain witness of Inv_step_needs_wf no longer behaves as proved: %s" % ood_bad,
                      {"suite": "naming", "case": ood, "broken": "Inv_step_needs_wf replay"}, True)

    # ---- model
    mism = 0
    try:
        exprs = [nc.model_expr(c, hashes) for c in cases]
        vals = lib.coq_eval_sharded("c11", nc.HEADER, exprs, per=5 if tier == "quick" else 40, timeout=1800)
    except RuntimeError as ex:
        chk.violation("model evaluation failed: %s" % str(ex)[:300], {"broken": "model evaluation", "log": str(ex)[-3000:]}, False)
        vals = None
    if vals is not None:
        for c, r, m in zip(cases, impl, vals):
            if r.get("r") != "ok":
                continue
            for ix, (op, st, ms) in enumerate(zip(c["ops"], r["steps"], m)):
                d = (lib.diff_first(nc.canon_model_out(ms[0], op[0]), nc.canon_impl_out(st["out"], op[0]), "out")
                     or lib.diff_first(nc.canon_model_state(ms[1]), nc.canon_impl_state(st["st"]), "state"))
                if d:
                    mism += 1
                    chk.violation("model != implementation after op %d %s: %s" % (ix, op[0], d),
                                  {"suite": "naming", "case": dict(c, ops=c["ops"][:ix + 1]), "diff": d,
                                   "correspondence": "Naming.Script.run_dump"}, False)
                    break
    if not proofs_ok:
        chk.violation("proof obligations of C11 no longer check: %s" % chk.proof_failure[:300],
                      {"broken": "theorem", "detail": chk.proof_failure}, False)

    chk.cov["evaluations"] = n_eval
    chk.cov["distinct_nontrivial"] = len(nontrivial)
    chk.cov["rule"] = ("one evaluation = one op of a history, with the full bookkeeping state dumped after it and recounted; histories: "
                       "8 structured ones (health flip on replace, wrong-client removal, time-out of an absent key, ephemeral flips "
                       "under every tag shape, ownership swaps over the same address in two services, batch/snapshot/take-over/clean-up, "
                       "console metadata, service removal) + seeded random histories of 12-30 ops over 1-3 services, 2-4 addresses "
                       "(two ips), 3 local gRPC clients + 2 remote ones + HTTP; non-trivial = distinct (op, #services, #instances, "
                       "#clients, #healthy) with more than one service or instance")
    chk.cov["samples"] = [cases[0], cases[len(cases) // 2]]
    chk.cov["input_distribution"] = {"histories": len(cases), "ops_by_kind": hist, "model_impl_mismatches": mism,
                                     "out_of_domain_histories": sum(1 for c in cases if not nc.in_scope_case(c))}
    chk.assumptions += ["instances not from gRPC carry no client id (op_wf); real callers never produce others",
                        "now >= the time-outs (no negative i64 -> u64 cast)", "fewer than once_time_check_size expirations per tick",
                        "meta_manager_addr = None"]
