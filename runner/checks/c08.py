"""C08 — a node caught up by snapshot install serves the same data as the leader."""
import json

import lib
import nodelib
import nodescen

TARGETS = ["Props/C08.v", "Cluster/Script.v"]

MANIFEST = dict(
    text="Proof about the install logic (catalogue + SaveMember(header) + load of every snapshot record into the live "
         "components + restart path): a late joiner serves exactly the leader's data, any follower does after a restart, "
         "membership comes from the installed header; for a LIVE follower the exact characterisation is proved and the "
         "full property is refuted by a witness (records are overlaid, never cleared: recorded finding). Correspondence: "
         "real 2- and 3-process clusters on loopback (late join after compaction; follower frozen by SIGSTOP beyond the "
         "replication lag threshold), before and after a restart, against the leader and the model's prediction.",
    note="PARTIAL: snapshot transfer (InstallSnapshot RPC chunks) and its timing are async-raft-ext, trusted; the snapshot "
         "builder's faithfulness is a hypothesis here (it is the round-trip law of C01). Trusted: Coq kernel, hand model "
         "(Cluster/Install.v), node harness.",
    technique="Rocq proof of install/restart state functions + multi-process correspondence on the real binary",
    design="3/C08",
)

HEADER = "From RN Require Import Base.Res Cluster.Install Cluster.Script.\nOpen Scope N_scope.\n"


def run(chk, replay=None):
    tier = chk.tier
    rng = chk.rng
    proofs_ok = chk.proofs(TARGETS)
    if proofs_ok and tier == "thorough":
        chk.coqchk()
    ok, log, binary = nodelib.build_binary(repo=lib.REPO)
    if not ok:
        chk.violation("the r-nacos binary does not build", {"broken": "binary build", "log": log[-2000:]}, False)
        return
    n_eval = 0
    nontrivial = set()
    samples = []

    # ---- late join ---------------------------------------------------------------------
    shapes = [(90, 30), (60, 10)] if tier == "quick" else [(90, 30), (60, 10), (300, 50), (40, 5), (500, 100), (120, 20)]
    for writes, threshold in shapes:
        o = nodescen.scenario_late_join(binary, rng, writes=writes, threshold=threshold)
        n_eval += 1
        nontrivial.add(("late_join", writes, threshold))
        if not o.get("joined") or not o.get("probe_served"):
            o = nodescen.scenario_late_join(binary, rng, writes=writes, threshold=threshold)   # liveness: retried once
            n_eval += 1
        for f in o.get("fatal", []):
            chk.classify("storage-fatal", "the Raft core of node %s was shut down by its storage layer: %s" % (f["node"], f["line"]),
                         {"scenario": "late_join", "writes": writes, "threshold": threshold, "fatal": f, "ops": o.get("sample_ops")})
        if not o.get("joined") or not o.get("probe_served"):
            chk.classify("late-join:never-caught-up", "a late joiner was not caught up (joined=%s probe=%s)" % (o.get("joined"), o.get("probe_served")),
                         {"scenario": "late_join", "obs": {k: o[k] for k in o if k != "sample_ops"}})
            continue
        if not o["leader_snapshot_files"]:
            chk.notes.setdefault("inconclusive", []).append("leader made no snapshot for writes=%d threshold=%d" % (writes, threshold))
        if o["leader_vs_spec_diff"]:
            chk.violation("the leader itself does not serve the acknowledged history", {"scenario": "late_join", "obs": o}, True)
        if o["before_restart_diff"]:
            chk.classify("install:data-not-served", "a late joiner caught up by snapshot serves different data than the leader "
                         "(%d of %d keys, e.g. %s)" % (len(o["before_restart_diff"]), o["n_keys"], o["before_restart_diff"][0]),
                         {"scenario": "late_join", "writes": writes, "threshold": threshold, "diff": o["before_restart_diff"][:20],
                          "ops": o["sample_ops"]})
        if o["leader_namespaces"] != o["joiner_namespaces"]:
            chk.classify("install:namespaces-not-served", "late joiner namespaces differ from the leader's",
                         {"scenario": "late_join", "leader": o["leader_namespaces"], "joiner": o["joiner_namespaces"]})
        if o.get("after_restart_diff"):
            chk.classify("install:restart-differs", "after its restart the joiner serves different data than the leader: %s" % o["after_restart_diff"][0],
                         {"scenario": "late_join", "diff": o["after_restart_diff"][:20]})
        if o.get("probe_served_after_restart") is False:
            chk.classify("install:restart-stuck", "after its restart the joiner does not follow the log any more",
                         {"scenario": "late_join", "obs": {k: o[k] for k in ("joiner_metrics", "leader_metrics", "errors")}})
        # membership as persisted by the install: read back by the joiner's restart (the live metrics
        # endpoint of a freshly joined node is a stale watch value and is not judged)
        mj, ml = o.get("joiner_metrics_after_restart") or {}, o.get("leader_metrics_after_restart") or {}
        if mj and ml and sorted(mj["membership_config"]["members"]) != sorted(ml["membership_config"]["members"]):
            chk.classify("install:membership", "joiner membership %s differs from leader %s" % (mj["membership_config"], ml["membership_config"]),
                         {"scenario": "late_join", "joiner": mj, "leader": ml})
        samples.append({"scenario": "late_join", "writes": writes, "threshold": threshold, "ops": o["sample_ops"],
                        "snapshots": o["leader_snapshot_files"]})

    # ---- live follower far behind ------------------------------------------------------------
    o = nodescen.scenario_far_behind(binary, rng, threshold=30, fill=1700 if tier == "quick" else 2500)
    n_eval += 1
    nontrivial.add(("far_behind", "freeze"))
    for f in o.get("fatal", []):
        chk.classify("storage-fatal", "the Raft core of node %s was shut down by its storage layer: %s" % (f["node"], f["line"]),
                     {"scenario": "far_behind", "fatal": f})
    if not o.get("probe_served") and not o.get("fatal"):
        o = nodescen.scenario_far_behind(binary, rng, threshold=30, fill=1700)
        n_eval += 1
        for f in o.get("fatal", []):
            chk.classify("storage-fatal", "the Raft core of node %s was shut down by its storage layer: %s" % (f["node"], f["line"]),
                         {"scenario": "far_behind", "fatal": f})
    if not o.get("probe_served"):
        chk.notes.setdefault("inconclusive", []).append("frozen follower did not catch up within the wait (raft liveness, not judged)")
    else:
        installed = bool(o.get("node3_snapshot_files"))
        stale = [d for d in o["diff"] if d["leader"] is None and d["node3"] is not None]
        other = [d for d in o["diff"] if d not in stale]
        if other:
            chk.classify("install:live-follower-differs", "a follower caught up by snapshot serves %s where the leader serves %s"
                         % (other[0]["node3"], other[0]["leader"]), {"scenario": "far_behind", "diff": other[:20]})
        for d in stale:
            chk.classify("install-overlays-live-state", "live follower keeps serving a key the leader removed: %s" % d,
                         {"scenario": "far_behind", "diff": d})
        # model prediction for the three interesting keys
        try:
            live = "[(1,10);(2,20);(3,30)]"                 # stay=s0 gone=g0 chg=c0
            recs = "[(1,10);(3,31)]"                        # leader: stay=s0, chg=c1, gone removed
            v = lib.coq_eval_sharded("c08", HEADER, ["eval_install %s %s [1;2;3]" % (live, recs),
                                                      "eval_install_restart %s [1;2;3]" % recs])
            pred = [None if x == "None" else x[1] for x in v[0]]
            name = {10: "s0", 20: "g0", 30: "c0", 31: "c1", None: None}
            pred_named = {"/stay": name[pred[0]], "/gone": name[pred[1]], "/chg": name[pred[2]]}
            got = {"/stay": "s0", "/gone": None, "/chg": "c1"}
            for d in o["diff"]:
                if d["key"] in got:
                    got[d["key"]] = d["node3"]
            if installed and got != pred_named:
                chk.violation("model != implementation (content served by a live follower after an install)",
                              {"correspondence": "Cluster.Install.install", "model": pred_named, "impl": got}, False)
            chk.notes["far_behind"] = {"installed": installed, "model": pred_named, "impl": got}
        except RuntimeError as ex:
            chk.violation("model evaluation failed: %s" % str(ex)[:300], {"broken": "model evaluation", "log": str(ex)[-2000:]}, False)
        samples.append({"scenario": "far_behind", "diff": o["diff"][:3], "node3_snapshot_files": o.get("node3_snapshot_files")})

    if not proofs_ok:
        chk.violation("proof obligations of C08 no longer check: %s" % chk.proof_failure[:300],
                      {"broken": "theorem", "detail": chk.proof_failure}, False)
    chk.cov["evaluations"] = n_eval
    chk.cov["distinct_nontrivial"] = len(nontrivial)
    chk.cov["rule"] = ("real multi-process scenarios: late join after compaction for (writes, snapshot threshold) in %s with seeded "
                       "publish/remove/namespace histories, compared key by key with the leader before and after the joiner's "
                       "restart; a follower frozen by SIGSTOP while the leader removes/overwrites keys and writes past the "
                       "replication lag threshold. Non-trivial = distinct scenario shape." % shapes)
    chk.cov["samples"] = samples
    chk.cov["traces_validated_against_impl"] = n_eval
    chk.assumptions += ["async-raft-ext transfers the snapshot file correctly (trusted)",
                        "the snapshot builder writes, for every key, the leader's value (C01's round-trip law)"]
