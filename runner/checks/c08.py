"""C08 — a node caught up by snapshot install serves the same data as the leader."""
import json

import lib
import nodelib
import nodescen

TARGETS = ["Props/C08.v", "Cluster/Script.v", "SM/NsScript.v"]

MANIFEST = dict(
    text="Proof about the install logic (catalogue + SaveMember(header) + load of every snapshot record into the live "
         "components + restart path): a late joiner serves exactly the leader's data, any follower does after a restart, "
         "membership comes from the installed header; for a LIVE follower the exact characterisation is proved and the "
         "full property is refuted by a witness (records are overlaid, never cleared: recorded finding). Correspondence: "
         "real 2- and 3-process clusters on loopback (late join after compaction; follower frozen by SIGSTOP beyond the "
         "replication lag threshold), before and after a restart, against the leader and the model's prediction.",
    note="PARTIAL: snapshot transfer (InstallSnapshot RPC chunks) and its timing are async-raft-ext, trusted; the snapshot "
         "builder's faithfulness is a hypothesis here (it is the round-trip law of C01). Trusted: Coq kernel, hand model "
         "(Cluster/Install.v), node harness.",
    technique="Rocq proof of install/restart state functions + multi-process correspondence on the real binary",
    design="3/C08",
)

HEADER = "From RN Require Import Base.Res Cluster.Install Cluster.Script.\nOpen Scope N_scope.\n"


def run(chk, replay=None):
    tier = chk.tier
    rng = chk.rng
    proofs_ok = chk.proofs(TARGETS)
    if proofs_ok and tier == "thorough":
        chk.coqchk()
    ok, log, binary = nodelib.build_binary(repo=lib.REPO)
    if not ok:
        chk.violation("the r-nacos binary does not build", {"broken": "binary build", "log": log[-2000:]}, False)
        return
    n_eval = 0
    nontrivial = set()
    samples = []

    # ---- install into the LIVE state of a lagging node, component level: the real actors of a mini node ---------
    # node A applies a whole committed history, node B only a prefix; every record of A's real snapshot then goes through
    # RaftDataHandler::load_snapshot over B's live state (what InstallSnapshot does on a running node).  The rest of the
    # history contains no removal (a key the leader removed inside the compacted range stays on B: recorded finding), so
    # B must serve exactly what A serves: configs (+history), sequences, user rows, user namespaces, persistent instances.
    import os
    from checks import c07
    ok_h, out_h = lib.harness_build()
    if not ok_h:
        chk.violation("harness does not build against /repo", {"broken": "harness build", "log": out_h[-2000:]}, False)
    else:
        henv = {"RNVERIF_TMP": os.path.join(lib.WORK, "tmp")}
        sm = lib.harness_run("dispatch", [{"k": "samples"}], env=henv)[0]["samples"]
        g = c07.Gen(rng, sm)

        def removal(q):
            t = json.dumps(q)
            return any(w in t for w in ("Remove", "Delete", "Drop", "InitFromOldValue"))
        icases = []
        for _ in range(24 if tier == "quick" else 300):
            reqs = [q for q in g.sequence(rng.choice([15, 30, 50])) if c07.variant_of(q) not in ("NodeAddr", "Members")]
            p = rng.randrange(0, len(reqs))
            # round 7: the same snapshot delivered twice (install_idempotent) and a committed log suffix applied to both
            # nodes afterwards (install_then_follow); the suffix may remove keys again: both nodes apply the same entries
            suffix = [q for q in g.sequence(rng.choice([5, 12])) if c07.variant_of(q) not in ("NodeAddr", "Members")
                      and "InitFromOldValue" not in json.dumps(q)]
            icases.append({"k": "install", "reqs": reqs[:p] + [q for q in reqs[p:] if not removal(q)], "prefix": p,
                           "again": True, "suffix": suffix})
        # renamed namespace / moved sequence / republished config / changed user row inside the part B has not seen
        icases.append({"k": "install", "prefix": 4, "reqs": [
            {"NamespaceReq": {"Set": {"namespace_id": "dev", "namespace_name": "Development", "type": "2"}}},
            {"SequenceReq": {"req": {"NextRange": ["seq1", 100]}}},
            {"TableManagerReq": {"Set": {"table_name": "T_USER", "key": list(b"u1"), "value": list(b"old"), "last_seq_id": None}}},
            {"ConfigSet": {"key": "d1\u0002g1", "value": "v-old", "config_type": None, "desc": None, "history_id": 1,
                           "history_table_id": None, "op_time": 1700000000001, "op_user": None}},
            {"NamespaceReq": {"Update": {"namespace_id": "dev", "namespace_name": "Dev (eu)", "type": "2"}}},
            {"SequenceReq": {"req": {"NextRange": ["seq1", 100]}}},
            {"TableManagerReq": {"Set": {"table_name": "T_USER", "key": list(b"u1"), "value": list(b"new"), "last_seq_id": None}}},
            {"ConfigSet": {"key": "d1\u0002g1", "value": "v-new", "config_type": None, "desc": None, "history_id": 2,
                           "history_table_id": None, "op_time": 1700000000002, "op_user": None}},
            {"NamespaceReq": {"Set": {"namespace_id": "qa", "namespace_name": "QA", "type": "2"}}}]})
        ires = lib.harness_run_parallel("dispatch", icases, shards=8, env=henv)

        def view(d):
            users = sorted((e["id"], e["name"]) for e in d["namespace"]["sorted"] if e["flag"] & 2 and e["id"] != "__already_sync")
            rows = [t for t in d["table"]["tables"] if t["name"] in ("T_USER", "T_CACHE") and t["rows"]]
            return {"config": d["config"], "sequences": d["sequences"], "naming": d["naming"], "user_namespaces": users, "user_rows": rows}
        n_inst = 0
        for c, r in zip(icases, ires):
            n_eval += 1
            if r.get("r") != "ok":
                chk.violation("live-install case failed: %s" % json.dumps(r)[:300], {"suite": "dispatch", "case": c, "impl": r}, True)
                continue
            n_inst += 1
            va, vb = view(r["a_final"]), view(r["b_installed"])
            nontrivial.add(("install-live", len(c["reqs"]), c["prefix"], r["snapshot_records"]))
            for comp in va:
                if va[comp] != vb[comp]:
                    chk.classify("install-live:%s" % comp,
                                 "a running node that had applied %d of %d entries and was then caught up by the leader's snapshot (no removal "
                                 "in the rest) serves different %s than the leader: %s"
                                 % (c["prefix"], len(c["reqs"]), comp, lib.diff_first(va[comp], vb[comp])),
                                 {"suite": "dispatch", "case": c, "component": comp, "leader": va[comp], "installed": vb[comp]})
            if r.get("b_again") is not None:
                vg = view(r["b_again"])
                for comp in vb:
                    if vb[comp] != vg[comp]:
                        chk.classify("install-again:%s" % comp,
                                     "the same snapshot loaded a second time over a running node changes the %s it serves: %s"
                                     % (comp, lib.diff_first(vb[comp], vg[comp])),
                                     {"suite": "dispatch", "case": c, "component": comp, "first": vb[comp], "second": vg[comp]})
            if r.get("a_after") is not None and all(va[comp] == vb[comp] for comp in va):
                wa, wb = view(r["a_after"]), view(r["b_after"])
                nontrivial.add(("install-follow", len(c.get("suffix", [])), c["prefix"]))
                for comp in wa:
                    if wa[comp] != wb[comp]:
                        chk.classify("install-follow:%s" % comp,
                                     "after the install the follower applied the same %d committed entries as the leader but serves "
                                     "different %s: %s" % (len(c.get("suffix", [])), comp, lib.diff_first(wa[comp], wb[comp])),
                                     {"suite": "dispatch", "case": c, "component": comp, "leader": wa[comp], "follower": wb[comp]})
        chk.cov["install_live_cases"] = n_inst

    # ---- NamespaceActor scripts: the real actor vs SM/ConcreteNs.v (incl. weak namespaces and LIVE install) ------
    if ok_h:
        def cb(x):
            return "[" + ";".join(str(b) for b in x.encode("utf-8")) + "]%N"

        def copt(x):
            return "None" if x is None else "(Some %s)" % cb(x)
        ids = ["ns1", "ns2", "t1", "dev", "public", "", "__already_sync"]

        def gen_ns_script():
            ops, sid = [], 0
            for _ in range(rng.randrange(4, 30)):
                x = rng.random()
                nid = rng.choice(ids)
                if x < 0.45:
                    kind = rng.choice(["AddOnly", "Update", "Set", "Set", "Delete"])
                    if kind == "Delete":
                        ops.append(["req", {"Delete": {"id": nid}}])
                    else:
                        ops.append(["req", {kind: {"namespace_id": nid, "namespace_name": rng.choice([None, "name-" + nid, "other", ""]),
                                                   "type": rng.choice([None, "2", "0"])}}])
                elif x < 0.62:
                    ops.append(["weak", nid, rng.choice(["Config", "Naming"])])
                elif x < 0.72:
                    ops.append(["unweak", nid, rng.choice(["Config", "Naming"])])
                elif x < 0.82:
                    sid += 1
                    ops.append(["snap", sid])
                elif x < 0.88 and sid:
                    ops.append(["fresh"])
                    ops.append(["load", rng.randrange(1, sid + 1)])
                elif sid:
                    ops.append(["load", rng.randrange(1, sid + 1)])          # install over the live state
            return {"ops": ops}

        def coq_nsop(o):
            if o[0] == "req":
                k, v = list(o[1].items())[0]
                if k == "Delete":
                    return "OReq (NsDelete %s)" % cb(v["id"])
                return "OReq (Ns%s (mkNsP %s %s %s))" % (k, cb(v["namespace_id"]), copt(v["namespace_name"]), copt(v["type"]))
            if o[0] in ("weak", "unweak"):
                return "%s %s %d" % ("OWeak" if o[0] == "weak" else "OUnweak", cb(o[1]), 4 if o[2] == "Config" else 8)
            if o[0] == "snap":
                return "OSnap %d" % o[1]
            if o[0] == "fresh":
                return "OFresh"
            return "OLoad %d" % o[1]
        ncases = [gen_ns_script() for _ in range(60 if tier == "quick" else 1500)]
        nres = lib.harness_run_parallel("ns", ncases, shards=4)
        try:
            nmod = lib.coq_eval_sharded("c08ns", "From RN Require Import SM.ConcreteNs SM.NsScript.\nOpen Scope N_scope.\n",
                                        ["map fst (ns_run ns_init [] [%s])" % ";".join(coq_nsop(o) for o in c["ops"]) for c in ncases], per=10)
        except RuntimeError as ex:
            chk.violation("namespace model evaluation failed: %s" % str(ex)[:300], {"broken": "model evaluation", "log": str(ex)[-2000:]}, False)
            nmod = None
        n_ns = 0
        if nmod is not None:
            for c, r, m in zip(ncases, nres, nmod):
                n_eval += 1
                if r.get("r") != "ok":
                    chk.violation("ns suite failed on a script: %s" % str(r)[:200], {"suite": "ns", "case": c}, True)
                    continue
                mm = [[[bytes(e[0]).decode("utf-8", "replace"), bytes(e[1]).decode("utf-8", "replace"), int(e[2])] for e in step] for step in m]
                n_ns += len(mm)
                if mm != r["out"]:
                    j = next((i for i in range(min(len(mm), len(r["out"]))) if mm[i] != r["out"][i]), -1)
                    chk.violation("model != implementation (NamespaceActor script, after op #%d %s): model=%s impl=%s"
                                  % (j, json.dumps(c["ops"][j]) if 0 <= j < len(c["ops"]) else "?", json.dumps(mm[j])[:200] if j >= 0 else "?",
                                     json.dumps(r["out"][j])[:200] if j >= 0 else "?"),
                                  {"suite": "ns", "case": {"ops": c["ops"][:j + 1]}, "model": mm[j] if j >= 0 else None,
                                   "impl": r["out"][j] if j >= 0 else None, "correspondence": "SM.ConcreteNs / SM.NsScript"}, False)
        chk.cov["namespace_script_steps"] = n_ns

    # ---- the snapshot a node would stream to a lagging node (get_current_snapshot): own compactions and installs interleaved ----
    if ok_h:
        scases = []
        for _ in range(12 if tier == "quick" else 150):
            ops, idx = [], 0
            for _ in range(rng.randrange(2, 8)):
                idx += rng.randrange(1, 50)
                ops.append([rng.choice(["own", "own", "install"]), idx, sorted(rng.sample([1, 2, 3, 4], rng.randrange(1, 4)))])
                if rng.random() < 0.15:
                    ops.append(["reopen"])
            scases.append({"mode": "snapmgr", "ops": ops})
        sres = lib.harness_run_parallel("indexfile", scases, shards=4, env=henv)
        for c, r in zip(scases, sres):
            n_eval += 1
            if r.get("r") != "ok":
                chk.violation("snapmgr case failed: %s" % json.dumps(r)[:200], {"suite": "indexfile", "case": c}, True)
                continue
            last = None
            for o, cur in zip(c["ops"], r["obs"]):
                if o[0] != "reopen":
                    last = o
                h = cur.get("header") if isinstance(cur, dict) else None
                if last is not None and (h is None or h["last_index"] != last[1] or h["member"] != last[2]):
                    chk.classify("current-snapshot-header", "after %s the node's current snapshot (what get_current_snapshot streams to a lagging node) "
                                 "is announced with header %s, but the file is the snapshot at index %d with members %s"
                                 % (json.dumps(o), json.dumps(h), last[1], last[2]), {"suite": "indexfile", "case": c, "obs": r["obs"]})
                    break
            nontrivial.add(("snapmgr", json.dumps(c["ops"])[:120]))
        chk.cov["snapshot_manager_scripts"] = len(scases)

    # ---- a follower killed DURING the snapshot install: crash images of its data directory, restarted next to the leader ----
    import nodescen_install
    from checks import c04 as _c04
    okS, outS = _c04.build_shim()
    if not okS:
        chk.violation("crashfs shim does not build", {"broken": "shim build", "log": outS[-1000:]}, False)
    else:
        for rep in range(1 if tier == "quick" else 3):
            def inspect(d):
                o = lib.harness_run("indexfile", [{"mode": "store", "dir": d, "ops": []}], env=henv)[0]
                ob = o["obs"][0] if o.get("r") == "ok" and o.get("obs") else {}
                st = ob.get("is", {}) if isinstance(ob, dict) else {}
                return {"applied": ob.get("applied") if isinstance(ob, dict) else None,
                        "last_log_index": max([st.get("last_log_index", 0)] + [e[0] for e in (ob.get("log", []) if isinstance(ob, dict) else [])]),
                        "snapshots": ob.get("snaps") if isinstance(ob, dict) else None}
            oi = nodescen_install.scenario_install_crash_images(binary, rng, _c04.SHIM_SO, _c04.parse_journal, _c04.apply_mut, _c04.write_image,
                                                                n_images=8 if tier == "quick" else 16, inspect=inspect if ok_h else None)
            n_eval += 1
            if not oi.get("images"):
                chk.notes.setdefault("inconclusive", []).append({"scenario": "install_crash_images", "errors": oi.get("errors"),
                                                                 "joined": oi.get("joined"), "caught_up": oi.get("caught_up")})
                continue
            nontrivial.add(("install-crash", rep, tuple(oi.get("window", []))))
            for im in oi["images"]:
                n_eval += 1
                rcv = im.get("recovered") or {}
                if rcv.get("applied") is not None:
                    repro = max([rcv.get("last_log_index") or 0] + [sn[1] for sn in (rcv.get("snapshots") or [])])
                    if rcv["applied"] > repro:
                        chk.classify("install-crash-image:applied-past-reproducible",
                                     "a follower killed during the snapshot install (after file mutation #%d of its journal: %s): the image recovers "
                                     "last_applied = %d although its catalogued snapshots and its log reproduce the state only up to %d"
                                     % (im["journal_prefix"], im["tail"][-3:], rcv["applied"], repro),
                                     {"scenario": "install_crash_images", "image": im, "window": oi.get("window")})
                if not im.get("follows") or im.get("diff"):
                    chk.classify("install-crash-image",
                                 "a follower killed during the snapshot install (after file mutation #%d of its journal: %s) and restarted next to "
                                 "the leader %s" % (im["journal_prefix"], im["tail"][-3:],
                                                    "never follows the leader again" if not im.get("follows") else
                                                    "serves other data than the leader: %s" % im["diff"][:2]),
                                 {"scenario": "install_crash_images", "image": im, "window": oi.get("window")})
            chk.cov["install_crash_images"] = chk.cov.get("install_crash_images", 0) + len(oi["images"])

    # ---- late join ---------------------------------------------------------------------
    shapes = [(90, 30), (60, 10)] if tier == "quick" else [(90, 30), (60, 10), (300, 50), (40, 5), (500, 100), (120, 20)]
    for writes, threshold in shapes:
        o = nodescen.scenario_late_join(binary, rng, writes=writes, threshold=threshold)
        n_eval += 1
        nontrivial.add(("late_join", writes, threshold))
        if not o.get("joined") or not o.get("probe_served"):
            o = nodescen.scenario_late_join(binary, rng, writes=writes, threshold=threshold)   # liveness: retried once
            n_eval += 1
        for f in o.get("fatal", []):
            chk.classify("storage-fatal", "the Raft core of node %s was shut down by its storage layer: %s" % (f["node"], f["line"]),
                         {"scenario": "late_join", "writes": writes, "threshold": threshold, "fatal": f, "ops": o.get("sample_ops")})
        if not o.get("joined") or not o.get("probe_served"):
            chk.classify("late-join:never-caught-up", "a late joiner was not caught up (joined=%s probe=%s)" % (o.get("joined"), o.get("probe_served")),
                         {"scenario": "late_join", "obs": {k: o[k] for k in o if k != "sample_ops"}})
            continue
        if not o["leader_snapshot_files"]:
            chk.notes.setdefault("inconclusive", []).append("leader made no snapshot for writes=%d threshold=%d" % (writes, threshold))
        if o["leader_vs_spec_diff"]:
            chk.violation("the leader itself does not serve the acknowledged history", {"scenario": "late_join", "obs": o}, True)
        if o["before_restart_diff"]:
            chk.classify("install:data-not-served", "a late joiner caught up by snapshot serves different data than the leader "
                         "(%d of %d keys, e.g. %s)" % (len(o["before_restart_diff"]), o["n_keys"], o["before_restart_diff"][0]),
                         {"scenario": "late_join", "writes": writes, "threshold": threshold, "diff": o["before_restart_diff"][:20],
                          "ops": o["sample_ops"]})
        if o["leader_namespaces"] != o["joiner_namespaces"]:
            chk.classify("install:namespaces-not-served", "late joiner namespaces differ from the leader's",
                         {"scenario": "late_join", "leader": o["leader_namespaces"], "joiner": o["joiner_namespaces"]})
        if o.get("after_restart_diff"):
            chk.classify("install:restart-differs", "after its restart the joiner serves different data than the leader: %s" % o["after_restart_diff"][0],
                         {"scenario": "late_join", "diff": o["after_restart_diff"][:20]})
        if o.get("probe_served_after_restart") is False:
            chk.classify("install:restart-stuck", "after its restart the joiner does not follow the log any more",
                         {"scenario": "late_join", "obs": {k: o[k] for k in ("joiner_metrics", "leader_metrics", "errors")}})
        # membership as persisted by the install: read back by the joiner's restart (the live metrics
        # endpoint of a freshly joined node is a stale watch value and is not judged)
        mj, ml = o.get("joiner_metrics_after_restart") or {}, o.get("leader_metrics_after_restart") or {}
        if mj and ml and sorted(mj["membership_config"]["members"]) != sorted(ml["membership_config"]["members"]):
            chk.classify("install:membership", "joiner membership %s differs from leader %s" % (mj["membership_config"], ml["membership_config"]),
                         {"scenario": "late_join", "joiner": mj, "leader": ml})
        samples.append({"scenario": "late_join", "writes": writes, "threshold": threshold, "ops": o["sample_ops"],
                        "snapshots": o["leader_snapshot_files"]})

    # ---- live follower far behind ------------------------------------------------------------
    o = nodescen.scenario_far_behind(binary, rng, threshold=30, fill=1700 if tier == "quick" else 2500)
    n_eval += 1
    nontrivial.add(("far_behind", "freeze"))
    for f in o.get("fatal", []):
        chk.classify("storage-fatal", "the Raft core of node %s was shut down by its storage layer: %s" % (f["node"], f["line"]),
                     {"scenario": "far_behind", "fatal": f})
    if not o.get("probe_served") and not o.get("fatal"):
        o = nodescen.scenario_far_behind(binary, rng, threshold=30, fill=1700)
        n_eval += 1
        for f in o.get("fatal", []):
            chk.classify("storage-fatal", "the Raft core of node %s was shut down by its storage layer: %s" % (f["node"], f["line"]),
                         {"scenario": "far_behind", "fatal": f})
    if not o.get("probe_served"):
        chk.notes.setdefault("inconclusive", []).append("frozen follower did not catch up within the wait (raft liveness, not judged)")
    else:
        installed = bool(o.get("node3_snapshot_files"))
        stale = [d for d in o["diff"] if d["leader"] is None and d["node3"] is not None]
        other = [d for d in o["diff"] if d not in stale]
        if other:
            chk.classify("install:live-follower-differs", "a follower caught up by snapshot serves %s where the leader serves %s"
                         % (other[0]["node3"], other[0]["leader"]), {"scenario": "far_behind", "diff": other[:20]})
        for d in stale:
            chk.classify("install-overlays-live-state", "live follower keeps serving a key the leader removed: %s" % d,
                         {"scenario": "far_behind", "diff": d})
        # model prediction for the three interesting keys
        try:
            live = "[(1,10);(2,20);(3,30)]"                 # stay=s0 gone=g0 chg=c0
            recs = "[(1,10);(3,31)]"                        # leader: stay=s0, chg=c1, gone removed
            v = lib.coq_eval_sharded("c08", HEADER, ["eval_install %s %s [1;2;3]" % (live, recs),
                                                      "eval_install_restart %s [1;2;3]" % recs])
            pred = [None if x == "None" else x[1] for x in v[0]]
            name = {10: "s0", 20: "g0", 30: "c0", 31: "c1", None: None}
            pred_named = {"/stay": name[pred[0]], "/gone": name[pred[1]], "/chg": name[pred[2]]}
            got = {"/stay": "s0", "/gone": None, "/chg": "c1"}
            for d in o["diff"]:
                if d["key"] in got:
                    got[d["key"]] = d["node3"]
            if installed and got != pred_named:
                chk.violation("model != implementation (content served by a live follower after an install)",
                              {"correspondence": "Cluster.Install.install", "model": pred_named, "impl": got}, False)
            chk.notes["far_behind"] = {"installed": installed, "model": pred_named, "impl": got}
        except RuntimeError as ex:
            chk.violation("model evaluation failed: %s" % str(ex)[:300], {"broken": "model evaluation", "log": str(ex)[-2000:]}, False)
        samples.append({"scenario": "far_behind", "diff": o["diff"][:3], "node3_snapshot_files": o.get("node3_snapshot_files")})

    if not proofs_ok:
        chk.violation("proof obligations of C08 no longer check: %s" % chk.proof_failure[:300],
                      {"broken": "theorem", "detail": chk.proof_failure}, False)
    chk.cov["evaluations"] = n_eval
    chk.cov["distinct_nontrivial"] = len(nontrivial)
    chk.cov["rule"] = ("real multi-process scenarios: late join after compaction for (writes, snapshot threshold) in %s with seeded "
                       "publish/remove/namespace histories, compared key by key with the leader before and after the joiner's "
                       "restart; a follower frozen by SIGSTOP while the leader removes/overwrites keys and writes past the "
                       "replication lag threshold. Non-trivial = distinct scenario shape." % shapes)
    chk.cov["samples"] = samples
    chk.cov["traces_validated_against_impl"] = n_eval
    chk.assumptions += ["async-raft-ext transfers the snapshot file correctly (trusted)",
                        "the snapshot builder writes, for every key, the leader's value (C01's round-trip law)"]
