"""C12 — registry queries return exactly live registrations; disconnect removes own only."""
import json
from fractions import Fraction

import lib
from checks import naming_common as nc

TARGETS = ["Props/C12.v", "Naming/Script.v", "Naming/Examples.v"]

MANIFEST = dict(
    text="Theorems about the NamingActor model, for every state satisfying the registry invariant Inv (proved reachable in C11): "
         "query_exact (hosts returned = stored enabled instances; all of them shown healthy when healthy/total <= threshold, else "
         "only the healthy ones under healthy-only; each address once), service_info_exact, registered_fields_kept (new "
         "registration keeps address/ephemeral/enabled/weight for any origin and tag), foreign_deregister_refused / "
         "own_deregister_removes, disconnect_removes_own_ephemeral_only (RemoveClient leaves every instance untouched except "
         "ephemeral instances of that client) + disconnect_removes_recorded_ephemeral + grpc_registration_recorded, console "
         "metadata precedence; completeness at full strength over ALL histories: conv (every stored instance carrying the id of a "
         "connection not yet removed is recorded for it) is preserved by every op (conv_step, conv_reachable), so for a live "
         "connection recorded = owned (recorded_iff_owned) and RemoveClient removes ALL its ephemeral instances and nothing else "
         "(disconnect_removes_ALL_own_ephemeral, disconnect_exact; hypotheses are boolean predicates on the history: op_wfb, alive_b "
         "= the connection id was not removed before).  The old code's violation (persistent gRPC instance removed on disconnect) is kept as a refuted "
         "statement about a regression model; the repair is commit 773fb5e.  Tied to the code by the differential run of the REAL "
         "NamingActor (QueryList/QueryListString/QueryServiceInfo/Query/Delete/RemoveClient through the mailbox) + an "
         "independent oracle recomputing each answer from the dumped instance map; the disconnect oracle reconstructs ownership "
         "from the op history ALONE (which live connection registered which address as ephemeral, HTTP overwrite keeps ownership, "
         "deregistration rules, distro diff), never from the implementation's client_instance_set or stored client id.",
    note="The protection test is proved over exact rationals (threshold num/den); binary32 rounding is not modelled, the harness "
         "uses thresholds {0,1/4,1/2,3/4,1} and a handful of instances where both agree. Disconnect completeness holds for connections that "
         "have not been removed before (ids are not reused; generators retire ids). Observation replayed on the real code, outside "
         "the statement: a persistent gRPC instance survives the end of its connection (correct), a later HTTP update flips it to "
         "ephemeral, it keeps the dead connection's id and then belongs to no live connection and to no clock (orphan_flip_example). Trusted: as C11.",
    technique="Rocq proof (consequences of the registry invariant) + model/implementation correspondence",
    design="3/C12",
)


def reached(hosts, thr4):
    total = len(hosts)
    if total == 0:
        return False
    thr = Fraction(max(thr4, 0), 4)
    return Fraction(sum(1 for h in hosts if h["he"]), total) <= thr


def expected_hosts(service, healthy_only):
    """what the property demands, from the dumped instance map of the service (None = absent)"""
    if service is None:
        return [], False
    live = [dict(e["i"]) for e in service["instances"] if e["i"]["en"]]
    if reached(live, service["thr4"]):
        return sorted([dict(h, he=True) for h in live], key=lambda x: x["k"]), True
    if healthy_only:
        live = [h for h in live if h["he"]]
    return sorted(live, key=lambda x: x["k"]), False


def svc_of(state, sk):
    for s in state["services"]:
        if s["map_key"] == list(sk):
            return s
    return None


def inst_of(state, sk, ik):
    s = svc_of(state, sk)
    if s is None:
        return None
    for e in s["instances"]:
        if e["mk"] == ik:
            return e["i"]
    return None


def all_instances(state):
    return {(tuple(s["map_key"]), e["mk"]): e["i"] for s in state["services"] for e in s["instances"]}


class Ownership:
    """Who owns which address, reconstructed from the op history ALONE (never from the
    implementation's client_instance_set or the client id it stores): which (service, address) each
    live gRPC connection has registered, whether the registration is ephemeral, and which
    connections have already been removed.  Presence is pruned with the dumped instance map only
    for removals that do not depend on ownership (time-outs of HTTP instances)."""

    def __init__(self):
        self.owner = {}     # address -> gRPC connection id, 0 = none (HTTP / raft)
        self.fg = {}        # address -> registered over gRPC (kept by an ephemeral HTTP overwrite)
        self.eph = {}       # address -> ephemeral
        self.dead = set()   # connections whose RemoveClient was processed
        self.seen = set()   # connections that ever registered something

    def write(self, key, i, tag):
        exists = key in self.eph
        if i["fg"]:
            self.fg[key] = True
            self.owner[key] = i["cl"]
            if i["cl"]:
                self.seen.add(i["cl"])
        elif exists and i["ep"] and self.fg.get(key):
            pass                                    # HTTP overwrite keeps gRPC ownership
        else:
            self.fg[key] = False
            self.owner[key] = 0
        if not exists or tag is None:
            self.eph[key] = i["ep"]
        elif any(tag[:4]) and tag[3]:
            self.eph[key] = i["ep"]

    def drop(self, key):
        for d in (self.owner, self.fg, self.eph):
            d.pop(key, None)

    def apply(self, op):
        """effect of one op; returns for a client removal the set of addresses that must disappear"""
        n = op[0]
        if n == "upd":
            self.write((tuple(op[1]), op[2]["k"]), op[2], op[3])
        elif n == "batch":
            for k, i in op[1]:
                self.write((tuple(k), i["k"]), i, None)
        elif n == "snap":
            for k, i in op[2]:
                self.write((tuple(k), i["k"]), i, None)
        elif n == "raft":
            if not op[3]["ep"]:
                self.write((tuple(op[2]), op[3]["k"]), dict(op[3], fg=False, fc=0, cl=0), None)
        elif n in ("del", "delbatch"):
            for k, i in ([(op[1], op[2])] if n == "del" else op[1]):
                key = (tuple(k), i["k"])
                if key in self.eph and not (self.eph[key] and i["cl"] != 0 and self.owner.get(key) != i["cl"]):
                    self.drop(key)
        elif n == "raftrm":
            self.drop((tuple(op[1]), op[2]))
        elif n == "diff":
            gone = []
            for c, theirs in op[2]:
                if c in self.seen and c not in self.dead:
                    th = set((tuple(k), ik) for k, ik in theirs)
                    gone += [key for key, o in self.owner.items() if o == c and key not in th]
            for key in gone:
                self.drop(key)
        elif n in ("rmclient", "rmclient_cluster", "rmclients"):
            cls = [op[1]] if n != "rmclients" else list(op[1])
            must = set()
            for c in cls:
                if c == 0 or c in self.dead:
                    continue
                self.dead.add(c)
                for key, o in list(self.owner.items()):
                    if o == c and self.eph.get(key):
                        must.add(key)
                        self.drop(key)
            return must
        return None

    def prune(self, present):
        for key in [k for k in self.eph if k not in present]:
            self.drop(key)


def oracle_step(op, prev, cur, out):
    """returns list of (key, what) for one op, from the implementation's observations only"""
    bad = []
    n = op[0]
    if n in ("qlist", "qstr", "qinfo"):
        want, flag = expected_hosts(svc_of(prev, op[1]), op[2])
        got = out["hosts"]
        if n == "qstr":
            want = [nc.host_view(h, False) for h in want]
        if got != want:
            bad.append(("query", "%s%s returned %s, stored enabled instances demand %s" %
                        (n, op[1:], [(h["k"], h["he"]) for h in got], [(h["k"], h["he"]) for h in want])))
        if n == "qinfo" and out["reach"] != flag:
            bad.append(("query-flag", "reach_protection_threshold=%s, expected %s" % (out["reach"], flag)))
    elif n == "qone":
        i = inst_of(prev, op[1], op[2])
        if (out == "none") != (i is None) or (i is not None and out["i"] != i):
            bad.append(("query-one", "Query%s returned %s, stored %s" % (op[1:], out, i)))
    elif n == "upd":
        before = inst_of(prev, op[1], op[2]["k"])
        after = inst_of(cur, op[1], op[2]["k"])
        if after is None:
            bad.append(("registered-missing", "registered instance %s/%s is not stored" % (op[1], op[2]["k"])))
        elif before is None:
            for f in ("k", "ep", "en", "w"):
                if after[f] != op[2][f]:
                    bad.append(("registered-fields", "new instance %s registered with %s=%s, stored %s" % (op[2]["k"], f, op[2][f], after[f])))
    elif n == "del":
        sk, i = op[1], op[2]
        before = inst_of(prev, sk, i["k"])
        after = inst_of(cur, sk, i["k"])
        b, a = all_instances(prev), all_instances(cur)
        others_same = all(a.get(key) == v for key, v in b.items() if key != (tuple(sk), i["k"])) and set(a) <= set(b)
        if not others_same:
            bad.append(("deregister-others", "deregistration of %s/%s changed another instance" % (sk, i["k"])))
        if before is not None:
            foreign = before["ep"] and i["cl"] != 0 and before["cl"] != i["cl"]
            if foreign and after != before:
                bad.append(("deregister-foreign", "ephemeral instance of client %s removed by client %s" % (before["cl"], i["cl"])))
            if not foreign and after is not None:
                bad.append(("deregister-own", "deregistration by owner/HTTP did not remove %s/%s" % (sk, i["k"])))
    elif n in ("rmclient", "rmclient_cluster", "rmclients"):
        cls = [op[1]] if n != "rmclients" else list(op[1])
        b, a = all_instances(prev), all_instances(cur)
        recorded = {c: set(map(tuple, ks)) for c, ks in prev["clients"]}
        for key, v in b.items():
            if key in a:
                if a[key] != v:
                    bad.append(("disconnect-changed", "instance %s changed by client removal" % (key,)))
            else:
                if not v["ep"]:
                    bad.append(("disconnect-persistent", "persistent instance %s removed when client %s disconnected" % (key, cls)))
                if v["cl"] not in cls:
                    bad.append(("disconnect-foreign", "instance %s of client %s removed when client %s disconnected" % (key, v["cl"], cls)))
        for key in a:
            if key not in b:
                bad.append(("disconnect-added", "instance %s appeared on client removal" % (key,)))
        for c in cls:
            for (n_, g_, s_, ik) in recorded.get(c, ()):
                v = b.get(((n_, g_, s_), ik))
                if v is not None and v["ep"] and ((n_, g_, s_), ik) in a:
                    bad.append(("disconnect-left", "ephemeral instance %s recorded for client %s survived its disconnect" % (((n_, g_, s_), ik), c)))
    return bad


def nasty_cases(rng):
    mk = nc.mk_inst
    sk, sk2 = [1, 1, 1], [1, 2, 1]
    out = []

    def case(ops, services=(sk, sk2)):
        out.append({"cfg": dict(nc.CFG), "ops": ops, "dump": "all", "services": [list(s) for s in services]})

    # the repaired defect: persistent + ephemeral over one gRPC connection, then it closes
    case([["upd", sk, mk(0, ep=False, fg=True, cl=1), nc.grpc_tag(mk(0)), False],
          ["upd", sk, mk(1, ep=True, fg=True, cl=1), nc.grpc_tag(mk(1)), False],
          ["upd", sk2, mk(0, ep=True, fg=True, cl=2), nc.grpc_tag(mk(0)), False], ["rmclient", 1], ["qall", sk], ["qall", sk2],
          ["rmclient", 2], ["qall", sk2]])
    # an HTTP heartbeat / re-registration over a gRPC-owned address keeps the ownership: the instance still goes when
    # the connection closes (the record must not be dropped by the overwrite)
    case([["upd", sk, mk(0, fg=True, cl=1), nc.grpc_tag(mk(0)), False], ["upd", sk, mk(0), list(nc.TAG_BEAT), False],
          ["upd", sk, mk(0, md=1), list(nc.TAG_ALL), False], ["upd", sk2, mk(0, fg=True, cl=1), nc.grpc_tag(mk(0)), False],
          ["upd", sk2, mk(0), [True, True, True, False, True], False], ["qall", sk], ["rmclient", 1], ["qall", sk], ["qall", sk2]])
    # ORPHAN_FLIP (observation, outside the statement): a persistent instance survives the end of its connection, is
    # then flipped to ephemeral over HTTP and keeps the id of the dead connection; removing the dead id again does nothing
    case([["upd", sk, mk(0, ep=False, fg=True, cl=1), nc.grpc_tag(mk(0)), False], ["upd", sk, mk(1, fg=True, cl=2), nc.grpc_tag(mk(1)), False],
          ["rmclient", 1], ["upd", sk, mk(0, ep=True), [False, False, False, True, True], False], ["qone", sk, 0], ["rmclient", 1],
          ["qone", sk, 0], ["rmclient", 2], ["qall", sk]])
    # thresholds x healthy/unhealthy mixes x healthy_only
    for q in (0, 1, 2, 3, 4):
        ops = [["svc", sk, q]]
        for k, he, en in ((0, True, True), (1, False, True), (2, False, True), (8, True, False), (9, True, True)):
            ops.append(["upd", sk, mk(k, he=he, en=en, fg=True, cl=1), None, False])
        for b in (True, False):
            ops += [["qlist", sk, b], ["qstr", sk, b], ["qinfo", sk, b]]
        ops += [["upd", sk, mk(0, he=False, fg=True, cl=1), None, False], ["qlist", sk, True], ["qinfo", sk, True],
                ["upd", sk, mk(9, he=False, fg=True, cl=1), None, False], ["qlist", sk, True], ["qinfo", sk, False],
                ["qlist", [2, 2, 2], True], ["qinfo", [2, 2, 2], True]]
        case(ops, services=(sk,))
    # address changes owner, deregistrations with matching / non-matching ids, HTTP delete of a gRPC instance
    case([["upd", sk, mk(0, fg=True, cl=1), nc.grpc_tag(mk(0)), False], ["del", sk, mk(0, fg=True, cl=2)],
          ["upd", sk, mk(0, fg=True, cl=2), nc.grpc_tag(mk(0)), False], ["del", sk, mk(0, fg=True, cl=1)], ["rmclient", 1],
          ["qall", sk], ["del", sk, mk(0)], ["qall", sk],
          ["upd", sk, mk(1, ep=False, fg=True, cl=1), nc.grpc_tag(mk(1)), False], ["del", sk, mk(1, fg=True, cl=2)], ["qall", sk]])
    # console metadata override, then SDK re-registration
    case([["upd", sk, mk(0, md=1, fg=True, cl=1), nc.grpc_tag(mk(0)), False], ["upd", sk, mk(0, md=2), [False, True, False, False, True], False],
          ["upd", sk, mk(0, md=3, fg=True, cl=1), nc.grpc_tag(mk(0)), False], ["qlist", sk, False], ["qone", sk, 0]])
    return out


def random_case(rng, nops):
    g = nc.Gen(rng)
    ops = []
    for _ in range(nops):
        x = rng.random()
        if x < 0.25:
            q = g.query()
            if q[0] in ("qlist", "qstr", "qinfo") and rng.random() < 0.4:
                q = q + [rng.choice(["DEFAULT", "c1", "c1,c2", "nope"])]      # cluster filter: the code ignores it
            ops.append(q)
        elif x < 0.33:
            ops.append(["rmclient", rng.choice(g.clients + g.remote[:1])])
        elif x < 0.36:
            ops.append(["svc", g.sk(), rng.choice([0, 1, 2, 3, 4])])
        else:
            ops.append(g.op())
            if ops[-1][0] == "upd" and rng.random() < 0.3:
                ops[-1][2]["cn"] = rng.choice(["c1", "c2"])                     # instance registered in a named cluster
        g.retire(ops[-1])
    return {"cfg": dict(nc.CFG), "ops": ops, "dump": "all", "services": [list(k) for k in g.services]}


def run(chk, replay=None):
    tier = chk.tier
    rng = chk.rng
    proofs_ok = chk.proofs(TARGETS)
    ok, out = lib.harness_build()
    if not ok:
        chk.violation("harness does not build against /repo", {"broken": "harness build", "log": out[-3000:]}, False)
        return
    hashes = nc.get_hashes()
    rp = json.load(open(replay))["replay"] if replay else None
    if rp and isinstance(rp, dict) and rp.get("case"):
        cases = [rp["case"]]
    else:
        n = 900 if tier == "quick" else 6000
        cases = nasty_cases(rng) + [random_case(rng, rng.choice([15, 25, 35])) for _ in range(n)]
    impl = lib.harness_run_parallel("naming", cases)

    n_eval = 0
    n_indep = 0
    nontrivial = set()
    hist = {}
    t0_state = {"services": [], "clients": [], "index": {"size": 0, "ns": []}, "empty_set": [], "meta_set": [], "range": None}
    for c, r in zip(cases, impl):
        if r.get("r") != "ok":
            chk.violation("NamingActor panicked", {"suite": "naming", "case": c}, True)
            continue
        if not nc.in_scope_case(c):
            continue
        prev = t0_state
        own = Ownership()
        for ix, (op, st) in enumerate(zip(c["ops"], r["steps"])):
            cur = nc.canon_impl_state(st["st"])
            must = own.apply(op)
            if must is not None:
                b, a = all_instances(prev), all_instances(cur)
                must = set(k for k in must if k in b)
                gone = set(b) - set(a)
                n_indep += 1
                if gone != must:
                    what = ("connection(s) %s closed: instances registered by it as ephemeral (from the op history) = %s, "
                            "instances that disappeared = %s" % (op[1], sorted(must), sorted(gone)))
                    chk.classify("C12:disconnect-history", "op %d %s: %s" % (ix, op[0], what),
                                 {"suite": "naming", "case": dict(c, ops=c["ops"][:ix + 1]), "what": what})
            own.prune(all_instances(cur))
            if op[0] in ("qlist", "qstr", "qinfo", "qone", "upd", "del", "rmclient", "rmclient_cluster", "rmclients"):
                n_eval += 1
                hist[op[0]] = hist.get(op[0], 0) + 1
                for key, what in oracle_step(op, prev, cur, st["out"]):
                    chk.classify("C12:" + key, "op %d %s: %s" % (ix, op[0], what),
                                 {"suite": "naming", "case": dict(c, ops=c["ops"][:ix + 1]), "what": what})
                    break
                if op[0] in ("qlist", "qstr", "qinfo"):
                    s = svc_of(prev, op[1])
                    if s is not None and len(s["instances"]) > 1:
                        nontrivial.add((op[0], op[2], s["thr4"], len(s["instances"]), s["hsize"],
                                        sum(1 for e in s["instances"] if e["i"]["en"])))
                elif op[0].startswith("rmclient"):
                    nontrivial.add((op[0], json.dumps(prev["clients"])))
                elif op[0] == "del":
                    i = inst_of(prev, op[1], op[2]["k"])
                    if i is not None:
                        nontrivial.add(("del", i["ep"], i["cl"], op[2]["cl"]))
            prev = cur

    if not replay:
        # the orphan-flip observation (third structured history)
        try:
            st = impl[2]["steps"]
            chk.notes["orphan_flip_observation"] = {
                "after_flip": st[4]["out"], "after_second_RemoveClient_of_the_dead_id": st[6]["out"],
                "meaning": "ephemeral instance bound to a connection that no longer exists; it is under neither the heartbeat clock "
                           "(from_grpc) nor any live connection; outside C12_disconnect_removes_ALL_own_ephemeral (alive_b false)"}
        except Exception:
            pass
    mism = 0
    try:
        vals = lib.coq_eval_sharded("c12", nc.HEADER, [nc.model_expr(c, hashes) for c in cases],
                                    per=5 if tier == "quick" else 40, timeout=1800)
    except RuntimeError as ex:
        chk.violation("model evaluation failed: %s" % str(ex)[:300], {"broken": "model evaluation", "log": str(ex)[-3000:]}, False)
        vals = None
    if vals is not None:
        for c, r, m in zip(cases, impl, vals):
            if r.get("r") != "ok":
                continue
            for ix, (op, st, ms) in enumerate(zip(c["ops"], r["steps"], m)):
                d = (lib.diff_first(nc.canon_model_out(ms[0], op[0]), nc.canon_impl_out(st["out"], op[0]), "out")
                     or lib.diff_first(nc.canon_model_state(ms[1]), nc.canon_impl_state(st["st"]), "state"))
                if d:
                    mism += 1
                    chk.violation("model != implementation after op %d %s: %s" % (ix, op[0], d),
                                  {"suite": "naming", "case": dict(c, ops=c["ops"][:ix + 1]), "diff": d,
                                   "correspondence": "Naming.Script.run_dump"}, False)
                    break
    if not proofs_ok:
        chk.violation("proof obligations of C12 no longer check: %s" % chk.proof_failure[:300],
                      {"broken": "theorem", "detail": chk.proof_failure}, False)

    chk.cov["evaluations"] = n_eval
    chk.cov["distinct_nontrivial"] = len(nontrivial)
    chk.cov["rule"] = ("one evaluation = one query / registration / deregistration / client removal judged by the oracle against the "
                       "instance map dumped just before it; structured histories: persistent+ephemeral over one connection then "
                       "disconnect (the repaired defect), thresholds {0,1/4,1/2,3/4,1} x healthy mixes x healthy_only on the three query "
                       "commands, ownership swaps with matching / non-matching deregistrations, console metadata; + seeded random "
                       "histories (>= 2 gRPC clients + HTTP + synced remote clients, overlapping addresses). Non-trivial = distinct "
                       "(query kind, healthy_only, threshold, #instances, #healthy, #enabled) with >1 instance, distinct client-set at "
                       "a disconnect, distinct (ephemeral, owner, caller) at a deregistration")
    chk.cov["samples"] = cases[:2] + [cases[len(cases) // 2]]
    chk.cov["input_distribution"] = {"histories": len(cases), "judged_ops_by_kind": hist, "model_impl_mismatches": mism,
                                     "disconnects_judged_from_history_alone": n_indep}
    chk.assumptions += ["thresholds exactly representable (k/4), binary32 rounding not modelled",
                        "cluster filter strings and instance cluster names are exercised on the real code; the code ignores them "
                        "(get_instance_list(_cluster_names, ..)), so does the model (no such parameter)",
                        "instances not from gRPC carry no client id (op_wf)"]
