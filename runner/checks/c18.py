"""C18 — Namespace-scoped users never see or change data outside their namespaces."""
import json
import os
import sys
import time

import lib

sys.path.insert(0, os.path.join(lib.VERIF, "translators"))
import console_tables  # noqa: E402
import guards  # noqa: E402
from rustparse import Refuse  # noqa: E402

sys.path.insert(0, os.path.dirname(os.path.abspath(__file__)))
from c17 import cps, cps_list, failed_lemma  # noqa: E402

TARGETS = ["Props/C18.v", "Auth/PrivilegeExamples.v", "Auth/PrivilegeScript.v"]

MANIFEST = dict(
    text="Theorems (all privilege groups, all namespace strings, all indexes) about an executable Gallina model of "
         "PrivilegeGroup / NamespacePrivilegeGroup (check_permission = whitelisted and not blacklisted, blacklist wins, default "
         "namespace \"\"/\"public\" under one key, enabled flag irrelevant, is_all shortcut sound), of the stored-record -> "
         "session copy and of the index listing filters; plus the endpoint sweep: a translator classifies the guard idiom of every "
         "console API handler reachable from the route tables (refusing handlers it cannot classify) and the theorem "
         "endpoints_guarded holds for every data endpoint except the recorded known-unguarded ones (one known-findings entry per "
         "(route, method); the recorded list is proved exact). The privilege model is validated against the real functions, and "
         "the guard table against the real console (restricted users of 12 privilege classes vs admin, every exercised data "
         "endpoint x namespace spelling): observed allow/deny must equal the model's verdict, and the property oracle classifies "
         "every request served outside the permitted namespaces.  The console namespace listing (is_all shortcut or per-entry "
         "filter) is modelled as namespace_list and proved to name exactly the permitted namespaces that exist; every observed "
         "listing is judged by the ids it lists and compared entry by entry with the model.",
    note="35 console data endpoints apply no namespace privilege (MCP server/toolspec, the v1 routes that re-use the OpenAPI "
         "handlers, v1 config history and download-by-keys, the MCP downloads, the transfer export/import): too many call sites for a "
         "small repair; recorded in known_findings.json, any other unguarded endpoint is a VIOLATION. Endpoints whose request "
         "cannot name a namespace (MCP server by id, imports needing an archive) are classified statically only. How a handler "
         "derives the namespace from its parameters (tenant/namespaceId, omitted -> default or all) is harness glue validated by "
         "the observed allow/deny.",
    technique="Rocq proof (general lemmas + finite enumeration of the generated guard table) + source translator + "
              "model/implementation correspondence + endpoint sweep with known findings",
    design="3/C18",
)

HEADER = "From RN Require Import Auth.StrX Auth.Privilege Auth.PrivilegeScript.\nOpen Scope N_scope.\n"
V1 = "/rnacos/api/console"
V2 = "/rnacos/api/console/v2"

# ---- privilege classes ------------------------------------------------------------------------------------
CLASSES = [   # name, (enabled, wl_all, wl, bl_all, bl)   (wl/bl: None or list)
    ("all", (True, True, None, False, None)),
    ("all-but-b", (True, True, None, False, ["ns-b"])),
    ("all-and-blacklist-all", (True, True, None, True, None)),
    ("a+default", (True, False, ["ns-a", ""], False, None)),
    ("a-whitelisted-and-blacklisted", (True, False, ["ns-a"], False, ["ns-a"])),
    ("empty-whitelist", (True, False, [], False, None)),
    ("no-lists", (True, False, None, False, None)),
    ("a+b+default-but-b", (True, False, ["ns-a", "ns-b", ""], False, ["ns-b"])),
    ("literal-public", (True, False, ["public"], False, None)),
    ("disabled-all-but-b", (False, True, None, False, ["ns-b"])),
    ("disabled-a", (False, False, ["ns-a"], False, None)),
    ("b-only", (True, False, ["ns-b"], False, [])),
]


def group_json(c):
    e, wa, w, ba, b = c
    return {"enabled": e, "whitelistIsAll": wa, "whitelist": w, "blacklistIsAll": ba, "blacklist": b}


def group_coq(c):
    e, wa, w, ba, b = c

    def o(l):
        return "None" if l is None else "(Some %s)" % cps_list(l)
    return "(mkPg %s %s %s %s %s)" % (str(e).lower(), str(wa).lower(), o(w), str(ba).lower(), o(b))


def permitted(c, ns):
    """the property: whitelisted and not blacklisted; the default namespace ("" / "public") is one namespace, id "" """
    e, wa, w, ba, b = c
    key = "" if ns in ("", "public") else ns
    white = wa or (w is not None and key in w)
    black = ba or (b is not None and key in b)
    return white and not black


def session(token, group):
    return {"token": token, "ttl": 3600,
            "session": {"username": "u-" + token, "nickname": None, "roles": ["0"], "namespace_privilege": group,
                        "extend_infos": {}, "refresh_time": int(time.time())}}


# ---- request recipes: how each data endpoint names its namespace ---------------------------------------------
def recipes():
    R = []

    def add(path, method, how, field, base=None, omitted="default", spellings=("ns-a", "ns-b", "ns-c", "", "public", None), kind="read", leak=True):
        R.append(dict(path=path, method=method, how=how, field=field, base=base or {}, omitted=omitted, spellings=spellings,
                      kind=kind, leak=leak))
    cfg = {"dataId": "cfg-{tag}", "group": "g1"}
    cfgw = {"dataId": "cfgw", "group": "g1", "content": "written"}
    svc = {"serviceName": "svc-{tag}", "groupName": "DEFAULT_GROUP"}
    svcw = {"serviceName": "svcw", "groupName": "DEFAULT_GROUP"}
    inst = {"serviceName": "svc-{tag}", "groupName": "DEFAULT_GROUP", "ip": "10.0.0.1", "port": 8080}
    instw = {"serviceName": "svcw", "groupName": "DEFAULT_GROUP", "ip": "10.0.0.9", "port": 9090}
    explicit = ("ns-a", "ns-b", "ns-c")
    # ---- reads first
    add(V2 + "/config/list", "GET", "q", "tenant")
    add(V2 + "/config/info", "GET", "q", "tenant", cfg)
    add(V2 + "/config/history", "GET", "q", "tenant", cfg)
    add(V2 + "/config/download", "GET", "q", "tenant")
    add(V2 + "/service/list", "GET", "q", "namespaceId", omitted="all")
    add(V2 + "/service/subscriber/list", "GET", "q", "namespaceId", svc, omitted="all")
    add(V2 + "/instance/list", "GET", "q", "namespaceId", svc)
    add(V2 + "/instance/info", "GET", "q", "namespaceId", inst)
    add(V2 + "/namespaces/list", "GET", "none", None, spellings=(None,), omitted="all")
    add(V2 + "/mcp/toolspec/list", "GET", "q", "namespaceId")
    add(V2 + "/mcp/toolspec/info", "GET", "q", "namespace", {"group": "g1", "toolName": "tool-{tag}"})
    add(V2 + "/mcp/toolspec/download", "GET", "q", "namespaceId")
    add(V2 + "/mcp/server/list", "GET", "q", "namespaceId")
    add(V2 + "/mcp/server/download", "GET", "q", "namespaceId")
    add(V2 + "/transfer/export", "GET", "none", None, spellings=(None,), omitted="all", leak=False)
    add(V1 + "/configs", "GET", "q", "tenant")
    add(V1 + "/cs/configs", "GET", "q", "tenant", cfg)
    add(V1 + "/config/history", "GET", "q", "tenant", cfg)
    add(V1 + "/config/download", "GET", "q", "tenant")
    add(V1 + "/config/download", "POST", "jsonlist", "tenant", cfg)
    add(V1 + "/ns/services", "GET", "q", "namespaceId", omitted="all")
    add(V1 + "/ns/service", "GET", "q", "namespaceId", svc)
    add(V1 + "/ns/service/subscribers", "GET", "q", "namespaceId", svc)
    add(V1 + "/ns/instance", "GET", "q", "namespaceId", inst)
    add(V1 + "/instances", "GET", "q", "namespaceId", svc)
    add(V1 + "/namespaces", "GET", "none", None, spellings=(None,), omitted="all")
    add(V1 + "/transfer/export", "GET", "none", None, spellings=(None,), omitted="all", leak=False)
    # ---- writes
    add(V2 + "/config/add", "POST", "json", "tenant", cfgw, kind="write")
    add(V2 + "/config/update", "POST", "json", "tenant", cfgw, kind="write")
    add(V2 + "/config/remove", "POST", "json", "tenant", cfgw, kind="write")
    add(V2 + "/config/import", "POST", "header", "tenant", kind="write")
    add(V2 + "/service/add", "POST", "json", "namespaceId", svcw, kind="write")
    add(V2 + "/service/update", "POST", "json", "namespaceId", svcw, kind="write")
    add(V2 + "/instance/add", "POST", "json", "namespaceId", instw, kind="write")
    add(V2 + "/instance/update", "POST", "json", "namespaceId", instw, kind="write")
    add(V2 + "/instance/remove", "POST", "json", "namespaceId", instw, kind="write")
    add(V2 + "/service/remove", "POST", "json", "namespaceId", svcw, kind="write")
    add(V2 + "/namespaces/update", "POST", "json", "namespaceId", {"namespaceName": "renamed"}, spellings=explicit, kind="write")
    add(V2 + "/mcp/toolspec/add", "POST", "json", "namespace", {"group": "g1", "toolName": "toolw", "function": {"name": "toolw", "description": "d", "inputSchema": {}}}, kind="write")
    add(V2 + "/mcp/toolspec/remove", "POST", "json", "namespace", {"group": "g1", "toolName": "toolw"}, kind="write")
    add(V2 + "/mcp/toolspec/import", "POST", "header", "namespace", kind="write")
    add(V2 + "/mcp/server/import", "POST", "header", "namespace", kind="write")
    add(V1 + "/cs/configs", "POST", "q", "tenant", cfgw, kind="write")
    add(V1 + "/cs/configs", "PUT", "q", "tenant", cfgw, kind="write")
    add(V1 + "/cs/configs", "DELETE", "q", "tenant", cfgw, kind="write")
    add(V1 + "/config/import", "POST", "header", "tenant", kind="write")
    add(V1 + "/ns/service", "POST", "q", "namespaceId", svcw, kind="write")
    add(V1 + "/ns/service", "PUT", "q", "namespaceId", svcw, kind="write")
    add(V1 + "/ns/instance", "POST", "q", "namespaceId", instw, kind="write")
    add(V1 + "/ns/instance", "PUT", "q", "namespaceId", instw, kind="write")
    add(V1 + "/ns/instance", "DELETE", "q", "namespaceId", instw, kind="write")
    add(V1 + "/ns/service", "DELETE", "q", "namespaceId", svcw, kind="write")
    add(V1 + "/namespaces", "PUT", "form", "namespaceId", {"namespaceName": "renamed"}, spellings=explicit, kind="write")
    return R


TAG = {"ns-a": "nsa", "ns-b": "nsb", "ns-c": "nsc", "": "def", "public": "def", None: "def"}
MARKERS = {"ns-a": ["cfg-nsa", "svc-nsa", "secret-nsa"], "ns-b": ["cfg-nsb", "svc-nsb", "secret-nsb"], "": ["cfg-def", "svc-def", "secret-def"]}


def build_request(rc, ns, token):
    from urllib.parse import urlencode
    tag = TAG[ns]
    base = json.loads(json.dumps(rc["base"]).replace("{tag}", tag))
    headers = [["Token", token]]
    uri = rc["path"]
    body = None
    how = rc["how"]
    if how == "q":
        params = dict(base)
        if ns is not None:
            params[rc["field"]] = ns
        if params:
            uri += "?" + urlencode(params)
    elif how == "json":
        params = dict(base)
        if ns is not None:
            params[rc["field"]] = ns
        body = json.dumps(params)
        headers.append(["Content-Type", "application/json"])
    elif how == "jsonlist":
        params = dict(base)
        if ns is not None:
            params[rc["field"]] = ns
        body = json.dumps([params])
        headers.append(["Content-Type", "application/json"])
    elif how == "form":
        params = dict(base)
        if ns is not None:
            params[rc["field"]] = ns
        body = urlencode(params)
        headers.append(["Content-Type", "application/x-www-form-urlencoded"])
    elif how == "header":
        if ns is not None and ns != "":
            headers.append([rc["field"], ns])
        elif ns == "":
            return None          # an empty header value is the same as omitting it for these handlers
        headers.append(["Content-Type", "multipart/form-data; boundary=xyz"])
        body = "--xyz\r\nContent-Disposition: form-data; name=\"files\"; filename=\"a.zip\"\r\nContent-Type: application/zip\r\n\r\nPK\r\n--xyz--\r\n"
    rq = {"method": rc["method"], "uri": uri, "headers": headers, "want_body": True}
    if body is not None:
        rq["body"] = body
    return rq


def is_denied(o):
    b = o.get("body") or ""
    return o.get("status") == 401 or "NO_NAMESPACE_PERMISSION" in b or "NO_PERMISSION" in b or "no such namespace permission" in b


def is_inconclusive(o):
    return o.get("status") in (400, 404, 405, 415) or o.get("no_login") or o.get("no_permission") or not o.get("forwarded")


def run(chk, replay=None):
    tier = chk.tier
    rng = chk.rng
    t_all = time.time()
    rows = None
    try:
        text, info = console_tables.generate(lib.REPO)
        console_tables.write_if_changed(os.path.join(lib.COQ, "Gen", "ConsoleTables.v"), text)
        gtext, rows = guards.generate(lib.REPO)
        console_tables.write_if_changed(os.path.join(lib.COQ, "Gen", "EndpointGuards.v"), gtext)
    except Refuse as ex:
        chk.violation("translator guards/console_tables refuses the source (broken tie): %s" % ex,
                      {"broken": "translator", "translator": "translators/guards.py", "detail": str(ex)}, False)
        # search for a failing input all the same: the sweep below runs against the LAST ACCEPTED guard table
        import re as _re
        try:
            gsrc = open(os.path.join(lib.COQ, "Gen", "EndpointGuards.v")).read()
            rows = [(m.group(1), m.group(2), m.group(3), m.group(4))
                    for m in _re.finditer(r'mkEp "([^"]+)" "([A-Z]+)" "([^"]+)" (\w+)', gsrc)] or None
            chk.notes["guard_table"] = "last accepted table (the translator refuses the current source)"
        except OSError:
            rows = None
    proofs_ok = chk.proofs(TARGETS)
    if not proofs_ok:
        chk.violation("proof obligations of C18 no longer check: %s%s" % (failed_lemma(chk.proof_failure), chk.proof_failure[:300]),
                      {"broken": "theorem", "detail": chk.proof_failure}, False)
        ok_model, out_model = lib.coq_build(["Auth/PrivilegeScript.v"])
        if not ok_model:
            chk.violation("the executable model does not build: %s" % out_model[-300:], {"broken": "model build", "log": out_model[-3000:]}, False)
            return
    ok, out = lib.harness_build()
    if not ok:
        chk.violation("harness does not build against the repo", {"broken": "harness build", "log": out[-3000:]}, False)
        return
    if replay:
        rp = json.load(open(replay))["replay"]
        case = rp.get("case") if isinstance(rp, dict) else None
        if case:
            res = lib.harness_run("console", [case])[0]
            lib.log("replay result: %s" % json.dumps(res)[:4000])
            chk.notes["replay_result"] = res
    nontrivial = set()
    n_eval = 0
    mism = 0

    # ---- 1. the privilege functions: real vs model ------------------------------------------------------
    pool = ["", "public", "ns-a", "ns-b", "ns-c", "PUBLIC", " ", "ns-a ", "Ns-A", "命名空间", "a\u0000b"]

    def rnd_list():
        r = rng.random()
        if r < 0.25:
            return None
        return rng.sample(pool, rng.randrange(0, 5))
    pcases = [c for _, c in CLASSES]
    for _ in range(150 if tier == "quick" else 2000):
        pcases.append((rng.random() < 0.7, rng.random() < 0.35, rnd_list(), rng.random() < 0.2, rnd_list()))
    keys = pool + ["x"]
    impl = lib.harness_run("console", [{"k": "priv", "cases": [{"group": group_json(c), "keys": keys} for c in pcases]}])[0]["out"]
    exprs = ["priv_cases %s %s" % (group_coq(c), cps_list(keys)) for c in pcases]
    model = lib.coq_eval_sharded("c18p", HEADER, exprs, per=40)
    for c, a, m in zip(pcases, impl, model):
        for k, ra, rm in zip(keys, a, m):
            n_eval += 1
            mm = [rm[0] == "true", rm[1] == "true", rm[2] == "true", rm[3] == "true", rm[4], rm[5] == "true"]
            if ra != mm:
                mism += 1
                chk.violation("model != implementation (PrivilegeGroup) group=%s key=%r: model=%s impl=%s" % (group_json(c), k, mm, ra),
                              {"suite": "console", "case": {"k": "priv", "cases": [{"group": group_json(c), "keys": [k]}]}, "model": mm, "impl": ra,
                               "correspondence": "Auth.Privilege"}, False)
            # property oracle on the real function: permission = whitelisted and not blacklisted (default namespace = "")
            want = permitted(c, k)
            if ra[1] != want and not (c[2] and "public" in c[2]) and not (c[4] and "public" in c[4]):
                chk.classify("privilege-semantics", "NamespacePrivilegeGroup::check_permission(%r) = %s for %s, the property demands %s"
                             % (k, ra[1], group_json(c), want), {"suite": "console", "case": {"k": "priv", "cases": [{"group": group_json(c), "keys": [k]}]}})
            if ra[1]:
                nontrivial.add(("priv", json.dumps(group_json(c)), k))
    rcases = []
    for _ in range(60 if tier == "quick" else 600):
        rcases.append({"flags": rng.choice([None, 0, 1, 2, 3, 4, 5, 6, 7, 9, 257, 258, 0xffffff01]), "wl": rng.sample(pool, rng.randrange(0, 4)),
                       "bl": rng.sample(pool, rng.randrange(0, 3)), "keys": keys})
    rimpl = lib.harness_run("console", [{"k": "record", "cases": rcases}])[0]["out"]
    rexprs = ["map (record_case %d %s %s) %s" % (c["flags"] or 0, cps_list(c["wl"]), cps_list(c["bl"]), cps_list(keys)) for c in rcases]
    rmodel = lib.coq_eval_sharded("c18r", HEADER, rexprs, per=30)
    for c, a, m in zip(rcases, rimpl, rmodel):
        for k, ra, rm in zip(keys, a, m):
            n_eval += 1
            mm = [rm[0] == "true", rm[1] == "true", rm[2]]
            if ra != mm:
                mism += 1
                chk.violation("model != implementation (record -> session copy) record=%s key=%r: model=%s impl=%s" % (c, k, mm, ra),
                              {"suite": "console", "case": {"k": "record", "cases": [dict(c, keys=[k])]}, "model": mm, "impl": ra,
                               "correspondence": "Auth.Privilege.build_namespace_privilege"}, False)

    # ---- 1b. the privilege WRITE path: UserManager add_user / update_user on the real actor vs the model ----
    def rnd_param(first):
        if rng.random() < (0.1 if first else 0.08):
            return None
        def ob():
            return rng.choice([None, None, True, False, False])
        def ol():
            r = rng.random()
            if r < 0.25:
                return None
            if r < 0.5:
                return []
            return rng.sample(pool, rng.randrange(1, 4))
        return {"wl_all": ob(), "wl": ol(), "bl_all": rng.choice([None, None, None, False, True]), "bl": ol()}
    users = [
        # an admin revokes everything: the whitelist {ns-a, ns-b} is replaced by the EMPTY one
        {"name": "u-revoke", "ops": [["add", {"wl_all": False, "wl": ["ns-a", "ns-b"], "bl_all": None, "bl": None}],
                                     ["upd", {"wl_all": False, "wl": [], "bl_all": None, "bl": None}]]},
        {"name": "u-unblack", "ops": [["add", {"wl_all": True, "wl": None, "bl_all": False, "bl": ["ns-b"]}],
                                      ["upd", {"wl_all": None, "wl": None, "bl_all": None, "bl": []}],
                                      ["upd", None]]},
        {"name": "u-missing", "ops": [["upd", {"wl_all": False, "wl": ["ns-a"], "bl_all": None, "bl": None}]]},
    ]
    for i in range(25 if tier == "quick" else 250):
        ops = [["add", rnd_param(True)]]
        for _ in range(rng.randrange(1, 6)):
            ops.append(["upd", rnd_param(False)])
        users.append({"name": "u-%d" % i, "ops": ops})
    ucase = {"k": "userpriv", "users": users, "keys": keys, "env": {"RNACOS_ENABLE_NO_AUTH_CONSOLE": "false"}}
    ures = None
    for attempt in (1, 2):
        ures = lib.harness_run("console", [ucase], timeout=900)[0]
        if ures.get("r") == "ok":
            break
    if ures.get("r") != "ok":
        chk.violation("console/userpriv harness case failed: %s" % json.dumps(ures)[:300],
                      {"suite": "console", "case": ucase, "broken": "harness", "result": str(ures)[:2000]}, False)
    else:
        def pcoq(pm):
            if pm is None:
                return "None"
            def ob(b):
                return "None" if b is None else "(Some %s)" % str(b).lower()
            def ol(l):
                return "None" if l is None else "(Some %s)" % cps_list(l)
            return "(Some (mkPp %s %s %s %s))" % (ob(pm["wl_all"]), ol(pm["wl"]), ob(pm["bl_all"]), ol(pm["bl"]))
        uexprs = ["urun None [%s] %s" % ("; ".join(("UAdd %s" if o[0] == "add" else "UUpd %s") % pcoq(o[1]) for o in u["ops"]), cps_list(keys))
                  for u in users]
        umodel = lib.coq_eval_sharded("c18u", HEADER, uexprs, per=15)
        n_upd = 0
        for u, a, m in zip(users, ures["out"], umodel):
            for j, (op, ra, rm) in enumerate(zip(u["ops"], a, m)):
                n_eval += 1
                n_upd += 1
                mm = None if rm == "None" else [int(rm[1][0]), [[x == "true" for x in row] for row in rm[1][1]]]
                one = {"k": "userpriv", "users": [{"name": u["name"], "ops": u["ops"][:j + 1]}], "keys": keys, "env": ucase["env"]}
                if ra != mm:
                    mism += 1
                    chk.violation("model != implementation (user privilege write path) user=%s op #%d %s: model=%s impl=%s"
                                  % (u["name"], j, json.dumps(op), json.dumps(mm)[:200], json.dumps(ra)[:200]),
                                  {"suite": "console", "case": one, "model": mm, "impl": ra, "correspondence": "Auth.Privilege.update_user_priv"}, False)
                # property oracle on the real actor: what the admin set is what the next login gets
                pm = op[1]
                if ra is None or pm is None or not isinstance(ra, list):
                    continue
                for k, row in zip(keys, ra[1]):
                    if pm["wl"] is not None and "public" not in pm["wl"] and pm["wl_all"] is False and k not in pm["wl"] \
                            and not (k == "public" and "" in pm["wl"]) and row[2]:
                        chk.classify("privilege-update", "after %s set user %s's whitelist to %s (whitelistIsAll=false) namespace %r is still permitted"
                                     % (op[0], u["name"], pm["wl"], k), {"suite": "console", "case": one})
                    # (a literal "public" in a stored list is never matched: the default namespace is keyed ""; same
                    #  exclusion as in part 1 — the console stores the default namespace as "")
                    if pm["bl"] is not None and k in pm["bl"] and k != "public" and row[2]:
                        chk.classify("privilege-update", "after %s put namespace %r on user %s's blacklist it is still permitted"
                                     % (op[0], k, u["name"]), {"suite": "console", "case": one})
                    if pm["wl"] is not None and row[0] != (k in pm["wl"]):
                        chk.classify("privilege-update", "after %s gave user %s the whitelist %s the stored whitelist %s %r"
                                     % (op[0], u["name"], pm["wl"], "contains" if row[0] else "lacks", k), {"suite": "console", "case": one})
                    if pm["bl"] is not None and row[1] != (k in pm["bl"]):
                        chk.classify("privilege-update", "after %s gave user %s the blacklist %s the stored blacklist %s %r"
                                     % (op[0], u["name"], pm["bl"], "contains" if row[1] else "lacks", k), {"suite": "console", "case": one})
                    if row[2]:
                        nontrivial.add(("upd", u["name"], k))
        chk.cov["user_privilege_ops"] = n_upd
        chk.cov["user_privilege_empty_list_updates"] = sum(1 for u in users for o in u["ops"] if o[1] and (o[1]["wl"] == [] or o[1]["bl"] == []))

    if rows is None:
        chk.cov["discharged"] = 0
        chk.cov["evaluations"] = n_eval
        chk.violations.sort(key=lambda v: not v[2])
        return

    # ---- 2. the recorded findings and the generated table agree ------------------------------------------
    guard_of = {(p, m): g for p, m, h, g in rows}
    handler_of = {(p, m): h for p, m, h, g in rows}
    known_keys = {f["key"] for f in chk.kf if f.get("key", "").startswith("unguarded:")}
    coq_known = set()
    import re
    spec = open(os.path.join(lib.COQ, "Auth", "GuardSpec.v")).read()
    for m in re.finditer(r'\("(/rnacos/api/[^"]+)", "([A-Z]+)"\)', spec):
        coq_known.add("unguarded:%s:%s" % (m.group(2), m.group(1)))
    if coq_known != known_keys:
        chk.violation("known_findings.json and Auth/GuardSpec.v KnownUnguarded disagree: %s" % sorted(coq_known ^ known_keys)[:6],
                      {"broken": "known findings bookkeeping", "difference": sorted(coq_known ^ known_keys)}, False)

    # static verdict: every unguarded data endpoint is a finding (known or new)
    fam = ["/cs/configs", "/configs", "/config/", "/ns/", "/instances", "/namespaces", "/service/", "/instance/", "/mcp/", "/transfer/"]

    def is_data(p):
        for pre in (V2, V1):
            if p.startswith(pre):
                rest = p[len(pre):]
                return any(rest == f or rest.startswith(f) for f in fam)
        return False
    static_unguarded = [(p, m) for p, m, h, g in rows if g == "NoGuard" and is_data(p)]

    # ---- 3. the endpoint sweep on the real console ---------------------------------------------------------
    RC = recipes()
    for rc in RC:
        if (rc["path"], rc["method"]) not in guard_of:
            chk.violation("recipe for an endpoint that is not in the route table: %s %s" % (rc["method"], rc["path"]),
                          {"broken": "harness recipe", "endpoint": [rc["method"], rc["path"]]}, False)
    RC = [rc for rc in RC if (rc["path"], rc["method"]) in guard_of]
    sessions = [session("adm", None)] + [session("tok-" + name, group_json(c)) for name, c in CLASSES]
    seed = []

    def S(method, uri, body=None, ctype="application/json"):
        rq = {"method": method, "uri": uri, "headers": [["Token", "adm"]], "want_body": True}
        if body is not None:
            rq["body"] = json.dumps(body) if ctype == "application/json" else body
            rq["headers"].append(["Content-Type", ctype])
        seed.append(rq)
    for ns in ("ns-a", "ns-b"):
        S("POST", V2 + "/namespaces/add", {"namespaceId": ns, "namespaceName": ns})
    for ns in ("", "ns-a", "ns-b"):
        tag = TAG[ns]
        S("POST", V2 + "/config/add", {"dataId": "cfg-" + tag, "group": "g1", "tenant": ns, "content": "secret-" + tag})
        S("POST", V2 + "/service/add", {"namespaceId": ns, "serviceName": "svc-" + tag, "groupName": "DEFAULT_GROUP"})
        S("POST", V2 + "/instance/add", {"namespaceId": ns, "serviceName": "svc-" + tag, "groupName": "DEFAULT_GROUP", "ip": "10.0.0.1", "port": 8080,
                                         "ephemeral": "false"})
    reqs, metas = [], []
    for rc in RC:
        for name, c in CLASSES:
            for ns in rc["spellings"]:
                rq = build_request(rc, ns, "tok-" + name)
                if rq is None:
                    continue
                reqs.append(rq)
                metas.append(dict(rc=rc, cls=name, group=c, ns=ns))
    canary = {"method": "GET", "uri": V2 + "/config/info?dataId=cfg-nsb&group=g1&tenant=ns-b", "headers": [["Token", "adm"]], "want_body": True}
    case = {"k": "http", "sessions": sessions, "reqs": seed + [canary] + reqs, "env": {"RNACOS_ENABLE_NO_AUTH_CONSOLE": "false"}}
    t0 = time.time()
    for attempt in (1, 2):
        res = lib.harness_run("console", [case], timeout=1500)[0]
        if res.get("r") == "ok" and "secret-nsb" in (res["out"][len(seed)].get("body") or ""):
            break
        chk.notes["http_sweep_retry"] = json.dumps(res)[:300]
    chk.notes["http_sweep_s"] = round(time.time() - t0, 1)
    if res.get("r") != "ok" or "secret-nsb" not in (res["out"][len(seed)].get("body") or ""):
        chk.violation("console/http harness case failed (seeding as admin did not work): %s" % json.dumps(res)[:300],
                      {"suite": "console", "broken": "harness", "result": str(res)[:2000]}, False)
        return
    obs = res["out"][len(seed) + 1:]

    # the model's verdicts: acts(guard, group, k)
    def model_k(rc, ns):
        if ns is None:
            return None if rc["omitted"] == "all" else ""
        return ns
    combos = {}
    for meta in metas:
        rc = meta["rc"]
        g = guard_of[(rc["path"], rc["method"])]
        combos.setdefault((g, meta["cls"]), set()).add(model_k(rc, meta["ns"]))
    exprs, order = [], []
    for (g, cls), ks in sorted(combos.items(), key=str):
        ks = sorted(ks, key=lambda x: (x is None, x or ""))
        grp = dict(CLASSES)[cls]
        exprs.append("acts_cases %s %s [%s]" % (g, group_coq(grp), ";".join("None" if k is None else "(Some %s)" % cps(k) for k in ks)))
        order.append((g, cls, ks))
    verdict = {}
    for (g, cls, ks), vals in zip(order, lib.coq_eval_sharded("c18a", HEADER, exprs, per=30)):
        for k, v in zip(ks, vals):
            verdict[(g, cls, k)] = v == "true"

    dist = {}
    confirmed = set()
    inconcl = 0
    n_nslist = 0
    nslist_obs = []
    for rq, meta, o in zip(reqs, metas, obs):
        rc = meta["rc"]
        ep = (rc["path"], rc["method"])
        g = guard_of[ep]
        n_eval += 1
        if is_inconclusive(o):
            inconcl += 1
            dist[(g, "inconclusive")] = dist.get((g, "inconclusive"), 0) + 1
            continue
        allowed = not is_denied(o)
        k = model_k(rc, meta["ns"])
        want_model = verdict[(g, meta["cls"], k)]
        dist[(g, "allowed" if allowed else "denied")] = dist.get((g, "allowed" if allowed else "denied"), 0) + 1
        nontrivial.add(("http", ep, meta["cls"], meta["ns"]))
        rp_obj = {"suite": "console", "case": {"k": "http", "sessions": [session("tok-" + meta["cls"], group_json(meta["group"]))], "reqs": [rq],
                                               "env": case["env"]},
                  "observed": {kk: vv for kk, vv in o.items() if kk != "body"}, "body": (o.get("body") or "")[:300],
                  "endpoint": list(ep), "handler": handler_of[ep], "guard": g, "privilege": group_json(meta["group"]), "namespace": meta["ns"]}
        if allowed != want_model:
            mism += 1
            chk.violation("observed %s but the guard table says %s: %s %s (guard %s) privilege class %s namespace %r"
                          % ("allow" if allowed else "deny", "allow" if want_model else "deny", rc["method"], rq["uri"], g, meta["cls"], meta["ns"]),
                          dict(rp_obj, correspondence="Gen.EndpointGuards / Auth.Privilege.acts"), False)
        # ---- the property oracle ----
        named = meta["ns"] if meta["ns"] is not None else ("" if rc["omitted"] == "default" else None)
        # (GuardIndex / GuardFilter handlers answer with a FILTERED result instead of a refusal: judged by the leak rule below)
        if named is not None and allowed and not permitted(meta["group"], named) and g not in ("GuardIndex", "GuardFilter"):
            confirmed.add(ep)
            chk.classify("unguarded:%s:%s" % (rc["method"], rc["path"]),
                         "%s %s served a request naming namespace %r to a user whose privilege (%s) does not permit it"
                         % (rc["method"], rc["path"], named, meta["cls"]), rp_obj)
        if allowed and rc["leak"] and rc["kind"] == "read":
            body = o.get("body") or ""
            for ns_m, marks in MARKERS.items():
                if not permitted(meta["group"], ns_m) and any(mk in body for mk in marks):
                    confirmed.add(ep)
                    chk.classify("unguarded:%s:%s" % (rc["method"], rc["path"]),
                                 "%s %s returned data of namespace %r to a user whose privilege (%s) does not permit it"
                                 % (rc["method"], rc["path"], ns_m, meta["cls"]), rp_obj)
                    break
        # round 7: a namespace LISTING names the namespaces themselves (no data marker inside): every listed id must be
        # permitted ("listings never include items from it"; the default namespace counts like any other)
        if allowed and rc["kind"] == "read" and rc["path"] in (V2 + "/namespaces/list", V1 + "/namespaces") and rc["method"] == "GET":
            try:
                jb = json.loads(o.get("body") or "null")
            except ValueError:
                jb = None
            items = jb.get("data") if isinstance(jb, dict) else jb
            listed = [e.get("namespaceId") for e in items if isinstance(e, dict)] if isinstance(items, list) else None
            if listed is None:
                inconcl += 1
            else:
                n_nslist += 1
                nslist_obs.append((ep, meta["cls"], meta["group"], [x or "" for x in listed], rp_obj))
                for ns_l in listed:
                    ns_l = ns_l or ""
                    if not permitted(meta["group"], ns_l):
                        confirmed.add(ep)
                        chk.classify("unguarded:%s:%s" % (rc["method"], rc["path"]),
                                     "%s %s lists namespace %r for a user whose privilege (%s) does not permit it"
                                     % (rc["method"], rc["path"], ns_l, meta["cls"]), dict(rp_obj, listed=listed))
                        break
    chk.cov["namespace_listings_judged"] = n_nslist
    # correspondence Auth.Privilege.namespace_list: over the namespaces that exist (= what the unrestricted class is shown at
    # the same endpoint) the listing of every class must be the model's, entry by entry (completeness included)
    all_of = {ep: l for ep, cls, grp, l, rp in nslist_obs if cls == "all"}
    todo = [(ep, cls, grp, l, rp) for ep, cls, grp, l, rp in nslist_obs if ep in all_of]
    if todo:
        exprs = ["nslist_flags %s %s" % (group_coq(grp), cps_list(all_of[ep])) for ep, cls, grp, l, rp in todo]
        for (ep, cls, grp, l, rp), flags in zip(todo, lib.coq_eval_sharded("c18n", HEADER, exprs, per=30)):
            want = [i for i, f in zip(all_of[ep], flags) if f == "true"]
            n_eval += 1
            if want != l:
                chk.violation("model != implementation (namespace listing) %s %s class %s: model lists %s, the console lists %s"
                              % (ep[1], ep[0], cls, want, l), dict(rp, correspondence="Auth.Privilege.namespace_list", model=want, impl=l), False)
        chk.cov["namespace_listings_vs_model"] = len(todo)
    # every statically unguarded data endpoint is a finding even when the sweep has no recipe for it
    for p, m in static_unguarded:
        chk.classify("unguarded:%s:%s" % (m, p), "%s %s (handler %s) applies no namespace privilege" % (m, p, handler_of[(p, m)]),
                     {"endpoint": [m, p], "handler": handler_of[(p, m)], "guard": "NoGuard", "static": True})

    chk.cov["evaluations"] = n_eval
    chk.cov["distinct_nontrivial"] = len(nontrivial)
    chk.cov["rule"] = ("(a) %d privilege groups (the 12 classes + random: whitelist/blacklist all/None/empty/explicit incl. '', 'public', unicode; "
                       "enabled on/off) x %d keys on the real PrivilegeGroup/NamespacePrivilegeGroup (check, option, is_all, flags, rebuilt from flags) "
                       "and %d stored records x keys on UserDo::build_namespace_privilege; non-trivial = permitted cells. (b) %d HTTP requests "
                       "as restricted users through the real console: %d exercised data endpoints x 12 privilege classes x namespace spellings "
                       "{ns-a, ns-b, unknown, '', 'public', omitted}, after seeding three namespaces as admin; non-trivial = conclusive requests."
                       % (len(pcases), len(keys), len(rcases), len(reqs), len(RC)))
    chk.cov["samples"] = [{"priv": {"group": group_json(pcases[20]), "keys": keys, "impl": impl[20]}},
                          {"http": reqs[7], "observed": {k: v for k, v in obs[7].items()}},
                          {"http": reqs[-3], "observed": {k: v for k, v in obs[-3].items()}}]
    chk.cov["input_distribution"] = {
        "privilege_groups": len(pcases), "records": len(rcases), "http_requests": len(reqs), "inconclusive_http": inconcl,
        "http_by_guard_outcome": {"%s|%s" % k: v for k, v in sorted(dist.items())},
        "endpoints_total": len(rows), "data_endpoints": sum(1 for p, m, h, g in rows if is_data(p)),
        "guards": {g: sum(1 for r in rows if r[3] == g and is_data(r[0])) for g in ("GuardCheck", "GuardParam", "GuardFilter", "GuardIndex", "NoGuard")},
        "exercised_endpoints": len(RC), "model_impl_mismatches": mism,
    }
    chk.notes["unguarded_confirmed_dynamically"] = sorted("%s %s" % (m, p) for p, m in confirmed)
    chk.notes["unguarded_static_only"] = sorted("%s %s" % (m, p) for p, m in static_unguarded if (p, m) not in confirmed)
    chk.notes["total_s"] = round(time.time() - t_all, 1)
    chk.cov["trusted_base"] = ["translators/guards.py (token-level idiom classification; validated by the observed allow/deny)",
                               "harness recipes: how each endpoint names its namespace (validated by the admin-vs-restricted sweep)"]
    chk.assumptions += ["the caller's privilege group is the one in the session (copied from the user record at login)",
                        "a request is 'refused' when it is answered 401 / NO_NAMESPACE_PERMISSION / NO_PERMISSION by the handler"]
    chk.violations.sort(key=lambda v: not v[2])
