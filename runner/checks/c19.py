"""C19 — issued sequence ids are unique and increasing across restarts and nodes."""
import json

import cfgmodel as cm
import lib

TARGETS = ["Props/C19.v", "SM/SeqScript.v", "SM/Script.v", "Regression/SeqGroupOld.v"]

MANIFEST = dict(
    text="Theorems over ALL request histories about literal Gallina transcriptions of SequenceDbManager (next_id / "
         "next_range / snapshot of next-free values), SeqGroup/SeqRange (double-buffered per-node cache, repaired "
         "apply_range), SimpleSequence (config history ids, high-water mark) and a system model of several nodes with a "
         "replicated log, snapshots, restart + replay and leader change: ids of one counter key are pairwise disjoint and "
         "increasing, also when a log suffix is applied a second time after a snapshot (gaps, never duplicates); ranges "
         "handed to different nodes are disjoint and the ids of one node strictly increase; committed config history ids "
         "are unique and increasing under the hypothesis that every block-opening write is committed (refuted without "
         "it).  Tied to the code by running the REAL SimpleSequence, SeqGroup, SequenceManager::do_next_id, a started "
         "SequenceDbManager (snapshot through SnapshotWriterActor/SnapshotReader) and started ConfigActors against the "
         "model, plus an independent python oracle over multi-node histories.  The issuer as the config actor drives it "
         "(publish = next_state, import = next_section, arriving marks = set_valid_last_id): for every such history the "
         "ids increase, lie at or below the highest replicated mark, and a node rebuilt from the marks continues above "
         "them (issuer_ids_increase_and_covered); marks-only histories on the real struct are judged by that property.",
    note="u64 overflow is excluded (ids < 2^63).  The asynchronous glue of SequenceManager (raft round trip, "
         "handle_result) is scripted by the harness around the real do_next_id / SeqGroup / SequenceDbManager. "
         "Raft's commit/apply order is the model's premise; a leader is assumed to have applied the whole log before it "
         "allocates ids (issuer_caught_up).  Known finding: a block-opening config write that is not committed loses the "
         "high-water mark (history ids repeat after restart/leader change).",
    technique="Rocq proof (invariants over histories of a multi-node system model) + model/implementation correspondence",
    design="3/C19",
)

KEYS = ["seqA", "用户id", "k"]


# ------------------------------------------------------------------ generators
def gen_simple(rng):
    init = [rng.choice([0, 0, 5, 100, 999]), rng.choice([1, 2, 3, 100, 100])]
    ops = []
    for _ in range(rng.randrange(3, 40)):
        r = rng.random()
        if r < 0.5:
            ops.append(["next_state"])
        elif r < 0.6:
            ops.append(["next_id"])
        elif r < 0.7:
            ops.append(["set_valid", rng.choice([0, 3, 100, 101, 150, 200, 250, 1000])])
        elif r < 0.75:
            ops.append(["set_last", rng.choice([0, 7, 100, 300])])
        elif r < 0.85:
            ops.append(["section", rng.choice([0, 1, 5, 100])])
        elif r < 0.93:
            ops.append(["end"])
        else:
            ops.append(["state"])
    ops.append(["state"])
    return {"k": "simple", "init": init, "ops": ops}


def gen_simple_marks(rng):
    """the issuer of config history ids as ConfigActor drives it: next_state (publish), next_section (import),
    set_valid_last_id (a replicated mark arriving) — no set_last_id / next_id, which carry no replicated mark"""
    init = [rng.choice([0, 0, 5, 100, 999]), rng.choice([1, 2, 3, 7, 100, 100])]
    ops = []
    for _ in range(rng.randrange(4, 40)):
        r = rng.random()
        if r < 0.6:
            ops.append(["next_state"])
        elif r < 0.82:
            ops.append(["section", rng.choice([1, 2, 5, 30, 100])])
        elif r < 0.92:
            ops.append(["set_valid", rng.choice([0, 3, 100, 101, 150, 200, 250, 1000])])
        else:
            ops.append(["end"])
    ops.append(["state"])
    return {"k": "simple", "init": init, "ops": ops, "marks_only": True}


def oracle_simple_marks(c, out):
    """C19 across a restart: a node rebuilt from the replicated marks continues at (highest mark)+1, so an id handed out
    above every mark replicated so far would be handed out twice.  Marks: next_state's announced window end, a section's
    end (carried by the import's entries), a mark received through set_valid_last_id.  Also: ids strictly increase."""
    top, last = None, None
    for i, (op, o) in enumerate(zip(c["ops"], out)):
        ids = []
        if op[0] == "next_state" and isinstance(o, list):
            if o[1] is not None:
                top = max(top or 0, o[1])
            ids = [o[0]]
        elif op[0] == "section" and isinstance(o, list) and op[1] > 0:
            top = max(top or 0, o[1])
            ids = [o[0]] if o[0] == o[1] else [o[0], o[1]]
        elif op[0] == "set_valid":
            top = max(top or 0, op[1])
        for x in ids:
            if last is not None and x <= last:
                return "op #%d %s hands out id %d after id %d was handed out" % (i, op, x, last)
            if top is None or x > top:
                return ("op #%d %s hands out id %d above every replicated mark (highest %s): a node rebuilt from the marks "
                        "continues at %s and hands the id out a second time" % (i, op, x, top, (top or 0) + 1))
            last = x
    return None


def gen_group(rng, disciplined):
    step = rng.choice([1, 2, 3, 5])
    ops = []
    nxt = 1
    for _ in range(rng.randrange(4, 50)):
        r = rng.random()
        if r < 0.55:
            ops.append(["next"])
        elif r < 0.8:
            if disciplined:
                gap = rng.choice([0, 0, 0, 2])
                ln = rng.choice([step, step, 1, 0])
                ops.append(["apply", nxt + gap, ln])
                nxt += gap + ln
            else:
                ops.append(["apply", rng.randrange(0, 30), rng.randrange(0, 5)])
        elif r < 0.88:
            ops.append(["need"])
        elif r < 0.92:
            ops.append(["mark"])
        elif r < 0.96:
            ops.append(["clear"])
        else:
            ops.append(["dump"])
    ops.append(["dump"])
    return {"k": "group", "step": step, "ops": ops, "disciplined": disciplined}


def gen_db(rng):
    """a request log applied live, with snapshot / restart / load / replay of a suffix (possibly
    overlapping what the snapshot already contains)"""
    ops = []
    log = []          # requests applied live since the start
    snaps = {}        # sid -> log length at snapshot time
    sid = 0
    for _ in range(rng.randrange(5, 40)):
        r = rng.random()
        if r < 0.62:
            k = rng.choice(KEYS)
            q = rng.random()
            if q < 0.45:
                req = ["req", "next_id", k]
            elif q < 0.9:
                req = ["req", "next_range", k, rng.choice([1, 2, 100, 100, 7])]
            elif q < 0.95:
                req = ["req", "set", k, rng.choice([1, 50, 1000])]
            else:
                req = ["req", "remove", k]
            ops.append(req)
            log.append(req)
        elif r < 0.75:
            sid += 1
            ops.append(["snapshot", sid])
            # the index recorded with the snapshot may lie before what the snapshot contains
            # (the overlap is then applied a second time at every restart from this snapshot)
            snaps[sid] = max(snaps.get(sid - 1, 0), len(log) - rng.choice([0, 0, 1, 3]))
        elif r < 0.9 and snaps:
            s = max(snaps)                     # a node restarts from its latest snapshot
            ops.append(["restart"])
            ops.append(["load", s])
            for req in log[snaps[s]:]:
                ops.append(["replay"] + req[1:])
        else:
            ops.append(["dump"])
    ops.append(["dump"])
    return {"k": "db", "ops": ops}


def gen_db_install(rng):
    """a follower that lags (it has applied only a prefix of the leader's requests) is caught up by a snapshot
    INSTALLED INTO ITS LIVE STATE (load without restart), then serves requests itself (it became leader): what it
    issues must continue behind everything the old leader issued"""
    ops = []
    log = []
    for _ in range(rng.randrange(3, 25)):
        k = rng.choice(KEYS[:3])
        req = ["req", "next_id", k] if rng.random() < 0.4 else ["req", "next_range", k, rng.choice([1, 2, 100, 100, 7])]
        ops.append(req)
        log.append(req)
    ops.append(["snapshot", 1])
    ops.append(["restart"])                              # the follower's own state machine
    for req in log[:rng.randrange(0, len(log))]:
        ops.append(["replay"] + req[1:])
    ops.append(["dump"])
    ops.append(["load", 1])                              # InstallSnapshot on the running follower
    ops.append(["dump"])
    for _ in range(rng.randrange(2, 10)):
        k = rng.choice(KEYS[:3])
        ops.append(["req", "next_id", k] if rng.random() < 0.4 else ["req", "next_range", k, rng.choice([1, 100, 7])])
    ops.append(["dump"])
    return {"k": "db", "ops": ops}


def gen_mgr(rng):
    n = rng.choice([1, 2, 3])
    ops = []
    for _ in range(rng.randrange(10, 400)):
        r = rng.random()
        node = rng.randrange(n)
        k = rng.choice(KEYS[:2])
        if r < 0.7:
            ops.append(["get", node, k])
            if rng.random() < 0.5:
                ops.append(["fill_start", node, k])
                if rng.random() < 0.6:
                    ops.append(["fill_finish", node, k])
        elif r < 0.8:
            ops.append(["fill_start", node, k])
        elif r < 0.92:
            ops.append(["fill_finish", node, k])
        elif r < 0.97:
            ops.append(["direct", node, k, rng.choice([1, 10, 100])])
        else:
            ops.append(["dump", node, k])
    return {"k": "mgr", "nodes": n, "ops": ops}


def mgr_burst(rng):
    """one node draining ranges with delayed / eager refills (the schedule that made ids go backwards)"""
    ops = []
    eager = rng.randrange(150, 260)
    for _ in range(eager):
        ops.append(["get", 0, "k"])
        ops.append(["fill_start", 0, "k"])
        ops.append(["fill_finish", 0, "k"])
    ops.append(["get", 0, "k"])
    ops.append(["fill_start", 0, "k"])
    for _ in range(rng.randrange(2, 120)):
        ops.append(["get", 0, "k"])
    ops.append(["fill_finish", 0, "k"])
    for _ in range(rng.randrange(2, 150)):
        ops.append(["get", 0, "k"])
    return {"k": "mgr", "nodes": 1, "ops": ops}


KCFG = cm.build_key(("d", "g", "t"))


def gen_cluster(rng, lose_mark):
    """a multi-node publish history on real ConfigActors.  The harness keeps the Raft premise (the
    committed log, the applied index of every node / snapshot); python only schedules:
    node i / alloc (leader's next_state) / settle (commit or lose the write) / apply_next / catch_up /
    snapshot / restart + load / leader change (the new leader catches up first: issuer_caught_up)."""
    n = rng.choice([1, 2, 3])
    ops = []
    leader = 0
    sid = 0
    snaps = {}
    for _ in range(rng.randrange(5, 70)):
        r = rng.random()
        if r < 0.55:
            ops += [("node", leader), ("catch_up", KCFG), ("alloc",)]
            if rng.random() < 0.15:
                # a lost write: harmless inside a block; at a block boundary it is the known finding
                ops.append(("settle", "lose_boundary" if lose_mark and rng.random() < 0.7 else
                            ("lose" if lose_mark else "lose_inside")))
            else:
                ops.append(("settle", "commit"))
            if rng.random() < 0.7:
                ops.append(("apply_next", KCFG))
        elif r < 0.7:
            ops += [("node", rng.randrange(n)), ("apply_next", KCFG)]
        elif r < 0.78:
            sid += 1
            i = rng.randrange(n)
            ops += [("node", i), ("snapshot", sid)]
            snaps.setdefault(i, []).append(sid)
        elif r < 0.9:
            i = rng.randrange(n)
            ops += [("restart", i), ("node", i)]
            if snaps.get(i) and rng.random() < 0.8:
                ops.append(("load", rng.choice(snaps[i])))
            if rng.random() < 0.5:
                ops.append(("catch_up", KCFG))
        else:
            leader = rng.randrange(n)
        if rng.random() < 0.08:
            ops += [("node", rng.randrange(n)), ("hist", ("d", "g", "t"), 0, 1000), ("dump_seq",)]
    for i in range(n):
        ops += [("node", i), ("catch_up", KCFG), ("hist", ("d", "g", "t"), 0, 1000), ("dump_seq",)]
    ops.append(("log",))
    return {"class": "cluster-lose" if lose_mark else "cluster", "ops": ops, "nodes": n}


def gen_cluster_alternating(rng):
    """leadership alternates between two (or three) nodes, each leader issuing only a few ids of its block before it is
    deposed: an ex-leader that leads again still holds the rest of an old block while the others have moved on"""
    n = rng.choice([2, 2, 3])
    ops = []
    leader = 0
    for _ in range(rng.randrange(4, 9)):
        for _ in range(rng.randrange(1, 4)):
            ops += [("node", leader), ("catch_up", KCFG), ("alloc",), ("settle", "commit"), ("apply_next", KCFG)]
        for i in range(n):
            if rng.random() < 0.7:
                ops += [("node", i), ("catch_up", KCFG)]
        leader = (leader + rng.randrange(1, n)) % n
    for i in range(n):
        ops += [("node", i), ("catch_up", KCFG), ("hist", ("d", "g", "t"), 0, 1000), ("dump_seq",)]
    ops.append(("log",))
    return {"class": "cluster", "ops": ops, "nodes": n}


def witness_lost_mark():
    """first next_state opens a block (mark 100), its write is lost; ids 2,3,4 are committed without
    mark; restart + replay -> ids 1,2,3 are issued again"""
    ops = [("node", 0), ("alloc",), ("settle", "lose")]
    for _ in range(3):
        ops += [("alloc",), ("settle", "commit"), ("apply_next", KCFG)]
    ops += [("restart", 0), ("node", 0), ("catch_up", KCFG)]
    for _ in range(3):
        ops += [("alloc",), ("settle", "commit"), ("apply_next", KCFG)]
    ops += [("hist", ("d", "g", "t"), 0, 100), ("log",)]
    return {"class": "cluster-lose", "ops": ops, "nodes": 1}


def oracle_cluster(c, outs):
    """committed history ids are unique and increasing in log order"""
    fails = []
    log = outs[-1]["r"]
    ids = [e[0] for e in log]
    for a, b in zip(ids, ids[1:]):
        if b <= a:
            fails.append(("history-id", "committed history ids ... %d, %d ... (log order) repeat / go backwards; log %r"
                          % (a, b, ids[:40])))
            break
    return fails


# ------------------------------------------------------------------ Coq terms of the seq suite
def cN(x):
    return "None" if x is None else "(Some %d)" % x


def coq_simple(c):
    m = {"next_state": "QNextState", "next_id": "QNextId", "end": "QEnd", "state": "QState"}
    l = []
    for o in c["ops"]:
        if o[0] in m:
            l.append(m[o[0]])
        elif o[0] == "set_last":
            l.append("QSetLast %d" % o[1])
        elif o[0] == "set_valid":
            l.append("QSetValid %d" % o[1])
        elif o[0] == "section":
            l.append("QSection %d" % o[1])
    return "run_simple (sseq_new %d %d) [%s]" % (c["init"][0], c["init"][1], ";".join(l))


def coq_group(c):
    m = {"next": "GNext", "need": "GNeed", "mark": "GMark", "clear": "GClear", "dump": "GDump"}
    l = []
    for o in c["ops"]:
        l.append(m[o[0]] if o[0] in m else "GApply %d %d" % (o[1], o[2]))
    return "run_group (group_new %d) [%s]" % (c["step"], ";".join(l))


def coq_req(o):
    k = cm.cstr(o[2])
    return {"next_id": "RNextId %s" % k, "next_range": "RNextRange %s %d" % (k, o[3] if len(o) > 3 else 0),
            "set": "RSetId %s %d" % (k, o[3] if len(o) > 3 else 0), "remove": "RRemoveId %s" % k}[o[1]]


def coq_db(c):
    l = []
    for o in c["ops"]:
        if o[0] in ("req", "replay"):
            l.append("DReq (%s)" % coq_req(o))
        elif o[0] == "dump":
            l.append("DDump")
        elif o[0] == "snapshot":
            l.append("DSnapshot %d" % o[1])
        elif o[0] == "restart":
            l.append("DRestart")
        elif o[0] == "load":
            l.append("DLoad %d" % o[1])
    return "run_db [] [] [%s]" % ";".join(l)


def coq_mgr(c):
    l = []
    for o in c["ops"]:
        n, k = o[1] % c["nodes"], cm.cstr(o[2])
        if o[0] == "get":
            l.append("MGet %d%%nat %s" % (n, k))
        elif o[0] == "fill_start":
            l.append("MFillStart %d%%nat %s" % (n, k))
        elif o[0] == "fill_finish":
            l.append("MFillFinish %d%%nat %s" % (n, k))
        elif o[0] == "dump":
            l.append("MDump %d%%nat %s" % (n, k))
        elif o[0] == "direct":
            l.append("MDirect %s %d" % (k, o[3]))
    return "mgr_script [%s]" % ";".join(l)


def _opt(v):
    return None if v == "None" else v[1]


def _range(d):
    return {"start": d["r_start"], "len": d["r_len"], "current_index": d["r_cur"]}


def _group(g):
    return {"range_a": _range(g["g_a"]), "range_b": _range(g["g_b"]), "use_a": g["g_use_a"] == "true",
            "step": g["g_step"], "next_adding": g["g_adding"] == "true"}


def canon_simple_model(v):
    out = []
    for o in v:
        if o == "QoOk":
            out.append("ok")
        elif o == "QoPanic":
            out.append("panic")
        elif o[0] == "QoNS":
            out.append([o[1], _opt(o[2])])
        elif o[0] == "QoId":
            out.append(o[1])
        elif o[0] == "QoSec":
            out.append([o[1], o[2]])
        elif o[0] == "QoEnd":
            out.append(o[1])
        elif o[0] == "QoState":
            out.append({"last": o[1], "cache": o[2], "batch": o[3]})
    return out


def canon_group_model(v):
    out = []
    for o in v:
        if o == "GoOk":
            out.append("ok")
        elif o[0] == "GoId":
            out.append(_opt(o[1]))
        elif o[0] == "GoNeed":
            out.append(o[1] == "true")
        elif o[0] == "GoDump":
            out.append(_group(o[1]))
    return out


def canon_res(r):
    if r == "SNone":
        return "none"
    if r[0] == "SNextId":
        return {"id": r[1]}
    return {"start": r[1], "len": r[2]}


def canon_db_model(v):
    out = []
    for o in v:
        if o == "DoOk":
            out.append("ok")
        elif o[0] == "DoRes":
            out.append(canon_res(o[1]))
        elif o[0] == "DoDump":
            out.append(sorted([[bytes(k).decode("utf-8"), n] for k, n in o[1]]))
    return out


def canon_mgr_model(v):
    out = []
    for o in v:
        if o[0] == "MoId":
            out.append({"id": _opt(o[1])})
        elif o[0] == "MoRange":
            r = _opt(o[1])
            out.append("ignore" if r is None else {"range": [r[0], r[1]]})
        elif o[0] == "MoOk":
            out.append("ok" if o[1] == "true" else "none")
        elif o[0] == "MoDump":
            g = _opt(o[1])
            out.append(None if g is None else _group(g))
    return out


def canon_mgr_impl(outs):
    res = []
    for o in outs:
        if isinstance(o, dict) and "id" in o:
            res.append({"id": o["id"]})
        else:
            res.append(o)
    return res


# ------------------------------------------------------------------ oracles (independent of the model)
def oracle_group(c, out):
    """disciplined scripts (increasing disjoint ranges): ids strictly increase, each lies in an applied range"""
    fails = []
    if not c["disciplined"]:
        return fails
    last = 0
    ranges = []
    for o, r in zip(c["ops"], out):
        if o[0] == "apply":
            ranges.append((o[1], o[1] + o[2]))
        elif o[0] == "next" and r is not None:
            if r <= last:
                fails.append(("order", "SeqGroup returned %d after %d" % (r, last)))
            if not any(a <= r < b for a, b in ranges):
                fails.append(("range", "SeqGroup returned %d outside every applied range" % r))
            last = r
    return fails


def oracle_db(c, out):
    fails = []
    live = {}        # key -> list of (start, len) issued live since the last reset
    for o, r in zip(c["ops"], out):
        if o[0] == "req":
            k = o[2]
            if o[1] in ("set", "remove"):
                live[k] = []
                continue
            start, ln = (r["id"], 1) if "id" in r else (r["start"], r["len"])
            for a, l in live.get(k, []):
                if start < a + l:
                    fails.append(("db", "counter %r issued [%d,+%d) after [%d,+%d)" % (k, start, ln, a, l)))
            live.setdefault(k, []).append((start, ln))
        elif o[0] == "replay" and o[1] in ("set", "remove"):
            live[o[2]] = []
    return fails


def oracle_mgr(c, out):
    fails = []
    seen = {}
    last = {}
    direct = {}
    for o, r in zip(c["ops"], out):
        k = o[2]
        if o[0] == "get" and isinstance(r, dict) and r.get("id") is not None:
            i = r["id"]
            if i in seen.setdefault(k, {}):
                fails.append(("dup", "id %d of %r issued twice (nodes %r and %d)" % (i, k, seen[k][i], o[1])))
            seen[k][i] = o[1]
            key = (o[1] % c["nodes"], k)
            if i <= last.get(key, 0):
                fails.append(("order", "node %d got id %d of %r after %d" % (o[1], i, k, last[key])))
            last[key] = i
            for a, l in direct.get(k, []):
                if a <= i < a + l:
                    fails.append(("dup", "id %d of %r lies in a directly granted range" % (i, k)))
        elif o[0] == "direct" and isinstance(r, dict):
            a, l = r["range"]
            for i in seen.get(k, {}):
                if a <= i < a + l:
                    fails.append(("dup", "direct range [%d,+%d) of %r covers an issued id %d" % (a, l, k, i)))
            direct.setdefault(k, []).append((a, l))
    return fails


HEADER_SEQ = "From RN Require Import SM.Sequence SM.SeqScript.\nOpen Scope N_scope.\n"
HEADER_CFG = "From RN Require Import SM.Listener SM.Script.\nOpen Scope N_scope.\n"


def run(chk, replay=None):
    tier = chk.tier
    rng = chk.rng
    proofs_ok = chk.proofs(TARGETS)
    ok, out = lib.harness_build()
    if not ok:
        chk.violation("harness does not build against /repo", {"broken": "harness build", "log": out[-3000:]}, False)
        return
    quick = tier == "quick"
    seq_cases = []
    if replay:
        rp = json.load(open(replay))["replay"]
        if isinstance(rp, dict) and isinstance(rp.get("case"), dict) and "k" in rp["case"]:
            seq_cases.append(rp["case"])
    # pinned: the schedule that made one node's ids go backwards before the repair
    seq_cases.append({"k": "group", "step": 3, "disciplined": True, "ops": [
        ["apply", 1, 3], ["next"], ["apply", 4, 3], ["next"], ["next"], ["next"], ["apply", 7, 3], ["next"], ["next"],
        ["need"], ["apply", 10, 3], ["next"], ["next"], ["next"], ["next"], ["next"], ["next"], ["next"], ["dump"]]})
    seq_cases.append({"k": "simple", "init": [0, 0], "ops": [["state"], ["next_state"]]})
    for _ in range(150 if quick else 3000):
        seq_cases.append(gen_simple(rng))
    # round 7: the import path (next_section between publishes), judged by the property itself (oracle_simple_marks)
    seq_cases.append({"k": "simple", "init": [100, 7], "marks_only": True,
                      "ops": [["next_state"], ["next_state"], ["section", 3], ["next_state"], ["next_state"], ["state"]]})
    for _ in range(150 if quick else 3000):
        seq_cases.append(gen_simple_marks(rng))
    for _ in range(200 if quick else 4000):
        seq_cases.append(gen_group(rng, True))
    for _ in range(100 if quick else 2000):
        seq_cases.append(gen_group(rng, False))
    for _ in range(150 if quick else 3000):
        seq_cases.append(gen_db(rng))
    for _ in range(40 if quick else 800):
        seq_cases.append(gen_db_install(rng))
    for _ in range(100 if quick else 2000):
        seq_cases.append(gen_mgr(rng))
    for _ in range(10 if quick else 100):
        seq_cases.append(mgr_burst(rng))

    impl = lib.harness_run_parallel("seq", [_seq_harness_case(c) for c in seq_cases], timeout=1800)

    n_eval = 0
    nontrivial = set()
    classes = {}
    for c, r in zip(seq_cases, impl):
        classes[c["k"]] = classes.get(c["k"], 0) + 1
        n_eval += 1
        nontrivial.add(json.dumps(c["ops"])[:400])
        if r.get("r") == "panic" and not (c["k"] == "simple" and c["init"][1] == 0):
            chk.violation("implementation panicked (%s)" % c["k"], {"suite": "seq", "case": c, "impl": r}, True)
            continue
        if r.get("r") != "ok":
            continue
        fails = []
        if c["k"] == "group":
            fails = oracle_group(c, r["out"])
        elif c["k"] == "db":
            fails = oracle_db(c, r["out"])
        elif c["k"] == "mgr":
            fails = oracle_mgr(c, r["out"])
        for cls, what in fails:
            chk.classify("%s:%s" % (c["k"], cls), "C19 %s: %s" % (cls, what), {"suite": "seq", "case": c, "failed": what})

    # ---- model of the seq suite
    vals = None
    try:
        exprs = []
        for c in seq_cases:
            exprs.append({"simple": coq_simple, "group": coq_group, "db": coq_db, "mgr": coq_mgr}[c["k"]](c))
        vals = lib.coq_eval_sharded("c19", HEADER_SEQ, exprs, per=max(8, len(exprs) // 16 + 1), timeout=1500)
    except RuntimeError as ex:
        chk.violation("model evaluation failed: %s" % str(ex)[:300], {"broken": "model evaluation", "log": str(ex)[-3000:]}, False)
    mism = 0
    if vals is not None:
        for c, r, v in zip(seq_cases, impl, vals):
            if c["k"] == "simple":
                m = canon_simple_model(v)
                i = r.get("out", [])
                if r.get("r") == "panic":
                    i = i + ["panic"]
            elif c["k"] == "group":
                m, i = canon_group_model(v), r.get("out")
            elif c["k"] == "db":
                m, i = canon_db_model(v), r.get("out")
            else:
                m, i = canon_mgr_model(v), canon_mgr_impl(r.get("out", []))
            d = lib.diff_first(m, i)
            if d:
                mism += 1
                chk.violation("model != implementation (%s): %s" % (c["k"], d[:300]),
                              {"suite": "seq", "case": c, "diff": d, "correspondence": "SM.Sequence"}, False)

    # ---- the property on the issuer of history ids (independent of the model): no id above every replicated mark
    n_marks = 0
    for c, r in zip(seq_cases, impl):
        if c.get("marks_only") and r.get("r") == "ok":
            n_marks += 1
            w = oracle_simple_marks(c, r.get("out", []))
            if w:
                chk.classify("issuer-id-above-marks", "C19 SimpleSequence as the config actor drives it: %s" % w,
                             {"suite": "seq", "case": c, "impl": r.get("out"), "failed": w})
    chk.cov["issuer_mark_histories"] = n_marks

    # ---- multi-node histories of config history ids on real ConfigActors
    clusters = [witness_lost_mark()]
    if replay:
        rp = json.load(open(replay))["replay"]
        if isinstance(rp, dict) and isinstance(rp.get("case"), dict) and "class" in rp["case"]:
            c = rp["case"]
            c["ops"] = [tuple(tuple(x) if isinstance(x, list) and o[0] == "hist" and i == 1 else x for i, x in enumerate(o)) for o in c["ops"]]
            clusters.append(c)
    for _ in range(120 if quick else 2000):
        clusters.append(gen_cluster(rng, False))
    for _ in range(30 if quick else 300):
        clusters.append(gen_cluster(rng, True))
    for _ in range(30 if quick else 300):
        clusters.append(gen_cluster_alternating(rng))
    cimpl = lib.harness_run_parallel("config", [cm.harness_case(c["ops"]) for c in clusters], timeout=1800)
    for c, r in zip(clusters, cimpl):
        classes[c["class"]] = classes.get(c["class"], 0) + 1
        if r.get("r") != "ok":
            chk.violation("implementation panicked on a cluster history", {"suite": "config", "case": _plain_cluster(c), "impl": r}, True)
            continue
        n_eval += 1
        nontrivial.add(json.dumps(c["ops"])[:400])
        for cls, what in oracle_cluster(c, r["out"]):
            key = "history-mark-lost" if c["class"] == "cluster-lose" else "%s:%s" % (c["class"], cls)
            chk.classify(key, "C19 %s: %s" % (cls, what), {"suite": "config", "case": _plain_cluster(c), "failed": what})
    try:
        cexprs, cencs = [], []
        for c in clusters:
            e, enc = cm.coq_script(c["ops"])
            cexprs.append(e)
            cencs.append(enc)
        cvals = lib.coq_eval_sharded("c19c", HEADER_CFG, cexprs, per=max(2, len(cexprs) // 16 + 1), timeout=1500)
        for c, r, v, enc in zip(clusters, cimpl, cvals, cencs):
            if r.get("r") != "ok":
                continue
            for idx, (op, o, mv) in enumerate(zip(c["ops"], r["out"], v)):
                d = cm.same(op, cm.canon_model(mv, enc), cm.canon_impl(op, o))
                if d:
                    mism += 1
                    chk.violation("model != implementation (cluster history, op %d %s): %s" % (idx, op[0], d[:300]),
                                  {"suite": "config", "case": _plain_cluster(c), "op_index": idx, "diff": d,
                                   "correspondence": "SM.Sequence via SM.Config"}, False)
                    break
    except RuntimeError as ex:
        chk.violation("model evaluation failed: %s" % str(ex)[:300], {"broken": "model evaluation", "log": str(ex)[-3000:]}, False)

    if not proofs_ok:
        chk.violation("proof obligations of C19 no longer check: %s" % chk.proof_failure[:300],
                      {"broken": "theorem", "detail": chk.proof_failure}, False)
    chk.cov["evaluations"] = n_eval
    chk.cov["distinct_nontrivial"] = len(nontrivial)
    chk.cov["rule"] = ("seeded scripts on the real structs: SimpleSequence (3..40 ops), SeqGroup (disciplined = increasing disjoint "
                       "ranges as the counter hands them out, and arbitrary), SequenceDbManager request logs over 3 keys with "
                       "snapshot/restart/load/replay incl. overlapping replay, SequenceManager histories of 1..3 nodes x 2 keys "
                       "with eager/delayed refills, and multi-node config publish histories (1..3 ConfigActors, failed writes, "
                       "snapshots, restarts with replay, leader changes). evaluations = scripts judged; non-trivial = distinct scripts.")
    chk.cov["samples"] = [seq_cases[5], seq_cases[-1] if len(json.dumps(seq_cases[-1])) < 3000 else seq_cases[400], _plain_cluster(clusters[0])]
    chk.cov["input_distribution"] = dict(classes=classes, seq_cases=len(seq_cases), clusters=len(clusters), model_impl_mismatches=mism)
    chk.assumptions += ["ids < 2^63 (u64 arithmetic does not overflow)",
                        "Raft premise: one committed log applied in order on every node; a node allocates history ids only "
                        "after applying the whole log (issuer_caught_up)",
                        "the raft round trip and handle_result of SequenceManager are scripted around the real do_next_id / SeqGroup"]


def _seq_harness_case(c):
    if c["k"] == "db":
        ops = []
        for o in c["ops"]:
            ops.append(["req"] + o[1:] if o[0] == "replay" else o)
        return {"k": "db", "ops": ops}
    if c["k"] == "mgr":
        ops = []
        for o in c["ops"]:
            if o[0] == "direct":
                ops.append(["direct", o[1], o[2], o[3]])
            else:
                ops.append(o)
        return {"k": "mgr", "nodes": c["nodes"], "ops": ops}
    return c


def _plain_cluster(c):
    return {"class": c["class"], "nodes": c["nodes"], "ops": [list(o) for o in c["ops"]]}
