"""C09 — config store: last write wins, md5 matches content, listings match store, history."""
import json
import os
import re

import cfgmodel as cm
import lib

TARGETS = ["Props/C09.v", "SM/Script.v", "Regression/ConfigTmpOld.v"]

MANIFEST = dict(
    text="Theorems over ALL operation histories (publish / remove / full-value import / routed temporary value) "
         "about a literal Gallina transcription of ConfigActor's store (set_config, del_config, inner_set_config, "
         "set_tmp_config, update_value), TenantIndex/ConfigIndex and ConfigKey: refinement to a last-write-wins "
         "specification, md5 = H(content) for an arbitrary H, index = committed keys without duplicates, "
         "pages partition the filtered sorted key list for every offset/limit, removed keys are never listed, "
         "history newest-first/bounded 100/one entry per content change, key round trip under wf_key. "
         "Model tied to the code by a differential run of a REAL started ConfigActor (ConfigRaftCmd/ConfigCmd "
         "messages) against the model (vm_compute), plus an independent python oracle (dict spec, hashlib md5).",
    note="Trusted: Coq kernel+vm_compute, the hand transcription (checked by the correspondence on seeded "
         "histories), harness and runner glue. md5 is a section variable (theorems hold for every H); the model "
         "is evaluated with H := hashlib md5 restricted to the contents of the case. The all-tenant listing "
         "branch (tenant=None) is excluded from pages_partition: every API constructor sets a tenant "
         "(scanned on every run). Routed temporary values overtaking later commits are a known finding.",
    technique="Rocq proof (refinement, invariants over histories) + model/implementation correspondence",
    design="3/C09",
)

TENANTS = ["", "t1", "tenant-二"]
GROUPS = ["DEFAULT_GROUP", "g1", "gx.y"]
DATAS = ["a", "ab", "b.json", "数据", "a.b"]
TYPES = [None, None, "json", "JSON", "Yml", "yaml", "properties", "TOML", "html", "xml", "text", "weird", "", "İjson"]
DESCS = [None, None, "d1", "", "描述 with space"]
USERS = [None, "admin", "用户"]
ALPH = "abcxyz019 \n\t{}\":,=é中文\U0001F600\u0001\u0002"


def rand_content(rng, big=False):
    k = rng.random()
    if big:
        n = rng.choice([201, 1000, 4096, 70000])
    elif k < 0.15:
        n = 0
    elif k < 0.7:
        n = rng.randrange(1, 6)
    elif k < 0.95:
        n = rng.randrange(6, 60)
    else:
        n = rng.randrange(60, 400)
    return "".join(rng.choice(ALPH) for _ in range(n))


def rand_key(rng, keys):
    return rng.choice(keys)


def keystr(rng, k):
    """the log-entry key string; now and then with a surplus field (dropped by From<&str>)"""
    s = cm.build_key(k)
    if k[2] != "" and rng.random() < 0.03:
        s += cm.SEP + "extra"
    return s


def rand_page(rng, keys):
    t = rng.choice(sorted(set(k[2] for k in keys)) + ["nosuch"])
    p = {"tenant": t, "offset": rng.choice([0, 0, 1, 2, 3, 5, 50]), "limit": rng.choice([0, 1, 2, 3, 10, 0xffffffff]),
         "ctx": rng.random() < 0.5}
    mode = rng.randrange(4)
    gs = sorted(set(k[1] for k in keys))
    ds = sorted(set(k[0] for k in keys))
    if mode == 1:      # exact
        if rng.random() < 0.7:
            p["group"] = rng.choice(gs + [""])
        if rng.random() < 0.7:
            p["data_id"] = rng.choice(ds + ["", "zz"])
    elif mode == 2:    # fuzzy
        if rng.random() < 0.7:
            g = rng.choice(gs)
            p["like_group"] = rng.choice(["", g, g[:1], g[1:], "g", "."])
        if rng.random() < 0.7:
            d = rng.choice(ds)
            p["like_data_id"] = rng.choice(["", d, d[:1], d[-1:], "a", ".", "数"])
    elif mode == 3:    # both given: exact wins
        p["group"] = rng.choice(gs)
        p["like_group"] = "zz"
        p["like_data_id"] = rng.choice(["a", ""])
    return p


class Hist:
    """builds one history (python ops) with increasing history ids / marks like a leader would"""

    def __init__(self, rng, nkeys):
        self.rng = rng
        ks = [(d, g, t) for t in TENANTS for g in GROUPS for d in DATAS]
        rng.shuffle(ks)
        self.keys = ks[:nkeys]
        self.hid = 0
        self.time = 1000
        self.contents = [rand_content(rng) for _ in range(4)]
        self.ops = []

    def content(self, big=False):
        if self.rng.random() < 0.55 and not big:
            return self.rng.choice(self.contents)
        c = rand_content(self.rng, big)
        self.contents.append(c)
        return c

    def add(self, k=None, c=None):
        rng = self.rng
        k = k or rand_key(rng, self.keys)
        c = self.content() if c is None else c
        self.hid += 1
        self.time += rng.randrange(0, 3)
        tid = self.hid + 99 if self.hid % 100 == 1 else None
        op = ("add", keystr(rng, k), c, rng.choice(TYPES), rng.choice(DESCS), self.hid, tid, self.time, rng.choice(USERS))
        self.ops.append(op)
        return op

    def delete(self, k=None):
        k = k or rand_key(self.rng, self.keys)
        self.ops.append(("del", cm.build_key(k)))

    def full(self, k=None):
        rng = self.rng
        k = k or rand_key(rng, self.keys)
        hist = []
        for _ in range(rng.choice([0, 1, 1, 2, 5])):
            self.hid += 1
            self.time += 1
            hist.append((self.hid, self.content(), self.time, rng.choice(USERS)))
        c = hist[-1][1] if hist and rng.random() < 0.8 else self.content()
        self.ops.append(("full", k, c, hist, rng.choice(TYPES), rng.choice(DESCS), rng.choice([None, self.hid + 100])))

    def queries(self, n=1):
        rng = self.rng
        for _ in range(n):
            q = rng.randrange(6)
            if q <= 1:
                self.ops.append(("get", rand_key(rng, self.keys)))
            elif q <= 3:
                self.ops.append(("page", rand_page(rng, self.keys)))
            elif q == 4:
                self.ops.append(("hist", rand_key(rng, self.keys), rng.choice([0, 0, 1, 2, None]), rng.choice([1, 2, 3, 200, None])))
            else:
                self.ops.append(("dump_index",))

    def final_queries(self):
        for k in self.keys:
            self.ops.append(("get", k))
            self.ops.append(("hist", k, 0, 1000))
        for t in sorted(set(k[2] for k in self.keys)):
            self.ops.append(("page", {"tenant": t, "offset": 0, "limit": 0xffffffff, "ctx": True}))
        self.ops.append(("dump_index",))
        self.ops.append(("dump_cache",))


def gen_committed(rng, nops, nkeys):
    h = Hist(rng, nkeys)
    for _ in range(nops):
        r = rng.random()
        if r < 0.62:
            h.add()
        elif r < 0.80:
            h.delete()
        elif r < 0.90:
            h.full()
        if rng.random() < 0.35:
            h.queries()
    h.final_queries()
    return {"class": "committed", "ops": h.ops, "keys": h.keys}


def gen_page_sweep(rng):
    """many keys in few tenants; every page size x offset over exact / fuzzy filters"""
    h = Hist(rng, rng.randrange(8, 20))
    for k in h.keys:
        h.add(k)
    for _ in range(rng.randrange(0, 6)):
        h.delete()
    filt = [{}, {"group": rng.choice(GROUPS)}, {"like_data_id": "a"}, {"like_group": "g", "like_data_id": "."},
            {"data_id": rng.choice(DATAS)}]
    for t in TENANTS:
        for f in filt:
            for size in (1, 2, 3, 7):
                for page in range(0, 5):
                    p = dict(f)
                    p.update({"tenant": t, "offset": page * size, "limit": size, "ctx": False})
                    h.ops.append(("page", p))
    h.ops.append(("dump_index",))
    return {"class": "pages", "ops": h.ops, "keys": h.keys}


def gen_history_cap(rng, target=None):
    """exactly [target] content changes of one key (default: one of 99, 100, 101, 103, 130): the 100-entry
    bound is crossed by 1, by 3 and by 30 entries, with unchanged publishes mixed in"""
    h = Hist(rng, 2)
    k = h.keys[0]
    n = target if target is not None else rng.choice([99, 100, 101, 103, 130])
    changes = 0
    while changes < n:
        if rng.random() < 0.9 or changes == 0:
            h.add(k, "v%d" % changes)
            changes += 1
        else:
            h.add(k, "v%d" % (changes - 1))          # same content again: no new entry
        if rng.random() < 0.05:
            h.add(h.keys[1])
    h.ops.append(("hist", k, 0, 1000))
    h.ops.append(("hist", k, 95, 10))
    h.ops.append(("hist", k, None, 5))
    h.ops.append(("hist", k, 3, None))
    h.ops.append(("get", k))
    return {"class": "cap", "ops": h.ops, "keys": h.keys}


def gen_follower(rng, nops, nkeys, overtake):
    """a follower's mailbox: the committed sequence plus SetTmpValue messages of writes routed
    through this node.  In-order: the tmp message arrives before the apply of its own write, or
    after it (late; a no-op since the repair).  Overtake (known finding): the tmp message of
    write W1 arrives after a LATER write W2 of the same key has been applied."""
    h = Hist(rng, nkeys)
    committed = []
    planted = False
    for _ in range(nops):
        r = rng.random()
        if r < 0.7:
            k = rand_key(rng, h.keys)
            c = h.content()
            routed = rng.random() < 0.5
            if routed and rng.random() < 0.5:
                h.ops.append(("tmp", k, c))          # response before replication
                if rng.random() < 0.25:
                    # this node is then caught up by a snapshot / a full-value import of that key instead of the entry
                    h.full(k)
                    if rng.random() < 0.5:
                        h.queries()
                    continue
                h.add(k, c)
            else:
                h.add(k, c)
                if routed:
                    if overtake and not planted and rng.random() < 0.6:
                        h.add(k, c + "!")               # W2 applied, then W1's tmp arrives
                        committed.append(h.ops[-2])
                        committed.append(h.ops[-1])
                        h.ops.append(("tmp", k, c))
                        planted = True
                        if rng.random() < 0.5:
                            h.add(k, c + "!")           # same content again: extra history entry on this node
                            committed.append(h.ops[-1])
                        continue
                    h.ops.append(("tmp", k, c))      # late tmp of the value already applied
            committed.append([o for o in h.ops if o[0] == "add"][-1])
        elif r < 0.85:
            h.delete()
            committed.append(h.ops[-1])
        if rng.random() < 0.3:
            h.queries()
    h.final_queries()
    return {"class": "overtake" if planted else "follower", "ops": h.ops, "keys": h.keys}


def gen_tmp_ahead_foreign(rng):
    """known finding: a routed temporary value W1 arrives BEFORE an earlier foreign commit W0 of
    the same key is replicated; W0 repeats the stored content (a no-op on the leader) but is
    forced into the history on this node because the value is marked tmp"""
    h = Hist(rng, 2)
    k = h.keys[0]
    for _ in range(rng.randrange(1, 4)):
        h.add(k)
    c0 = [o for o in h.ops if o[0] == "add"][-1][2]
    v1 = c0 + "#"
    h.ops.append(("tmp", k, v1))
    if rng.random() < 0.5:
        h.ops.append(("get", k))
    h.add(k, c0)
    h.add(k, v1)
    h.final_queries()
    return {"class": "tmp-ahead", "ops": h.ops, "keys": h.keys}


def gen_big(rng):
    h = Hist(rng, 3)
    k = h.keys[0]
    h.add(k, h.content(big=True))
    h.add(k, h.content(big=True))
    h.add(h.keys[1], "x" * 250)
    h.final_queries()
    return {"class": "big", "ops": h.ops, "keys": h.keys}


def gen_limit_case(rng):
    """content at the API limit (10 MiB) and one byte below; the actor itself has no limit"""
    h = Hist(rng, 2)
    k = h.keys[0]
    unit = "中文ab"   # 8 bytes
    h.add(k, unit * (10485760 // 8))
    h.add(k, unit * (10485760 // 8 - 1) + "abcdefg")
    h.add(k, "")
    h.ops.append(("get", k))
    h.ops.append(("hist", k, 0, 10))
    return {"class": "limit", "ops": h.ops, "keys": h.keys}


def gen_keys(rng, n):
    ops = []
    fields = ["a", "", "g.1", "数", "x\x02y", "\x02", "a\x02", "p:q-r_s"]
    for _ in range(n):
        k = (rng.choice(fields), rng.choice(fields), rng.choice(fields))
        ops.append(("keyrt", k))
    for s in ["", "a", "a\x02b", "a\x02b\x02c", "a\x02b\x02c\x02d", "\x02\x02", "a\x02\x02c"]:
        ops.append(("keyparse", s))
    for s in ["", "abc", "a b", "a\x02b", "\x02", "A-_.:9", "中文", "a\u0002", "été", "a/b", "tab\t",
              "Ⅷ", "\U0001F600", "x" * 200]:
        ops.append(("valid", s))
    return {"class": "keys", "ops": ops, "keys": []}


# ------------------------------------------------------------------ property oracle (independent of the model)
def norm_type(t):
    if t is None:
        return None
    l = t.lower()
    return {"json": "json", "xml": "xml", "yml": "yaml", "yaml": "yaml", "html": "html", "toml": "toml",
            "properties": "properties"}.get(l, "text")


def like(a, b):
    return b in a


def oracle(case, outs):
    """what C09 demands, evaluated on the implementation's observations.  Spec state: dict
    key -> [content, type, desc, history(list of (id, content), oldest first)].
    Returns list of (key-class, description)."""
    spec = {}
    fails = []
    ahead = {}      # key -> content of a routed temporary value whose own commit is the next op on the key
    ops = case["ops"]

    def next_commit(i, k):
        for o in ops[i + 1:]:
            if o[0] == "add" and cm.parse_key(o[1]) == k:
                return ("add", o[2])
            if o[0] == "del" and cm.parse_key(o[1]) == k:
                return ("del", None)
            if o[0] == "full" and o[1] == k:
                return ("full", o[2])
        return None

    for idx, (op, o) in enumerate(zip(ops, outs)):
        n = op[0]
        r = o["r"]
        if n == "add":
            k = cm.parse_key(op[1])
            ahead.pop(k, None)
            c, ty, desc, hid = op[2], norm_type(op[3]), op[4], op[5]
            if k in spec:
                e = spec[k]
                if ty is not None:
                    e[1] = ty
                if desc is not None:
                    e[2] = desc
                if e[0] != c:
                    e[0] = c
                    e[3].append((hid, c))
                    e[3] = e[3][-100:]
            else:
                spec[k] = [c, ty, desc, [(hid, c)]]
        elif n == "del":
            ahead.pop(cm.parse_key(op[1]), None)
            spec.pop(cm.parse_key(op[1]), None)
        elif n == "full":
            ahead.pop(op[1], None)
            spec[op[1]] = [op[2], norm_type(op[4]), op[5], [(i, hc) for i, hc, _, _ in op[3]]]
        elif n == "tmp":
            # legitimate only when it runs ahead of its own commit; otherwise (late) it must not be visible
            if next_commit(idx, op[1]) == ("add", op[2]):
                ahead[op[1]] = op[2]
        elif n == "get":
            k = op[1]
            if k not in spec and k not in ahead:
                if r is not None:
                    fails.append(("get", "get %r: expected not-found, got %r" % (k, r)))
                continue
            e = spec.get(k, [None, None, None, []])
            c = ahead.get(k, e[0])
            want = {"content": cm.content_json(c), "md5": cm.md5hex(c), "type": e[1], "desc": e[2]}
            got = None if r is None else {x: r[x] for x in ("content", "md5", "type", "desc")}
            if got != want:
                fails.append(("get", "get %r: last write %r, served %r" % (k, want, got)))
        elif n == "page":
            p = op[1]
            t = p.get("tenant")
            cand = sorted((k for k in spec if k[2] == t), key=lambda k: (k[1].encode(), k[0].encode()))
            sel = []
            for k in cand:
                if p.get("group") is not None:
                    okg = p["group"] == "" or k[1] == p["group"]
                elif p.get("like_group") is not None:
                    okg = p["like_group"] == "" or like(k[1], p["like_group"])
                else:
                    okg = True
                if p.get("data_id") is not None:
                    okd = p["data_id"] == "" or k[0] == p["data_id"]
                elif p.get("like_data_id") is not None:
                    okd = p["like_data_id"] == "" or like(k[0], p["like_data_id"])
                else:
                    okd = True
                if okg and okd:
                    sel.append(k)
            want_keys = [list(k) for k in sel[p["offset"]:p["offset"] + p["limit"]]]
            got_keys = [x["key"] for x in r["list"]] if isinstance(r, dict) else None
            if not isinstance(r, dict) or r["size"] != len(sel) or got_keys != want_keys:
                fails.append(("page", "page %r: expected total %d keys %r, got %r" % (p, len(sel), want_keys, str(r)[:300])))
            elif p.get("ctx"):
                for x in r["list"]:
                    k = tuple(x["key"])
                    c = ahead.get(k, spec[k][0])
                    if x["content"] != cm.content_json(c) or x["md5"] != cm.md5hex(c) or x["desc"] != spec[k][2]:
                        fails.append(("page", "page %r: row %r does not carry the stored value" % (p, x["key"])))
        elif n == "hist":
            k, off, lim = op[1], op[2], op[3]
            if k not in spec:
                if isinstance(r, dict) and (r["size"] != 0 or r["list"]):
                    fails.append(("history", "history of absent key %r: %r" % (k, r)))
                continue
            full = list(reversed(spec[k][3]))
            want = []
            if off is not None:
                want = full[off:] if lim is None else full[off:off + lim]
            got = [(h["id"], h["content"]) for h in r["list"]] if isinstance(r, dict) else None
            if not isinstance(r, dict) or r["size"] != len(full) or got != [(i, cm.content_json(c)) for i, c in want]:
                fails.append(("history", "history %r off=%r lim=%r: expected %d entries %r, got %r"
                              % (k, off, lim, len(full), [i for i, _ in want], str(r)[:300])))
            elif len(full) > 100:
                fails.append(("history", "history longer than 100"))
        elif n == "dump_index":
            want = sorted(spec.keys(), key=lambda k: (k[2].encode(), k[1].encode(), k[0].encode()))
            got = [tuple(k) for k in r["keys"]]
            if got != want or r["size"] != len(want):
                fails.append(("index", "index keys %r (size %r) differ from the stored keys %r" % (got, r["size"], want)))
    return fails


# ------------------------------------------------------------------ static scan: tenant is always set
def scan_query_param_constructors():
    """every construction of ConfigQueryParam outside config_index.rs sets param.tenant = Some(..)
    (pages_partition is proved for the single-tenant branch only). Returns list of problems."""
    bad = []
    for root, _, files in os.walk(os.path.join(lib.REPO, "src")):
        for fn in files:
            if not fn.endswith(".rs"):
                continue
            p = os.path.join(root, fn)
            if p.endswith(os.path.join("config", "config_index.rs")):
                continue
            src = open(p, encoding="utf-8", errors="replace").read()
            for m in re.finditer(r"ConfigQueryParam\s*\{", src):
                # the enclosing fn body: from the preceding "fn " to the next "\n    }\n" at fn level
                start = src.rfind("fn ", 0, m.start())
                end = src.find("\n    }\n", m.end())
                body = src[start:end if end > 0 else len(src)]
                if "ConfigQueryParam {" in body and not re.search(r"param\.tenant\s*=\s*Some\(", body):
                    bad.append("%s: %s" % (os.path.relpath(p, lib.REPO), body.splitlines()[0].strip()[:100]))
    return bad


HEADER = "From RN Require Import SM.Listener SM.Script.\nOpen Scope N_scope.\n"


def run(chk, replay=None):
    tier = chk.tier
    rng = chk.rng
    proofs_ok = chk.proofs(TARGETS)
    ok, out = lib.harness_build()
    if not ok:
        chk.violation("harness does not build against /repo", {"broken": "harness build", "log": out[-3000:]}, False)
        return
    quick = tier == "quick"
    cases = []
    if replay:
        rp = json.load(open(replay))["replay"]
        if isinstance(rp, dict) and "case" in rp:
            c = rp["case"]
            c["ops"] = [_tuplify(o) for o in c["ops"]]
            cases.append(c)
    # the two pinned witnesses first
    k0 = ("d", "g", "t")
    ks0 = cm.build_key(k0)
    cases.append({"class": "witness-tmp-same", "keys": [k0], "ops": [
        ("add", ks0, "x", None, None, 1, 100, 1000, None), ("tmp", k0, "x"),
        ("add", ks0, "x", None, None, 2, None, 1001, None), ("hist", k0, 0, 10), ("dump_cache",)]})
    cases.append({"class": "overtake", "keys": [k0], "ops": [
        ("add", ks0, "v1", None, None, 1, 100, 1000, None), ("add", ks0, "v2", None, None, 2, None, 1001, None),
        ("tmp", k0, "v1"), ("get", k0), ("add", ks0, "v2", None, None, 3, None, 1002, None), ("hist", k0, 0, 10),
        ("dump_cache",)]})
    for _ in range(260 if quick else 6000):
        cases.append(gen_committed(rng, rng.randrange(3, 45), rng.choice([1, 2, 3, 5, 9])))
    for _ in range(12 if quick else 150):
        cases.append(gen_page_sweep(rng))
    for _ in range(6 if quick else 40):
        cases.append(gen_history_cap(rng))
        for tgt in (100, 101, 104):
            cases.append(gen_history_cap(rng, tgt))
    for _ in range(160 if quick else 3000):
        cases.append(gen_follower(rng, rng.randrange(3, 30), rng.choice([1, 2, 3]), False))
    for _ in range(60 if quick else 600):
        cases.append(gen_follower(rng, rng.randrange(3, 30), rng.choice([1, 2]), True))
    for _ in range(10 if quick else 100):
        cases.append(gen_tmp_ahead_foreign(rng))
    for _ in range(10 if quick else 100):
        cases.append(gen_big(rng))
    cases.append(gen_limit_case(rng))
    for _ in range(6 if quick else 60):
        cases.append(gen_keys(rng, 40))

    impl = lib.harness_run_parallel("config", [cm.harness_case(c["ops"]) for c in cases], timeout=1800)

    # ---- property oracle on the implementation
    n_eval = 0
    nontrivial = set()
    classes = {}
    for c, r in zip(cases, impl):
        classes[c["class"]] = classes.get(c["class"], 0) + 1
        if r.get("r") != "ok":
            chk.violation("implementation panicked on a %s history" % c["class"], {"suite": "config", "case": _plain(c), "impl": r}, True)
            continue
        n_eval += sum(1 for o in c["ops"] if o[0] in ("get", "page", "hist", "dump_index", "keyrt", "valid"))
        nontrivial.add((c["class"], len(c["ops"]), tuple(o[0] for o in c["ops"][:12])))
        fails = oracle(c, r["out"])
        for cls, what in fails:
            if c["class"] == "overtake":
                key = "tmp-overtake"
            elif c["class"] == "tmp-ahead":
                key = "tmp-ahead-of-foreign-commit"
            else:
                key = "%s:%s" % (c["class"], cls)
            chk.classify(key, "C09 %s (%s history): %s" % (cls, c["class"], what[:400]),
                         {"suite": "config", "case": _plain(c), "failed": what})
        if c["class"] == "keys":
            for op, o in zip(c["ops"], r["out"]):
                if op[0] == "keyrt":
                    wf = all(cm.SEP not in f for f in op[1])
                    if wf and not o["r"]["same"]:
                        chk.classify("key-roundtrip", "key %r does not survive build_key/From<&str>" % (op[1],),
                                     {"suite": "config", "case": {"ops": [list(op)]}})
                if op[0] == "valid" and cm.SEP in op[1]:
                    v = o["r"]
                    if v["is_valid"] or v["key_data"] or v["key_group"] or v["tenant"] or v["param"]:
                        chk.classify("validator-accepts-separator", "an API validator accepts a field containing \\x02: %r" % (v,),
                                     {"suite": "config", "case": {"ops": [list(op)]}})

    # ---- static scan tied to the scope of pages_partition
    bad = scan_query_param_constructors()
    if bad:
        chk.violation("a ConfigQueryParam constructor no longer sets a tenant (all-tenant paging is outside pages_partition "
                      "and pages wrongly): %s" % bad[:3], {"broken": "scan_query_param_constructors", "sites": bad,
                      "witness": "query with tenant=None, offset>0 over two tenants"}, False)

    # ---- model
    vals = None
    try:
        exprs = []
        encs = []
        for c in cases:
            e, enc = cm.coq_script(c["ops"])
            exprs.append(e)
            encs.append(enc)
        vals = lib.coq_eval_sharded("c09", HEADER, exprs, per=max(4, len(exprs) // 16 + 1), timeout=1500)
    except RuntimeError as ex:
        chk.violation("model evaluation failed: %s" % str(ex)[:300], {"broken": "model evaluation", "log": str(ex)[-3000:]}, False)
    mism = 0
    if vals is not None:
        for c, r, v, enc in zip(cases, impl, vals, encs):
            if r.get("r") != "ok":
                continue
            for idx, (op, o, mv) in enumerate(zip(c["ops"], r["out"], v)):
                m = cm.canon_model(mv, enc)
                i = cm.canon_impl(op, o)
                d = cm.same(op, m, i)
                if d:
                    mism += 1
                    chk.violation("model != implementation at op %d %s of a %s history: %s" % (idx, op[0], c["class"], d[:300]),
                                  {"suite": "config", "case": _plain(c), "op_index": idx, "diff": d,
                                   "correspondence": "SM.Config / SM.ConfigIndex"}, False)
                    break
    if not proofs_ok:
        chk.violation("proof obligations of C09 no longer check: %s" % chk.proof_failure[:300],
                      {"broken": "theorem", "detail": chk.proof_failure}, False)

    chk.cov["evaluations"] = n_eval
    chk.cov["distinct_nontrivial"] = len(nontrivial)
    chk.cov["rule"] = ("seeded histories over %d tenants x %d groups x %d dataIds: committed (publish/remove/import) with interleaved "
                       "get/page/history queries; page sweeps (sizes 1,2,3,7 x 5 pages x 5 filters x tenants); history cap (99..130 "
                       "changes); follower mailboxes with routed temporary values (in order / late / overtaking); contents 0..400 "
                       "chars of mixed UTF-8 plus 70 kB and the 10 MiB API limit; key round trips and validator calls. evaluations = "
                       "query observations judged by the oracle; non-trivial = distinct (class, length, op prefix)."
                       % (len(TENANTS), len(GROUPS), len(DATAS)))
    chk.cov["samples"] = [_plain(cases[2]), _plain(cases[-1])]
    chk.cov["input_distribution"] = dict(classes=classes, cases=len(cases), ops=sum(len(c["ops"]) for c in cases),
                                         model_impl_mismatches=mism)
    chk.assumptions += ["md5 is an arbitrary function H in the theorems; the model is run with hashlib's md5 on the case's contents",
                        "op_time is non-negative (stored, never computed with)",
                        "u64/usize arithmetic does not overflow (offset+limit, history ids)",
                        "single-tenant listing branch only (every API constructor sets a tenant; scanned on every run)"]


def _plain(c):
    def cut(x):
        if isinstance(x, str) and len(x) > 5000:
            return x[:40] + "...(%d chars)" % len(x)
        if isinstance(x, (list, tuple)):
            return [cut(y) for y in x]
        if isinstance(x, dict):
            return {k: cut(v) for k, v in x.items()}
        return x
    return {"class": c["class"], "ops": [cut(list(o)) for o in c["ops"]]}


def _tuplify(o):
    o = list(o)
    n = o[0]
    if n in ("tmp", "get", "keyrt", "hist"):
        o[1] = tuple(o[1])
    if n == "full":
        o[1] = tuple(o[1])
        o[3] = [tuple(h) for h in o[3]]
    return tuple(o)
