"""C05 — Raft vote, term, membership and node addresses are durable, never regress."""
import json

import lib

TARGETS = ["Props/C05.v", "RaftLog/Script.v"]

MANIFEST = dict(
    text="Theorems over ALL histories: for every interleaving of the writers of the raft index file (hard state, "
         "membership incl. the install-snapshot form, node address, log catalogue, snapshot catalogue, last-applied) and "
         "reopen, and for every iteration order of the address HashMap, the state read back equals the last saved value "
         "of each field (field independence), the reader consumes exactly the declared record length whatever stale tail "
         "follows (shorter_after_longer_ok), never_vote_twice corollary; the protobuf RaftIndex codec round-trips. "
         "The Gallina model is a transcription of raftindex.rs/log.rs/model.rs after two fix: commits (fresh-file rule "
         "decided from content; header written raw); the old rules are kept in RaftLog/Regression.v with refuted-witnesses. "
         "Model tied to the code by a differential run of the REAL RaftIndexManager actor and the REAL FileStore chain "
         "(temp dir, reopen = drop the whole actor system) vs the model under vm_compute, plus an oracle written "
         "independently in python that also parses the real file bytes.",
    note="Trusted: Coq kernel+vm_compute, the hand transcription (checked by the correspondence on seeded histories), harness "
         "and runner glue. Reopen is a quiesced restart (all acknowledged saves have been carried out); the window between "
         "acknowledgement and the write call (crash points) is examined by C04 on the syscall journal (repaired: the "
         "acknowledgement now follows the write). Records >= 2 MiB (several write/read calls) and disk "
         "errors are outside the model; UTF-8 validation of addresses is assumed to succeed on strings Rust wrote.",
    technique="Rocq proof (refinement by invariant over histories, codec round trip, permutation invariance) + "
              "model/implementation correspondence + independent oracle",
    design="3/C05",
)
U64 = 1 << 64
HEADER = ("From RN Require Import Base.Res Codec.Varint RaftLog.IndexFile RaftLog.Script.\n"
          "Open Scope N_scope.\n")


# ---------------------------------------------------------------- independent oracle helpers
def leb(v):
    out = []
    while v > 0x7F:
        out.append((v & 0x7F) | 0x80)
        v >>= 7
    out.append(v)
    return out


def rd_varint(b, i):
    v, s = 0, 0
    for k in range(10):
        if i >= len(b):
            raise ValueError("eof in varint")
        x = b[i]
        i += 1
        v |= (x & 0x7F) << s
        s += 7
        if x < 128:
            return v & (U64 - 1), i
    raise ValueError("varint too long")


def pb_fields(b):
    i, out = 0, []
    while i < len(b):
        tag, i = rd_varint(b, i)
        n, wt = tag >> 3, tag & 7
        if wt == 0:
            v, i = rd_varint(b, i)
            out.append((n, 0, v))
        elif wt == 2:
            ln, i = rd_varint(b, i)
            if i + ln > len(b):
                raise ValueError("length-delimited field past the end")
            out.append((n, 2, b[i:i + ln]))
            i += ln
        else:
            raise ValueError("unexpected wire type %d" % wt)
    return out


def pb_packed(b):
    i, out = 0, []
    while i < len(b):
        v, i = rd_varint(b, i)
        out.append(v)
    return out


def parse_index_body(body):
    r = dict(term=0, vote=0, member=[], mac=[], addrs={}, logs=[], snaps=[])
    for n, wt, v in pb_fields(body):
        if (n, wt) == (1, 2):
            l = [0, 0, 0, 0, 0, False, False]
            for n2, wt2, v2 in pb_fields(v):
                if wt2 == 0 and 1 <= n2 <= 5:
                    l[n2 - 1] = v2
                elif wt2 == 0 and n2 in (6, 7):
                    l[n2 - 1] = v2 != 0
            r["logs"].append(l)
        elif (n, wt) == (3, 2):
            s = [0, 0]
            for n2, wt2, v2 in pb_fields(v):
                if wt2 == 0 and n2 in (1, 2):
                    s[n2 - 1] = v2
            r["snaps"].append(s)
        elif (n, wt) == (7, 0):
            r["term"] = v
        elif (n, wt) == (8, 0):
            r["vote"] = v
        elif (n, wt) == (9, 2):
            r["member"] = pb_packed(v)
        elif (n, wt) == (10, 2):
            r["mac"] = pb_packed(v)
        elif (n, wt) == (11, 2):
            k, a = 0, []
            for n2, wt2, v2 in pb_fields(v):
                if (n2, wt2) == (1, 0):
                    k = v2
                elif (n2, wt2) == (2, 2):
                    a = list(v2)
            r["addrs"][k] = a
    return r


def parse_index_file(f):
    """(applied, record dict, consumed length) from raw bytes, by the stated layout only"""
    if len(f) < 9:
        raise ValueError("file shorter than header + length byte")
    applied = int.from_bytes(bytes(f[:8]), "big")
    ln, i = rd_varint(f, 8)
    if i + ln > len(f):
        raise ValueError("record past the end of the file")
    return applied, parse_index_body(f[i:i + ln]), i + ln


class Expect:
    """last saved value of each field, straight from the op list (python, independent of the model)"""

    def __init__(self):
        self.term = self.vote = self.applied = 0
        self.member, self.mac, self.addrs = [], [], {}
        self.logs, self.snaps = [], []

    def apply(self, op):
        k = op[0]
        if k == "hs":
            self.term, self.vote = op[1], op[2]
        elif k == "member":
            self.member = list(op[1])
            if op[2] is not None:
                self.mac = list(op[2])
            if op[3] is not None:
                self.addrs = {}
                for i, a in op[3]:
                    self.addrs[i] = list(a.encode("utf-8"))
        elif k == "addr":
            self.addrs[op[1]] = list(op[2].encode("utf-8"))
        elif k == "logs":
            self.logs = [list(l) for l in op[1]]
        elif k == "snaps":
            self.snaps = [list(s) for s in op[1]]
        elif k == "applied":
            self.applied = op[1]

    def snapshot(self):
        return dict(term=self.term, vote=self.vote, applied=self.applied, member=list(self.member),
                    mac=list(self.mac), addrs={k: list(v) for k, v in self.addrs.items()},
                    logs=[list(l) for l in self.logs], snaps=[list(s) for s in self.snaps])


# ---------------------------------------------------------------- generators
NASTY_U64 = [0, 1, 2, 3, 127, 128, 255, 16383, 16384, (1 << 32) - 1, 1 << 32, (1 << 63) - 1, 1 << 63, U64 - 1]
ADDR_LENS = [0, 1, 2, 14, 126, 127, 128, 129, 255, 256, 300]
ALPHA = "abcdefghijklmnopqrstuvwxyz0123456789.:-_"


def gen_addr(rng, ln=None):
    if ln is None:
        ln = rng.choice(ADDR_LENS) if rng.random() < 0.6 else rng.randrange(0, 301)
    s = "".join(rng.choice(ALPHA) for _ in range(ln))
    if ln >= 4 and rng.random() < 0.25:        # multi-byte UTF-8 inside (byte length grows)
        s = s[:ln - 3] + rng.choice(["é", "节", "点", "ß"])
    return s


def gen_u64(rng):
    return rng.choice(NASTY_U64) if rng.random() < 0.5 else rng.getrandbits(rng.choice([3, 7, 8, 14, 21, 35, 64]))


def gen_ids(rng, n):
    return [rng.choice([0, 1, 2, 3, 4, 5, 127, 128, 300, U64 - 1]) if rng.random() < 0.8 else gen_u64(rng) for _ in range(n)]


def gen_log_range(rng):
    small = lambda: rng.choice([0, 0, 1, 2, 127, 128, 5000]) if rng.random() < 0.8 else gen_u64(rng)
    return [small(), small(), small(), small(), small(), rng.random() < 0.5, rng.random() < 0.2]


def gen_writer(rng, weights=None):
    k = rng.choices(["hs", "member", "addr", "logs", "snaps", "applied"], weights or [4, 3, 3, 2, 2, 2])[0]
    if k == "hs":
        return ["hs", gen_u64(rng) if rng.random() < 0.3 else rng.randrange(0, 9), rng.choice([0, 0, 1, 2, 3, gen_u64(rng)])]
    if k == "member":
        n = rng.choice([0, 0, 1, 3, 3, 5, 22, 40])
        mac = None if rng.random() < 0.6 else gen_ids(rng, rng.choice([0, 2, 4]))
        na = None
        if rng.random() < 0.35:   # the install-snapshot form: everything replaced
            na = [[i, gen_addr(rng)] for i in gen_ids(rng, rng.choice([0, 1, 2, 4]))]
        return ["member", gen_ids(rng, n), mac, na]
    if k == "addr":
        return ["addr", rng.choice([0, 1, 1, 2, 3, 300, U64 - 1]), gen_addr(rng)]
    if k == "logs":
        return ["logs", [gen_log_range(rng) for _ in range(rng.choice([0, 1, 1, 2, 4]))]]
    if k == "snaps":
        return ["snaps", [[gen_u64(rng), gen_u64(rng)] for _ in range(rng.choice([0, 1, 2]))]]
    return ["applied", gen_u64(rng)]


def fixed_histories():
    """the classes the repaired defects came from, always included"""
    m22 = list(range(1, 23))
    return [
        [["hs", 3, 2], ["reopen"]],                                    # 13-byte file (defect 5)
        [["hs", 3, 2], ["reopen"], ["reopen"], ["hs", 3, 2], ["reopen"]],
        [["hs", 1, 1], ["applied", 5], ["reopen"]],
        [["reopen"], ["reopen"]],                                      # fresh image re-read (header bytes)
        [["addr", 1, ""], ["reopen"]],                                 # 12-byte file
        [["addr", 0, ""], ["reopen"]],                                 # empty sub-message: 11 bytes
        [["member", [1], None, None], ["reopen"]],
        [["member", m22, None, None], ["reopen"]],                     # > 20 bytes, last_applied never written
        [["member", m22, None, None], ["member", [], None, None], ["reopen"]],   # all-default after longer
        [["member", m22, None, None], ["hs", 1, 1], ["member", [], None, None], ["reopen"], ["hs", 0, 0], ["reopen"]],
        [["logs", [[0, 0, 0, 0, 0, False, False]]], ["reopen"]],       # default sub-message
        [["hs", U64 - 1, U64 - 1], ["applied", U64 - 1], ["reopen"]],
        [["member", [1, 2, 3], [1, 2, 3, 4], [[1, "a:1"], [1, "b:2"], [2, ""]]], ["reopen"], ["addr", 1, "c"], ["read"]],
    ]


def gen_actor_history(rng, shape):
    ops = []
    if shape == "tiny":            # records that keep the file <= 20 bytes
        for _ in range(rng.randrange(1, 5)):
            ops.append(rng.choice([["hs", rng.randrange(0, 200), rng.randrange(0, 4)], ["applied", gen_u64(rng)],
                                   ["addr", rng.randrange(0, 3), gen_addr(rng, rng.randrange(0, 3))],
                                   ["member", gen_ids(rng, rng.randrange(0, 3)), None, None],
                                   ["snaps", [[rng.randrange(0, 3), rng.randrange(0, 200)]]]]))
            if rng.random() < 0.6:
                ops.append(["reopen"])
    elif shape == "longshort":     # alternating long / short member lists with saves in between
        for i in range(rng.randrange(2, 7)):
            n = rng.choice([20, 40, 64]) if i % 2 == 0 else rng.choice([0, 0, 1, 2])
            ops.append(["member", gen_ids(rng, n), None if rng.random() < 0.5 else gen_ids(rng, n // 2), None])
            if rng.random() < 0.6:
                ops.append(gen_writer(rng, [5, 0, 2, 2, 2, 2]))
            if rng.random() < 0.5:
                ops.append(["reopen"])
    elif shape == "addrs":         # address strings of 0..300 bytes, replaced by shorter ones
        for _ in range(rng.randrange(2, 8)):
            ops.append(["addr", rng.choice([1, 1, 2, 3]), gen_addr(rng)])
            if rng.random() < 0.3:
                ops.append(gen_writer(rng))
            if rng.random() < 0.35:
                ops.append(["reopen"])
    else:                          # everything interleaved
        for _ in range(rng.randrange(2, 12)):
            ops.append(gen_writer(rng))
            r = rng.random()
            if r < 0.25:
                ops.append(["reopen"])
            elif r < 0.35:
                ops.append(["read"])
    if rng.random() < 0.7:
        ops.append(["reopen"])
    return ops


def gen_store_history(rng):
    ops, appended, pointer_done = [], False, False
    for _ in range(rng.randrange(2, 9)):
        k = rng.choices(["hs", "member", "addr", "applied", "append", "snap", "pointer"], [4, 3, 3, 1, 3, 2, 1])[0]
        if k == "append":
            ops.append(["append", rng.randrange(1, 5), 1])
            appended = True
        elif k == "snap":
            ops.append(["snap", rng.randrange(0, 50)])
        elif k == "pointer":
            if appended and not pointer_done:
                ops.append(["pointer", 1])
                pointer_done = True
        elif k == "applied":
            ops.append(["applied", rng.randrange(0, 100)])
        else:
            ops.append(gen_writer(rng, [4 if k == "hs" else 0, 4 if k == "member" else 0, 4 if k == "addr" else 0, 0, 0, 0]))
        if rng.random() < 0.3:
            ops += [["read"], ["reopen"]]
    ops += [["read"], ["reopen"]]
    return ops


# ---------------------------------------------------------------- model expressions
def coq_bytes(bs):
    return "[" + ";".join(str(b) for b in bs) + "]"


def coq_ns(xs):
    return "[" + ";".join(str(x) for x in xs) + "]"


def coq_bool(b):
    return "true" if b else "false"


def coq_op(op):
    k = op[0]
    if k == "hs":
        return "SOp (OpHardState %d %d)" % (op[1], op[2])
    if k == "member":
        mac = "None" if op[2] is None else "(Some %s)" % coq_ns(op[2])
        na = "None" if op[3] is None else "(Some [%s])" % ";".join(
            "(%d,%s)" % (i, coq_bytes(a.encode("utf-8"))) for i, a in op[3])
        return "SOp (OpMember %s %s %s)" % (coq_ns(op[1]), mac, na)
    if k == "addr":
        return "SOp (OpAddAddr %d %s)" % (op[1], coq_bytes(op[2].encode("utf-8")))
    if k == "logs":
        return "SOp (OpLogs [%s])" % ";".join(
            "mkLR %d %d %d %d %d %s %s" % (l[0], l[1], l[2], l[3], l[4], coq_bool(l[5]), coq_bool(l[6])) for l in op[1])
    if k == "snaps":
        return "SOp (OpSnaps [%s])" % ";".join("mkSR %d %d" % (s[0], s[1]) for s in op[1])
    if k == "applied":
        return "SOp (OpApplied %d)" % op[1]
    if k == "reopen":
        return "SOp OpReopen"
    if k == "read":
        return "SRead"
    raise ValueError(k)


def coq_script(ops, fn="script"):
    return "%s [%s]" % (fn, ";".join(coq_op(o) for o in ops))


# ---------------------------------------------------------------- canonical forms
def canon_model_obs(o):
    if o == "SFail":
        return "fail"
    _, r, applied, f = o
    b = lambda x: x == "true"
    return dict(term=r["ri_current_term"], vote=r["ri_voted_for"], applied=applied,
                member=list(r["ri_member"]), mac=list(r["ri_mac"]),
                addrs={k: list(v) for k, v in r["ri_node_addrs"]},
                logs=[[l["lr_id"], l["lr_pre_term"], l["lr_start_index"], l["lr_record_count"], l["lr_split_off_index"],
                       b(l["lr_is_close"]), b(l["lr_mark_remove"])] for l in r["ri_logs"]],
                snaps=[[s["sr_id"], s["sr_end_index"]] for s in r["ri_snapshots"]],
                file=list(f))


def canon_impl_obs(o):
    if o.get("err") is not None or o.get("term") is None:
        return "fail"
    return dict(term=o["term"], vote=o["vote"], applied=o["applied"], member=o["member"], mac=o["mac"],
                addrs={a[0]: list(a[1].encode("utf-8")) for a in o["addrs"]},
                logs=[list(l) for l in o["logs"]], snaps=[list(s) for s in o["snaps"]], file=o["file"])


def cmp_obs(m, i, with_file=True, settled=True):
    """model vs implementation observation; the file is compared by length, and by bytes when the order of
    addresses cannot differ (<= 1 address)"""
    if m == "fail" or i == "fail":
        return None if m == i else "model %s vs implementation %s" % ("fail" if m == "fail" else "ok", "fail" if i == "fail" else "ok")
    for k in ("term", "vote", "applied", "member", "mac", "addrs", "logs", "snaps"):
        if m[k] != i[k]:
            return "%s: model %r vs implementation %r" % (k, str(m[k])[:120], str(i[k])[:120])
    if with_file:
        if len(m["file"]) != len(i["file"]):
            return "file length: model %d vs implementation %d" % (len(m["file"]), len(i["file"]))
        skip = 0 if settled else 8      # the lazily written header is compared only after a reopen
        # the live part (header + the record of the declared length); the stale tail keeps bytes of earlier
        # records whose address order may have differed, so beyond the record only the length is compared
        try:
            used = parse_index_file(m["file"])[2]
        except ValueError:
            used = len(m["file"])
        if len(m["addrs"]) <= 1 and m["file"][skip:used] != i["file"][skip:used]:
            return "file bytes differ"
    return None


# ---------------------------------------------------------------- the oracle on one history
def oracle(chk, case, res, nontrivial):
    """what the property demands of the implementation's observations; returns number of observation points"""
    ops = case["ops"]
    store = case["mode"] == "store"
    replay = {"suite": "indexfile", "case": case}
    if res.get("r") != "ok":
        chk.classify("index:panic", "index store panicked on %s" % json.dumps(ops)[:200], dict(replay, impl=res))
        return 0
    obs = res["obs"]
    points = []          # (expected snapshot, kind, prev_obs_index or None)
    e = Expect()
    for op in ops:
        if op[0] in ("read", "reopen"):
            points.append((e.snapshot(), op[0]))
        else:
            e.apply(op)
    points.append((e.snapshot(), "final"))
    if len(obs) != len(points):
        chk.violation("harness returned %d observations for %d points" % (len(obs), len(points)), dict(replay, impl=res), False)
        return 0
    for ix, ((want, kind), o) in enumerate(zip(points, obs)):
        where = "%s #%d of %s" % (kind, ix, json.dumps(ops)[:160])
        rp = dict(replay, observation=ix, want=want, got={k: o.get(k) for k in o if k != "file"})
        c = canon_impl_obs(o)
        if c == "fail":
            chk.classify("index:reopen_error", "index store unusable after %s: %s" % (where, o.get("err")), rp)
            return len(points)
        if (c["term"], c["vote"]) != (want["term"], want["vote"]):
            chk.classify("index:hard_state", "term/vote read back %s, last saved %s at %s"
                         % ((c["term"], c["vote"]), (want["term"], want["vote"]), where), rp)
        if (c["member"], c["mac"]) != (want["member"], want["mac"]):
            chk.classify("index:membership", "membership read back differs from the last saved at %s" % where, rp)
        if c["addrs"] != want["addrs"]:
            chk.classify("index:addr", "node addresses read back differ from the last saved at %s" % where, rp)
        if c["applied"] != want["applied"]:
            chk.classify("index:last_applied", "last_applied read back %d, last saved %d at %s"
                         % (c["applied"], want["applied"], where), rp)
        if not store and (c["logs"], c["snaps"]) != (want["logs"], want["snaps"]):
            chk.classify("index:catalogue", "catalogue read back differs from the last saved at %s" % where, rp)
        # the other read paths: LoadMember, GetTargetAddr, FileStore::{get_initial_state, get_membership_config, get_target_addr}
        lm = o.get("lm")
        if lm is None or (lm["member"], lm["mac"]) != (want["member"], want["mac"]) or \
                {a[0]: list(a[1].encode("utf-8")) for a in lm["addrs"]} != want["addrs"]:
            chk.classify("index:membership", "LoadMember differs from the last saved at %s" % where, rp)
        for i, a in o.get("target", []):
            wa = want["addrs"].get(i)
            if (None if a is None else list(a.encode("utf-8"))) != wa:
                chk.classify("index:addr", "GetTargetAddr(%d) differs from the last saved at %s" % (i, where), rp)
        if store:
            st = o.get("is", {})
            if "err" in st or (st.get("term"), st.get("vote") or 0) != (want["term"], want["vote"]):
                chk.classify("index:hard_state", "get_initial_state hard state %s, last saved %s at %s"
                             % ((st.get("term"), st.get("vote")), (want["term"], want["vote"]), where), rp)
            elif st.get("applied") != want["applied"]:
                chk.classify("index:last_applied", "get_initial_state last_applied %s, last saved %s at %s"
                             % (st.get("applied"), want["applied"], where), rp)
            elif (st.get("members"), st.get("mac")) != (sorted(set(want["member"])), sorted(set(want["mac"]))):
                chk.classify("index:membership", "get_initial_state membership differs at %s" % where, rp)
            mc = o.get("mc", {})
            if "err" in mc or (mc.get("members"), mc.get("mac")) != (sorted(set(want["member"])), sorted(set(want["mac"]))):
                chk.classify("index:membership", "get_membership_config differs at %s" % where, rp)
            for i, a in o.get("store_target", []):
                wa = want["addrs"].get(i)
                if (None if a is None else list(a.encode("utf-8"))) != wa:
                    chk.classify("index:addr", "FileStore::get_target_addr(%d) differs at %s" % (i, where), rp)
            if kind == "reopen" and ix > 0 and points[ix - 1][1] == "read":
                p = canon_impl_obs(obs[ix - 1])
                if p != "fail" and (p["logs"], p["snaps"]) != (c["logs"], c["snaps"]):
                    chk.classify("index:catalogue", "catalogue changed across reopen at %s" % where, rp)
        # the file itself, parsed by the stated layout only: header + exactly one record of the declared length
        try:
            fa, fr, used = parse_index_file(o["file"])
            # write_last_applied_log does not flush: in the running process the 8 header bytes may lag behind
            # memory, so the header is judged only in a file read after the process was dropped
            if kind != "reopen":
                fa = want["applied"]
            if fa != want["applied"] or (fr["term"], fr["vote"], fr["member"], fr["mac"], fr["addrs"]) != \
                    (want["term"], want["vote"], want["member"], want["mac"], want["addrs"]):
                chk.classify("index:file", "the bytes of the index file do not hold the last saved values at %s" % where, rp)
            if used < len(o["file"]):
                nontrivial.add(("stale-tail", len(o["file"]) - used, ix))
            if len(o["file"]) <= 20:
                nontrivial.add(("small-file", len(o["file"]), c["term"], c["vote"], len(c["addrs"])))
        except ValueError as ex:
            chk.classify("index:file", "index file unreadable by the stated layout (%s) at %s" % (ex, where), rp)
    return len(points)


def derive_model_ops(case, res):
    """store mode: catalogue updates are made by the real log / snapshot managers; they are fed to the model as
    OpLogs / OpSnaps in front of the observation point where they first show up"""
    ops, out, oi = case["ops"], [], 0
    cur_logs, cur_snaps = [], []
    obs = res["obs"]
    for op in ops:
        if op[0] in ("append", "snap", "pointer"):
            continue
        if op[0] in ("read", "reopen"):
            if op[0] == "read":
                c = canon_impl_obs(obs[oi])
                if c != "fail":
                    if c["logs"] != cur_logs:
                        out.append(["logs", c["logs"]])
                        cur_logs = c["logs"]
                    if c["snaps"] != cur_snaps:
                        out.append(["snaps", c["snaps"]])
                        cur_snaps = c["snaps"]
            oi += 1
        out.append(op)
    c = canon_impl_obs(obs[oi])
    if c != "fail":
        if c["logs"] != cur_logs:
            out.append(["logs", c["logs"]])
        if c["snaps"] != cur_snaps:
            out.append(["snaps", c["snaps"]])
    return out


# ---------------------------------------------------------------- the check
def run(chk, replay=None):
    tier = chk.tier
    rng = chk.rng
    proofs_ok = chk.proofs(TARGETS)
    ok, out = lib.harness_build()
    if not ok:
        chk.violation("harness does not build against /repo", {"broken": "harness build", "log": out[-3000:]}, False)
        return
    quick = tier == "quick"
    cases = []
    if replay:
        rp = json.load(open(replay))["replay"]
        if isinstance(rp, dict) and "case" in rp:
            cases.append(rp["case"])
    for h in fixed_histories():
        cases.append({"mode": "actor", "ops": h})
        cases.append({"mode": "store", "ops": [o for o in h if o[0] not in ("logs", "snaps")]})
    dist = {}
    for shape, n in (("tiny", 120), ("longshort", 80), ("addrs", 80), ("mixed", 220)):
        n = n if quick else n * 8
        dist["actor:" + shape] = n
        for _ in range(n):
            cases.append({"mode": "actor", "ops": gen_actor_history(rng, shape)})
    n_store = 60 if quick else 500
    dist["store"] = n_store
    for _ in range(n_store):
        cases.append({"mode": "store", "ops": gen_store_history(rng)})

    impl = lib.harness_run_parallel("indexfile", cases)

    # ---- property oracle on the implementation (independent of the model)
    nontrivial = set()
    n_eval = 0
    for c, r in zip(cases, impl):
        n_eval += oracle(chk, c, r, nontrivial)
        kinds = sorted(set(o[0] for o in c["ops"]))
        if "reopen" in kinds and len(kinds) >= 3:
            nontrivial.add(("hist", c["mode"], tuple(kinds), len(c["ops"])))

    # ---- model
    mism = 0
    model_cases = []
    for c, r in zip(cases, impl):
        if r.get("r") != "ok":
            continue
        mops = derive_model_ops(c, r) if c["mode"] == "store" else c["ops"]
        model_cases.append((c, r, mops))
    try:
        vals = lib.coq_eval_sharded("c05", HEADER, [coq_script(m) for _, _, m in model_cases],
                                    per=40 if quick else 120)
    except RuntimeError as ex:
        chk.violation("model evaluation failed: %s" % str(ex)[:300], {"broken": "model evaluation", "log": str(ex)[-3000:]}, False)
        vals = None
    if vals is not None:
        for (c, r, mops), v in zip(model_cases, vals):
            mo = [canon_model_obs(o) for o in v]
            io = [canon_impl_obs(o) for o in r["obs"]]
            if "fail" in io:
                io = io[:io.index("fail") + 1]
            d = None
            if len(mo) != len(io):
                d = "number of observations: model %d vs implementation %d" % (len(mo), len(io))
            else:
                kinds = [o[0] for o in c["ops"] if o[0] in ("read", "reopen")] + ["final"]
                for ix, (m, i) in enumerate(zip(mo, io)):
                    d = cmp_obs(m, i, with_file=(c["mode"] == "actor"), settled=(kinds[ix] == "reopen"))
                    if d:
                        d = "observation %d: %s" % (ix, d)
                        break
            if d:
                mism += 1
                chk.violation("model != implementation (index file, %s mode): %s" % (c["mode"], d),
                              {"suite": "indexfile", "case": c, "model_ops": mops, "diff": d,
                               "correspondence": "RaftLog.IndexFile / RaftLog.Script.script"}, False)

    if not proofs_ok:
        chk.violation("proof obligations of C05 no longer check: %s" % chk.proof_failure[:300],
                      {"broken": "theorem", "detail": chk.proof_failure}, False)

    chk.cov["evaluations"] = n_eval
    chk.cov["distinct_nontrivial"] = len(nontrivial)
    chk.cov["rule"] = ("observation points (read / after reopen / final) of seeded histories over the REAL RaftIndexManager actor "
                       "(SaveHardState, SaveMember incl. install-snapshot form, AddNodeAddr, SaveLogs, SaveSnapshots, "
                       "SaveLastAppliedLog, reopen) and the REAL FileStore chain (save_hard_state, appends, CompleteSnapshot, "
                       "InstallSnapshotPointerLog, reopen). Non-trivial = distinct history shape with a reopen and >= 2 writer "
                       "kinds, or an observed file <= 20 bytes, or an observed stale tail after a shorter rewrite.")
    chk.cov["samples"] = [cases[0], cases[len(fixed_histories()) * 2 + 5], cases[-1]]
    chk.cov["input_distribution"] = dict(dist, fixed=len(fixed_histories()) * 2,
                                         small_files=sum(1 for x in nontrivial if x[0] == "small-file"),
                                         stale_tails=sum(1 for x in nontrivial if x[0] == "stale-tail"),
                                         model_impl_mismatches=mism)
    chk.assumptions += [
        "reopen = quiesced restart: every acknowledged save has been carried out (crash points between acknowledgement and write: C04)",
        "one record is one write call and one read call (< 2 MiB); u64 fields; addresses are valid UTF-8",
        "HashMap iteration order is arbitrary: theorems quantify over every permutation; the correspondence compares "
        "decoded records and file lengths (bytes when at most one address)",
        "disk errors are not modelled",
    ]
