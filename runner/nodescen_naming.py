"""Naming scenarios on the REAL rnacos binary (3 processes on loopback) for C15.

Only observations are produced here; verdicts are taken in runner/checks/c15.py.

A seeded client population talks HTTP to ARBITRARY live nodes (the node routes to the distro
owner): register / update / deregister of ephemeral and persistent instances in several
namespaces / groups / services, and heart-beats (`PUT /nacos/v1/ns/instance/beat`) for the
ephemeral instances that are kept alive.  After the operations stop the beats continue for the
settle time, then `/nacos/v1/ns/instance/list?healthyOnly=false` (and `GET /nacos/v1/ns/instance`
for the instances the list hides: disabled ones) is read on every live node.

Facts about the server this file relies on (src/openapi/naming/instance.rs, model.rs):
  * POST/PUT /nacos/v1/ns/instance: weight is applied only when != 1, enabled / ephemeral only when
    the parameter is present -> the generator always sends weight in 2..9, enabled and ephemeral;
  * a beat for an unknown instance registers it (weight 1, enabled) -> nothing is beaten after its
    deregistration;
  * /instance/list never returns disabled instances;
  * RNACOS_NAMING_HEALTH_TIMEOUT_SECOND / RNACOS_NAMING_INSTANCE_TIMEOUT_SECOND (+3 s each) are the
    heart-beat time-outs of the OWNER; RNACOS_NAMING_PERPETUAL_INSTANCE_PROBE_INTERVAL_SECOND=0
    switches the TCP probe of persistent instances off (their addresses are fictitious).
"""
import json
import time
import urllib.parse

import nodelib
from nodelib import Cluster
from nodescen import wait_member

SERVICES = [
    ("", "DEFAULT_GROUP", "svcA"), ("", "G1", "svcB"), ("ns1", "DEFAULT_GROUP", "svcC"),
    ("ns1", "G1", "svcA"), ("", "DEFAULT_GROUP", "svcD"), ("ns2", "G2", "svcE"),
    ("", "DEFAULT_GROUP", "svcF"), ("ns1", "G1", "svcG"),
]
BEAT_PERIOD = 1.5


def _form(inst, **kw):
    ns, grp, svc, ip, port = inst
    f = {"serviceName": svc, "groupName": grp, "ip": ip, "port": str(port)}
    if ns:
        f["namespaceId"] = ns
    f.update(kw)
    return f


def http_register(node, inst, weight, enabled, ephemeral, method="POST"):
    f = _form(inst, weight=str(weight), enabled="true" if enabled else "false",
              ephemeral="true" if ephemeral else "false")
    return nodelib.http(method, node.url("/nacos/v1/ns/instance"), form=f, timeout=6.0)


def http_deregister(node, inst, ephemeral):
    f = _form(inst, ephemeral="true" if ephemeral else "false")
    return nodelib.http("DELETE", node.url("/nacos/v1/ns/instance?" + urllib.parse.urlencode(f)), timeout=6.0)


def http_beat(node, inst):
    f = _form(inst, ephemeral="true")
    return nodelib.http("PUT", node.url("/nacos/v1/ns/instance/beat?" + urllib.parse.urlencode(f)), timeout=4.0)


def http_list(node, svc_key):
    ns, grp, svc = svc_key
    q = {"serviceName": svc, "groupName": grp, "healthyOnly": "false"}
    if ns:
        q["namespaceId"] = ns
    st, body = nodelib.http("GET", node.url("/nacos/v1/ns/instance/list?" + urllib.parse.urlencode(q)), timeout=6.0)
    if st != 200:
        return "HTTP %d %s" % (st, body[:80])
    try:
        hosts = json.loads(body).get("hosts") or []
    except ValueError:
        return "BAD " + body[:80]
    return sorted([[h.get("ip"), h.get("port"), h.get("weight"), h.get("healthy"), h.get("enabled"), h.get("ephemeral")]
                   for h in hosts])


def http_get(node, inst):
    st, body = nodelib.http("GET", node.url("/nacos/v1/ns/instance?" + urllib.parse.urlencode(_form(inst))), timeout=6.0)
    if st != 200:
        return None
    try:
        h = json.loads(body)
    except ValueError:
        return "BAD " + body[:80]
    return [h.get("ip"), h.get("port"), h.get("weight"), h.get("healthy"), h.get("enabled"), h.get("ephemeral")]


def observe(nodes, instances):
    """-> {node id: {"lists": {svc key str: hosts}, "single": {inst str: row | None}}}"""
    out = {}
    for n in nodes:
        lists = dict(("/".join(k), http_list(n, k)) for k in SERVICES)
        single = dict(("/".join(str(x) for x in i), http_get(n, i)) for i in instances)
        out[str(n.node_id)] = {"lists": lists, "single": single}
    return out


def scenario_naming_converge(binary, rng, fault=None, n_ops=45, scale=1.0, short_timeouts=None, tag=""):
    """3 real processes.  fault: None | "kill" (kill -9 of one node mid-history, it stays down) |
    "restart" (kill -9 + immediate start: the node comes back without its ephemeral data) |
    "stop" (SIGSTOP for > 18 s: marked invalid by the others, ownership flips, then SIGCONT).
    scale multiplies the waits (the check doubles it for its single retry)."""
    if short_timeouts is None:
        short_timeouts = False      # expiry (C13) must not mask a lost deregistration before the observation
    env = {"RNACOS_NAMING_PERPETUAL_INSTANCE_PROBE_INTERVAL_SECOND": "0"}
    if short_timeouts:
        env.update({"RNACOS_NAMING_HEALTH_TIMEOUT_SECOND": "4", "RNACOS_NAMING_INSTANCE_TIMEOUT_SECOND": "8"})
    obs = {"scenario": "naming_converge", "fault": fault, "scale": scale, "errors": [], "history": [], "env": env,
           "timeline": {}}
    t_start = time.time()
    with Cluster(binary, nodelib.DEFAULT_WORKROOT, "nm%s%s" % (fault or "none", tag)) as c:
        n1 = c.node(1, auto_init=True, extra_env=env)
        starts = {1: [0.0]}
        obs["timeline"]["starts"] = starts
        n1.start()
        n1.wait_ready()
        nodes = [n1]
        for i in (2, 3):
            n = c.node(i, join_addr=n1.raft_addr, extra_env=env)
            starts[i] = [round(time.time() - t_start, 2)]
            n.start()
            try:
                n.wait_ready(need_leader=False)
            except RuntimeError as e:
                obs["errors"].append(str(e)[:300])
            m, _ = wait_member(n1, i)
            if not m:
                obs["errors"].append("node %d did not join" % i)
            nodes.append(n)
        time.sleep(1.5)                   # UpdateNodes reaches every naming node manager
        obs["timeline"]["cluster_up_s"] = round(time.time() - t_start, 1)

        # the client population: instance identity -> spec state
        idents = []
        for si, key in enumerate(SERVICES):
            for j in range(2 if si % 2 else 3):
                idents.append(key + ("10.%d.0.%d" % (si, j + 1), 8000 + j))
        persistent = set(rng.sample(range(len(idents)), 4))
        spec = {}                          # ident -> dict(state, weight, enabled, eph, beating, last_beat, sure)
        for i, ident in enumerate(idents):
            spec[ident] = {"state": "absent", "eph": i not in persistent, "beating": False, "last_beat": 0.0,
                           "sure": True, "weight": None, "enabled": None, "abandoned": False}
        down = set()                       # node ids that must not be addressed
        victim = None
        fault_at = n_ops // 2 if fault else None
        stop_until = None

        def live_nodes():
            return [n for n in nodes if n.node_id not in down]

        def send_beats():
            now = time.time()
            for ident, s in spec.items():
                if s["beating"] and now - s["last_beat"] >= BEAT_PERIOD:
                    tgt = rng.choice(live_nodes())
                    st, body = http_beat(tgt, ident)
                    s["last_beat"] = now
                    if st != 200:
                        obs["history"].append({"t": round(now - t_start, 2), "op": "beat", "node": tgt.node_id,
                                               "inst": list(ident), "status": st, "body": body[:60]})

        def pace(seconds):
            end = time.time() + seconds
            while time.time() < end:
                send_beats()
                time.sleep(0.2)

        for i in range(n_ops):
            if fault and i == fault_at:
                victim = nodes[rng.choice([0, 1, 2])]
                obs["victim"] = victim.node_id
                obs["timeline"]["fault_s"] = round(time.time() - t_start, 1)
                if fault == "kill":
                    victim.kill9()
                    down.add(victim.node_id)
                elif fault == "restart":
                    victim.kill9()
                    down.add(victim.node_id)
                    victim.start()
                    starts[victim.node_id].append(round(time.time() - t_start, 2))
                elif fault == "stop":
                    victim.sigstop()
                    down.add(victim.node_id)
                    stop_until = time.time() + 21.0 * scale
            if fault == "restart" and victim is not None and victim.node_id in down:
                try:
                    victim.wait_ready(timeout=0.5, need_leader=False)
                    down.discard(victim.node_id)
                    obs["timeline"]["restarted_s"] = round(time.time() - t_start, 1)
                except RuntimeError:
                    pass
            if fault == "stop" and stop_until is not None and time.time() >= stop_until:
                victim.sigcont()
                stop_until = None
                obs["timeline"]["sigcont_s"] = round(time.time() - t_start, 1)
                pace(2.0)                  # let it answer again before it is addressed
                down.discard(victim.node_id)
            # one client operation
            ident = rng.choice(idents)
            s = spec[ident]
            tgt = rng.choice(live_nodes())
            rec = {"t": round(time.time() - t_start, 2), "i": i, "node": tgt.node_id, "inst": list(ident), "eph": s["eph"]}
            if s["state"] != "present" or s["abandoned"]:
                w, en = rng.randrange(2, 10), rng.random() < 0.85
                st, body = http_register(tgt, ident, w, en, s["eph"])
                rec.update(op="register", weight=w, enabled=en, status=st, body=body[:60])
                if st == 200 and body == "ok":
                    s.update(state="present", weight=w, enabled=en, beating=s["eph"], last_beat=time.time(), abandoned=False)
                else:
                    s["sure"] = False
            else:
                r = rng.random()
                if r < 0.40:
                    w, en = rng.randrange(2, 10), rng.random() < 0.85
                    st, body = http_register(tgt, ident, w, en, s["eph"], method="PUT")
                    rec.update(op="update", weight=w, enabled=en, status=st, body=body[:60])
                    if st == 200 and body == "ok":
                        s.update(weight=w, enabled=en)
                    else:
                        s["sure"] = False
                elif r < 0.80:
                    s["beating"] = False           # a client stops beating before it deregisters
                    st, body = http_deregister(tgt, ident, s["eph"])
                    rec.update(op="deregister", status=st, body=body[:60])
                    if st == 200 and body == "ok":
                        s.update(state="absent")
                    else:
                        s["sure"] = False
                elif s["eph"]:
                    s.update(beating=False, abandoned=True)   # the client dies silently
                    rec.update(op="abandon")
                else:
                    rec.update(op="noop")
            obs["history"].append(rec)
            pace(0.35 * scale)
        # a stopped node is continued before the settle phase at the latest
        if fault == "stop" and stop_until is not None:
            pace(max(0.0, stop_until - time.time()))
            victim.sigcont()
            obs["timeline"]["sigcont_s"] = round(time.time() - t_start, 1)
            pace(2.0)
            down.discard(victim.node_id)
        if fault == "restart" and victim is not None and victim.node_id in down:
            try:
                victim.wait_ready(timeout=40.0, need_leader=False)
                down.discard(victim.node_id)
                obs["timeline"]["restarted_s"] = round(time.time() - t_start, 1)
            except RuntimeError as e:
                obs["errors"].append("restarted node not ready: " + str(e)[:200])
        obs["timeline"]["ops_done_s"] = round(time.time() - t_start, 1)
        # settle: operations have stopped, the kept-alive instances keep beating
        #   batches 0.5 s, beat batches 15 s, failure detection 15 s + 3 s, snapshot pulls of a joiner 1 s / 15 s
        settle = {None: 8.0, "kill": 24.0, "restart": 20.0, "stop": 22.0}[fault] * scale
        pace(settle)
        obs["timeline"]["observed_s"] = round(time.time() - t_start, 1)
        obs["spec"] = dict(("/".join(str(x) for x in k), dict((f, v[f]) for f in ("state", "eph", "weight", "enabled", "beating", "sure", "abandoned")))
                           for k, v in spec.items())
        obs["live"] = [n.node_id for n in live_nodes()]
        obs["final"] = observe(live_nodes(), idents)
        obs["logs"] = dict((str(n.node_id), n.log_grep(r"panicked|ERROR", 5)) for n in nodes)
    obs["wall_s"] = round(time.time() - t_start, 1)
    return obs


if __name__ == "__main__":
    import random
    import sys
    ok, log, path = nodelib.build_binary()
    f = sys.argv[1] if len(sys.argv) > 1 and sys.argv[1] != "none" else None
    seed = int(sys.argv[2]) if len(sys.argv) > 2 else 1
    o = scenario_naming_converge(path, random.Random(seed), fault=f)
    json.dump(o, sys.stdout, indent=1)
