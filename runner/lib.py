"""Shared machinery of the /verif checks (see DESIGN.md section 2.1).

Every check:
  1. regenerates coq/Gen/*.v from /repo (translators), if it has any
  2. builds the Rocq theory targets of the property (full .vo build, make, cached by make)
  3. checks the obligations: every Theorem of Props/Cxx.v is Qed-closed, Print Assumptions
     is within the allow-list, no Admitted/Axiom/... anywhere in the development
  4. builds the Rust harness against /repo's working tree (hooks on)
  5. runs the correspondence (model vs implementation) and the property oracle
  6. decides, writes evidence/<id>.json, prints VIOLATION / KNOWN-FINDING lines
"""
import fcntl
import hashlib
import json
import os
import random
import re
import shutil
import subprocess
import sys
import time

VERIF = os.path.dirname(os.path.dirname(os.path.abspath(__file__)))
REPO = os.environ.get("VERIF_REPO", os.path.join(os.path.dirname(VERIF), "repo"))
COQ = os.path.join(VERIF, "coq")
WORK = os.path.join(VERIF, ".work")
HARNESS = os.path.join(VERIF, "harness")
EVID = os.path.join(VERIF, "evidence")
REPLAYS = os.path.join(VERIF, "replays")
TARGET = os.path.join(WORK, "target")
BIN = os.path.join(TARGET, "debug", "rnverif")

STD_AXIOMS_ALLOWED = {
    # axioms declared by Coq's own standard library that a proof may depend on; each use is
    # reported in the evidence (trusted_base) of the property whose theorem depends on it
    "functional_extensionality_dep",
    "FunctionalExtensionality.functional_extensionality_dep",
    "Coq.Logic.FunctionalExtensionality.functional_extensionality_dep",
    "Eqdep.Eq_rect_eq.eq_rect_eq",
    "Coq.Logic.Eqdep.Eq_rect_eq.eq_rect_eq",
    "JMeq_eq",
    "Coq.Logic.JMeq.JMeq_eq",
    "proof_irrelevance",
    "Classical_Prop.classic",
}

FORBIDDEN = re.compile(
    r"\b(Admitted|admit|Axiom|Axioms|Parameter|Parameters|Conjecture|Conjectures|"
    r"Admit\s+Obligations|Unset\s+Guard\s+Checking|Unset\s+Positivity\s+Checking|"
    r"Unset\s+Universe\s+Checking|bypass_check|type-in-type|impredicative-set)\b"
)


def log(*a):
    print(*a, file=sys.stderr, flush=True)


def ensure_dirs():
    for d in (WORK, EVID, REPLAYS, os.path.join(WORK, "cases"), os.path.join(WORK, "tmp")):
        os.makedirs(d, exist_ok=True)


class Lock:
    def __init__(self, name):
        ensure_dirs()
        self.path = os.path.join(WORK, name + ".lock")

    def __enter__(self):
        self.f = open(self.path, "w")
        fcntl.flock(self.f, fcntl.LOCK_EX)
        return self

    def __exit__(self, *a):
        fcntl.flock(self.f, fcntl.LOCK_UN)
        self.f.close()


def sh(cmd, timeout=1200, cwd=None, env=None, input=None):
    e = dict(os.environ)
    e.update({"CARGO_NET_OFFLINE": "true"})
    if env:
        e.update(env)
    try:
        p = subprocess.run(
            cmd, shell=isinstance(cmd, str), cwd=cwd, env=e, input=input,
            stdout=subprocess.PIPE, stderr=subprocess.STDOUT, timeout=timeout, text=True,
        )
        return p.returncode, p.stdout
    except subprocess.TimeoutExpired as ex:
        out = ex.stdout or ""
        if isinstance(out, bytes):
            out = out.decode("utf-8", "replace")
        return 124, out + "\n[timeout after %ss]" % timeout


# --------------------------------------------------------------------------------------
# Rocq side
# --------------------------------------------------------------------------------------

COQPROJECT_HEAD = """-Q . RN
-arg -w -arg -notation-overridden,-deprecated-hint-without-locality,-deprecated-instance-without-locality,-ambiguous-paths
"""


def gen_coqproject():
    """_CoqProject lists every .v file under coq/ (sorted); rewritten only when the set changes."""
    files = []
    for root, dirs, fs in os.walk(COQ):
        dirs.sort()
        for fn in sorted(fs):
            if fn.endswith(".v"):
                files.append(os.path.relpath(os.path.join(root, fn), COQ))
    text = COQPROJECT_HEAD + "\n".join(sorted(files)) + "\n"
    cp = os.path.join(COQ, "_CoqProject")
    if not os.path.exists(cp) or open(cp).read() != text:
        with open(cp, "w") as f:
            f.write(text)


def coq_makefile():
    gen_coqproject()
    mk = os.path.join(COQ, "Makefile")
    cp = os.path.join(COQ, "_CoqProject")
    if (not os.path.exists(mk)) or os.path.getmtime(mk) < os.path.getmtime(cp):
        rc, out = sh("coq_makefile -f _CoqProject -o Makefile", cwd=COQ, timeout=120)
        if rc != 0:
            raise RuntimeError("coq_makefile failed: " + out)


def coq_build(targets, timeout=3000):
    """targets: list of .v paths relative to coq/ ; builds their .vo (and dependencies).
    Returns (ok, log)."""
    with Lock("coq"):
        coq_makefile()
        vos = " ".join(t[:-2] + ".vo" for t in targets)
        rc, out = sh("make -j16 %s" % vos, cwd=COQ, timeout=timeout)
        return rc == 0, out


def coq_eval(name, body, timeout=900):
    """Compile a throw-away file that imports the model and prints values.
    Returns (rc, stdout)."""
    ensure_dirs()
    d = os.path.join(WORK, "cases")
    path = os.path.join(d, name + ".v")
    with open(path, "w") as f:
        f.write("Set Printing Width 1000000.\nSet Printing Depth 100000000.\n")
        f.write(body)
    rc, out = sh(["coqc", "-noglob", "-Q", COQ, "RN", "-w", "none", path], cwd=d, timeout=timeout)
    for ext in (".vo", ".vok", ".vos", ".glob"):
        try:
            os.remove(os.path.join(d, name + ext))
        except OSError:
            pass
    return rc, out


def coq_eval_sharded(name, header, items, per=150, timeout=900):
    """items: list of Coq expressions; evaluates each with vm_compute, 16 coqc in parallel.
    Returns list of parsed values (same order) or raises RuntimeError(log)."""
    from concurrent.futures import ThreadPoolExecutor

    shards = [items[i:i + per] for i in range(0, len(items), per)]

    def one(ix):
        body = header + "\n" + "\n".join("Eval vm_compute in (%s)." % e for e in shards[ix])
        rc, out = coq_eval("%s_%d" % (name, ix), body, timeout=timeout)
        if rc != 0:
            raise RuntimeError("coqc failed on shard %d:\n%s" % (ix, out[-4000:]))
        vals = parse_eval_output(out)
        if len(vals) != len(shards[ix]):
            raise RuntimeError("shard %d: expected %d values, got %d\n%s" % (ix, len(shards[ix]), len(vals), out[-2000:]))
        return vals

    res = []
    with ThreadPoolExecutor(max_workers=16) as ex:
        for vals in ex.map(one, range(len(shards))):
            res.extend(vals)
    return res


_TOK = re.compile(r"\s*(\{\||\|\}|:=|[\[\]\(\);,]|[A-Za-z_][A-Za-z_0-9'.]*|-?[0-9]+|\"(?:[^\"]|\"\")*\"|%[A-Za-z_]+)")


def _tokens(s):
    pos = 0
    out = []
    s = s.strip()
    while pos < len(s):
        m = _TOK.match(s, pos)
        if not m:
            raise ValueError("cannot tokenise at: " + s[pos:pos + 40])
        t = m.group(1)
        pos = m.end()
        if t.startswith("%"):
            continue
        out.append(t)
    return out


def parse_coq_term(s):
    """Parse a printed Coq value: numbers -> int, lists -> list, tuples -> tuple,
    constructor applications -> (name, arg, ...), bare constructors -> str, strings -> str,
    records {| a := v |} -> dict."""
    toks = _tokens(s)
    pos = [0]

    def peek():
        return toks[pos[0]] if pos[0] < len(toks) else None

    def take():
        t = toks[pos[0]]
        pos[0] += 1
        return t

    def atom():
        t = take()
        if t == "[":
            items = []
            if peek() == "]":
                take()
                return items
            while True:
                items.append(app())
                t2 = take()
                if t2 == "]":
                    return items
                if t2 != ";":
                    raise ValueError("list: unexpected " + t2)
        if t == "(":
            items = [app()]
            while peek() == ",":
                take()
                items.append(app())
            if take() != ")":
                raise ValueError("tuple: expected )")
            return items[0] if len(items) == 1 else tuple(items)
        if t == "{|":
            d = {}
            while True:
                k = take()
                if take() != ":=":
                    raise ValueError("record: expected :=")
                d[k] = app()
                t2 = take()
                if t2 == "|}":
                    return d
                if t2 != ";":
                    raise ValueError("record: unexpected " + t2)
        if re.match(r"-?[0-9]+$", t):
            return int(t)
        if t.startswith('"'):
            return t[1:-1].replace('""', '"')
        return t

    def app():
        head = atom()
        args = []
        while peek() is not None and peek() not in ("]", ")", ";", ",", "|}", ":="):
            args.append(atom())
        if args:
            if not isinstance(head, str):
                raise ValueError("application of non-identifier")
            return (head,) + tuple(args)
        return head

    v = app()
    if pos[0] != len(toks):
        raise ValueError("trailing tokens: " + " ".join(toks[pos[0]:pos[0] + 8]))
    return v


def parse_eval_output(out):
    """Split coqc output into the values printed by successive Eval commands."""
    vals = []
    cur = None
    for line in out.splitlines():
        if line.startswith("     = "):
            cur = [line[7:]]
        elif line.startswith("     : "):
            if cur is not None:
                vals.append(parse_coq_term(" ".join(cur)))
            cur = None
        elif cur is not None:
            cur.append(line)
    return vals


def coq_list(xs, scope="N"):
    return "[" + ";".join(str(x) for x in xs) + "]%" + scope


def coq_list_of(items):
    return "[" + ";".join(items) + "]"


def coq_string(s):
    return '"' + s.replace('"', '""') + '"'


def scan_forbidden():
    """Admitted/Axiom/... anywhere in the development (comments are stripped first)."""
    hits = []
    for root, _, files in os.walk(COQ):
        for fn in files:
            if not fn.endswith(".v"):
                continue
            p = os.path.join(root, fn)
            src = open(p, encoding="utf-8", errors="replace").read()
            src = strip_coq_comments(src)
            for i, line in enumerate(src.splitlines(), 1):
                if FORBIDDEN.search(line):
                    hits.append("%s:%d: %s" % (os.path.relpath(p, COQ), i, line.strip()[:120]))
    cp = open(os.path.join(COQ, "_CoqProject")).read()
    if re.search(r"type-in-type|impredicative-set|-vos|-vok", cp):
        hits.append("_CoqProject: forbidden flag")
    return hits


def strip_coq_comments(src):
    out = []
    depth = 0
    i = 0
    n = len(src)
    instr = False
    while i < n:
        c = src[i]
        if depth == 0 and c == '"':
            instr = not instr
            out.append(c)
            i += 1
            continue
        if not instr and src.startswith("(*", i):
            depth += 1
            i += 2
            continue
        if not instr and depth > 0 and src.startswith("*)", i):
            depth -= 1
            i += 2
            continue
        if depth == 0:
            out.append(c)
        elif c == "\n":
            out.append(c)
        i += 1
    return "".join(out)


def props_obligations(prop):
    """Theorems stated in Props/<prop>.v: returns list of names."""
    p = os.path.join(COQ, "Props", prop + ".v")
    src = strip_coq_comments(open(p).read())
    return re.findall(r"^\s*Theorem\s+([A-Za-z_0-9']+)", src, flags=re.M)


def print_assumptions(prop, names, timeout=600):
    """Returns dict name -> list of assumption names ([] = closed under the global context)."""
    body = "From RN Require Import Props.%s.\n" % prop
    for n in names:
        body += 'Goal True. idtac "@@BEGIN %s". Abort.\nPrint Assumptions %s.\nGoal True. idtac "@@END". Abort.\n' % (n, n)
    rc, out = coq_eval("pa_" + prop, body, timeout=timeout)
    if rc != 0:
        raise RuntimeError("Print Assumptions run failed:\n" + out[-3000:])
    res = {}
    cur = None
    for line in out.splitlines():
        if line.startswith("@@BEGIN "):
            cur = line.split()[1]
            res[cur] = []
        elif line.startswith("@@END"):
            cur = None
        elif cur is not None:
            if "Closed under the global context" in line or line.strip() in ("", "Axioms:"):
                continue
            m = re.match(r"^([A-Za-z_][A-Za-z_0-9'.]*)\s*:", line)
            if m:
                res[cur].append(m.group(1))
    return res


# --------------------------------------------------------------------------------------
# implementation side
# --------------------------------------------------------------------------------------

def repo_src_hash():
    h = hashlib.sha256()
    for root, dirs, files in os.walk(os.path.join(REPO, "src")):
        dirs.sort()
        for fn in sorted(files):
            p = os.path.join(root, fn)
            h.update(p.encode())
            with open(p, "rb") as f:
                h.update(f.read())
    for fn in ("Cargo.toml", "Cargo.lock"):
        with open(os.path.join(REPO, fn), "rb") as f:
            h.update(f.read())
    return h.hexdigest()[:16]


def harness_build(timeout=2400):
    """cargo build of the harness against /repo's working tree, hooks on. (ok, log)"""
    with Lock("cargo"):
        shutil.copyfile(os.path.join(REPO, "Cargo.lock"), os.path.join(HARNESS, "Cargo.lock"))
        rc, out = sh("cargo build --offline 2>&1", cwd=HARNESS, timeout=timeout)
        return rc == 0 and os.path.exists(BIN), out


class HarnessHang(Exception):
    """the real code did not return on one case (or crashed the process): that case is a failing input"""

    def __init__(self, suite, case, how):
        Exception.__init__(self, "implementation %s on a case of suite %s" % (how, suite))
        self.suite = suite
        self.case = case
        self.how = how


def harness_run(suite, cases, timeout=1200, env=None, tag=None):
    """Run the real implementation on the cases (list of JSON values). Returns list of results."""
    ensure_dirs()
    tag = tag or ("%s_%d" % (suite, os.getpid()))
    cin = os.path.join(WORK, "tmp", tag + ".in.jsonl")
    cout = os.path.join(WORK, "tmp", tag + ".out.jsonl")
    with open(cin, "w") as f:
        for c in cases:
            f.write(json.dumps(c) + "\n")
    rc, out = sh([BIN, suite, cin, cout], timeout=timeout, env=env, cwd=os.path.join(WORK, "tmp"))
    if rc != 0:
        done = 0
        if os.path.exists(cout):
            done = sum(1 for l in open(cout) if l.strip())
        if done < len(cases):
            how = "did not terminate within %ss" % timeout if rc == 124 else "crashed the process (rc=%s)" % rc
            raise HarnessHang(suite, cases[done], how)
        raise RuntimeError("harness %s failed rc=%s: %s" % (suite, rc, out[-3000:]))
    res = [json.loads(l) for l in open(cout) if l.strip()]
    os.remove(cin)
    os.remove(cout)
    if len(res) != len(cases):
        raise RuntimeError("harness %s: %d results for %d cases" % (suite, len(res), len(cases)))
    return res


def harness_run_parallel(suite, cases, shards=16, timeout=1200, env=None):
    from concurrent.futures import ThreadPoolExecutor
    if len(cases) < 2 * shards:
        return harness_run(suite, cases, timeout=timeout, env=env)
    n = (len(cases) + shards - 1) // shards
    parts = [cases[i:i + n] for i in range(0, len(cases), n)]
    with ThreadPoolExecutor(max_workers=shards) as ex:
        outs = list(ex.map(lambda ip: harness_run(suite, ip[1], timeout=timeout, env=env,
                                                   tag="%s_%d_%d" % (suite, os.getpid(), ip[0])),
                           enumerate(parts)))
    res = []
    for o in outs:
        res.extend(o)
    return res


# --------------------------------------------------------------------------------------
# verdicts and evidence
# --------------------------------------------------------------------------------------

def known_findings():
    p = os.path.join(VERIF, "known_findings.json")
    if not os.path.exists(p):
        return {"findings": [], "fixed": []}
    return json.load(open(p))


class Check:
    def __init__(self, prop, tier, seed):
        ensure_dirs()
        self.prop = prop
        self.tier = tier
        self.seed = seed
        self.t0 = time.time()
        self.rng = random.Random(seed)
        self.violations = []      # (what, replay_obj, has_input)
        self.known_hits = []
        self.cov = {
            "obligations": 0, "discharged": 0, "checker_cmd": "", "trusted_base": [],
            "evaluations": 0, "distinct_nontrivial": 0, "rule": "", "samples": [],
        }
        self.assumptions = []
        self.notes = {}
        self.kf = [f for f in known_findings().get("findings", []) if f.get("property") == prop]

    # ---- proof obligations --------------------------------------------------------
    def proofs(self, targets, allow_axioms=()):
        """Build the theory; count obligations. Returns True when all discharged."""
        t = time.time()
        names = props_obligations(self.prop)
        self.cov["obligations"] = len(names)
        self.cov["checker_cmd"] = ("cd /verif/coq && coq_makefile -f _CoqProject -o Makefile && make -j16 %s "
                                   "&& coqc Print Assumptions <each Theorem of Props/%s.v>"
                                   % (" ".join(x[:-2] + ".vo" for x in targets), self.prop))
        ok, out = coq_build(targets)
        self.notes["coq_build_s"] = round(time.time() - t, 1)
        bad = scan_forbidden()
        if bad:
            self.proof_failure = "forbidden constructs in the development: " + "; ".join(bad[:5])
            self.cov["discharged"] = 0
            return False
        if not ok:
            m = re.findall(r'File "\./([^"]+)", line (\d+)', out)
            where = ("%s:%s" % m[-1]) if m else "?"
            self.proof_failure = "Rocq build failed at %s: %s" % (where, out[-1500:])
            # count what still compiles: theorems whose file built are not counted (Props file failed)
            self.cov["discharged"] = 0
            return False
        try:
            pa = print_assumptions(self.prop, names)
        except RuntimeError as ex:
            self.proof_failure = str(ex)
            self.cov["discharged"] = 0
            return False
        disc = 0
        used = set()
        for n in names:
            ax = pa.get(n)
            if ax is None:
                continue
            extra = [a for a in ax if a not in STD_AXIOMS_ALLOWED and a.split(".")[-1] not in STD_AXIOMS_ALLOWED
                     and a not in allow_axioms]
            if extra:
                self.proof_failure = "theorem %s depends on unexpected assumptions %s" % (n, extra)
                continue
            used.update(ax)
            disc += 1
        self.cov["discharged"] = disc
        self.cov["theorems"] = names
        self.cov["axioms_used"] = sorted(used)
        if disc != len(names):
            if not hasattr(self, "proof_failure"):
                self.proof_failure = "not all theorems discharged"
            return False
        return True

    def coqchk(self, timeout=3000):
        """thorough tier: independent re-check of the compiled Props file and its closure"""
        t = time.time()
        rc, out = sh(["coqchk", "-o", "-silent", "-Q", COQ, "RN", "RN.Props." + self.prop], cwd=COQ, timeout=timeout)
        self.notes["coqchk_s"] = round(time.time() - t, 1)
        m = re.search(r"\* Axioms:(.*?)\n\s*\n\* Constants/Inductives relying on type-in-type:(.*?)\n", out, flags=re.S)
        axioms = m.group(1).strip() if m else "?"
        self.cov["coqchk"] = {"rc": rc, "axioms": axioms}
        bad = rc != 0 or not m
        if m and axioms != "<none>":
            names = [a.strip() for a in axioms.split("\n") if a.strip()]
            extra = [a for a in names if a.split(".")[-1] not in STD_AXIOMS_ALLOWED and a not in STD_AXIOMS_ALLOWED]
            bad = bad or bool(extra)
        if "type-in-type: <none>" not in out.replace("\n", " ") and m:
            pass
        if bad:
            self.violation("coqchk does not accept Props/%s.vo" % self.prop, {"broken": "coqchk", "log": out[-2000:]}, False)
        return not bad

    # ---- verdicts -------------------------------------------------------------------
    def violation(self, what, replay, has_input=True):
        self.violations.append((what, replay, has_input))

    def finding_key_known(self, key):
        for f in self.kf:
            if f.get("key") == key:
                return f
        return None

    def classify(self, key, what, replay):
        """An oracle failure on the implementation: known finding or violation."""
        f = self.finding_key_known(key)
        if f is not None:
            if key not in [k for k, _ in self.known_hits]:
                self.known_hits.append((key, f.get("what", what)))
        else:
            self.violation(what, replay, True)

    def finish(self):
        wall = round(time.time() - self.t0, 2)
        tb = [
            "Coq 8.16.1 kernel + vm_compute (no native_compute)",
            "Print Assumptions of every theorem in Props/%s.v (allow-list: stdlib axioms only)" % self.prop,
            "hand-written model tied to /repo by the correspondence harness (harness/, runner/) on seeded cases",
        ] + self.cov.get("trusted_base", [])
        self.cov["trusted_base"] = tb
        for key, what in self.known_hits:
            print("KNOWN-FINDING: property=%s %s" % (self.prop, what))
        rc = 0
        seen = set()
        # violations with a concrete failing input first (stable): the cap below must never hide them behind broken ties
        self.violations.sort(key=lambda v: not v[2])
        for what, replay, has_input in self.violations:
            h = hashlib.sha1(json.dumps(replay, sort_keys=True, default=str).encode()).hexdigest()[:10]
            if h in seen:
                continue
            seen.add(h)
            if len(seen) > 5:
                break
            path = os.path.join(REPLAYS, "%s-%s.json" % (self.prop, h))
            with open(path, "w") as f:
                json.dump({"property": self.prop, "what": what, "seed": self.seed, "tier": self.tier,
                           "replay": replay}, f, indent=1, default=str)
            line = "VIOLATION property=%s replay=%s" % (self.prop, path)
            if not has_input:
                line += " " + what.splitlines()[0][:160] + " no-failing-input-found"
            print(line)
            rc = 1
        ev = {
            "property_id": self.prop, "tier": self.tier, "seed": self.seed, "level": "proof",
            "coverage": self.cov, "assumptions": self.assumptions, "wall_s": wall,
            "violations": len(seen), "notes": self.notes,
            "known_findings_hit": [k for k, _ in self.known_hits],
        }
        with open(os.path.join(EVID, self.prop + ".json"), "w") as f:
            json.dump(ev, f, indent=1, default=str)
        log("[%s] %s tier=%s seed=%s wall=%ss obligations=%s/%s evaluations=%s violations=%s"
            % (self.prop, "FAIL" if rc else "ok", self.tier, self.seed, wall,
               self.cov["discharged"], self.cov["obligations"], self.cov["evaluations"], len(seen)))
        return rc


def diff_first(a, b, path=""):
    """first difference between two JSON-like values (for reports)"""
    if type(a) != type(b):
        return "%s: %r vs %r" % (path, a, b)
    if isinstance(a, dict):
        for k in sorted(set(a) | set(b)):
            if k not in a or k not in b:
                return "%s.%s: missing on one side" % (path, k)
            d = diff_first(a[k], b[k], path + "." + k)
            if d:
                return d
        return None
    if isinstance(a, (list, tuple)):
        if len(a) != len(b):
            return "%s: length %d vs %d" % (path, len(a), len(b))
        for i, (x, y) in enumerate(zip(a, b)):
            d = diff_first(x, y, "%s[%d]" % (path, i))
            if d:
                return d
        return None
    if a != b:
        return "%s: %r vs %r" % (path, str(a)[:80], str(b)[:80])
    return None
