#!/bin/sh
# Build the framework from files on disk only (offline): Rocq development + Rust harness.
set -e
cd "$(dirname "$0")"
export CARGO_NET_OFFLINE=true
mkdir -p .work/tmp .work/cases evidence replays
python3 -c "import sys; sys.path.insert(0, 'runner'); import lib; lib.coq_makefile()"
( cd coq && timeout 7200 make -j16 )
cp ../repo/Cargo.lock harness/Cargo.lock
( cd harness && timeout 3600 cargo build --offline )
echo "setup ok"
