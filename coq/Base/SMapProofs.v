(** Laws of the sorted association lists of SMap.v. *)
From RN Require Import Base.SMap.
From Coq Require Import Lia.

Section Proofs.
  Context {K V : Type}.
  Variable cmp : K -> K -> comparison.
  Hypothesis OK : cmp_ok cmp.

  Lemma cmp_refl a : cmp a a = Eq.
  Proof. apply (cmp_eq _ OK). reflexivity. Qed.

  Lemma cmp_gt_lt a b : cmp a b = Gt -> cmp b a = Lt.
  Proof. intros E. rewrite (cmp_opp _ OK a b), E. reflexivity. Qed.

  Lemma cmp_lt_gt a b : cmp a b = Lt -> cmp b a = Gt.
  Proof. intros E. rewrite (cmp_opp _ OK a b), E. reflexivity. Qed.

  Lemma cmp_neq a b : a <> b -> cmp a b <> Eq.
  Proof. intros N E. apply N. apply (cmp_eq _ OK). exact E. Qed.

  Lemma cmp_eq_sym a b : cmp a b = Eq -> cmp b a = Eq.
  Proof. intros E. apply (cmp_eq _ OK) in E. subst. apply cmp_refl. Qed.

  Notation get := (@sm_get K V cmp).
  Notation put := (@sm_put K V cmp).
  Notation del := (@sm_del K V cmp).
  Notation wf := (@sm_wf K V cmp).

  Lemma get_put_same m k v : get (put m k v) k = Some v.
  Proof.
    induction m as [|[k' v'] m IH]; cbn [sm_put sm_get].
    - rewrite cmp_refl. reflexivity.
    - destruct (cmp k k') eqn:E; cbn [sm_get]; rewrite ?cmp_refl, ?E; auto.
  Qed.

  Lemma get_put_other m k v k' : k' <> k -> get (put m k v) k' = get m k'.
  Proof.
    intros N. induction m as [|[k1 v1] m IH]; cbn [sm_put sm_get].
    - destruct (cmp k' k) eqn:E; auto. apply (cmp_eq _ OK) in E. contradiction.
    - destruct (cmp k k1) eqn:E; cbn [sm_get].
      + apply (cmp_eq _ OK) in E. subst k1.
        destruct (cmp k' k) eqn:E2; auto. apply (cmp_eq _ OK) in E2. contradiction.
      + destruct (cmp k' k) eqn:E2.
        * apply (cmp_eq _ OK) in E2. contradiction.
        * rewrite (cmp_lt_trans _ OK _ _ _ E2 E). reflexivity.
        * reflexivity.
      + destruct (cmp k' k1); auto.
  Qed.

  Lemma get_put m k v k' :
    get (put m k v) k' = match cmp k' k with Eq => Some v | _ => get m k' end.
  Proof.
    destruct (cmp k' k) eqn:E.
    - apply (cmp_eq _ OK) in E. subst. apply get_put_same.
    - apply get_put_other. intros ->. rewrite cmp_refl in E. discriminate.
    - apply get_put_other. intros ->. rewrite cmp_refl in E. discriminate.
  Qed.

  Lemma wf_tail kv m : wf (kv :: m) -> wf m.
  Proof. destruct kv. cbn. tauto. Qed.

  Lemma get_none_lt_all m k :
    Forall (fun kv => cmp k (fst kv) = Lt) m -> get m k = None.
  Proof.
    destruct m as [|[k1 v1] m]; cbn [sm_get]; auto.
    intros F. inversion F; subst. cbn in H1. rewrite H1. reflexivity.
  Qed.

  Lemma Forall_lt_trans k k1 (m : list (K * V)) :
    cmp k k1 = Lt -> Forall (fun kv => cmp k1 (fst kv) = Lt) m ->
    Forall (fun kv => cmp k (fst kv) = Lt) m.
  Proof.
    intros E F. eapply Forall_impl; [|exact F]. cbn. intros a Ha.
    eapply (cmp_lt_trans _ OK); eauto.
  Qed.

  Lemma put_Forall (P : K -> Prop) m k v :
    P k -> Forall (fun kv => P (fst kv)) m -> Forall (fun kv => P (fst kv)) (put m k v).
  Proof.
    intros Pk F. induction m as [|[k1 v1] m IH]; cbn [sm_put].
    - constructor; auto.
    - inversion F; subst. destruct (cmp k k1); constructor; auto.
  Qed.

  Lemma del_Forall (P : K * V -> Prop) m k :
    Forall P m -> Forall P (del m k).
  Proof.
    intros F. induction m as [|[k1 v1] m IH]; cbn [sm_del]; auto.
    inversion F; subst. destruct (cmp k k1); auto.
  Qed.

  Lemma wf_put m k v : wf m -> wf (put m k v).
  Proof.
    induction m as [|[k1 v1] m IH]; cbn [sm_put].
    - cbn. auto.
    - intros [F W]. destruct (cmp k k1) eqn:E.
      + apply (cmp_eq _ OK) in E. subst k1. cbn. auto.
      + cbn [sm_wf]. split; [|cbn; auto].
        constructor; [exact E|]. eapply Forall_lt_trans; eauto.
      + cbn [sm_wf]. split; [|auto].
        apply (put_Forall (fun x => cmp k1 x = Lt)); auto. apply cmp_gt_lt; auto.
  Qed.

  Lemma wf_del m k : wf m -> wf (del m k).
  Proof.
    induction m as [|[k1 v1] m IH]; cbn [sm_del]; auto.
    intros [F W]. destruct (cmp k k1) eqn:E; auto.
    - cbn [sm_wf]. auto.
    - cbn [sm_wf]. split; auto. apply del_Forall. exact F.
  Qed.

  Lemma get_del_same m k : wf m -> get (del m k) k = None.
  Proof.
    induction m as [|[k1 v1] m IH]; cbn [sm_del]; auto.
    intros [F W]. destruct (cmp k k1) eqn:E.
    - apply (cmp_eq _ OK) in E. subst k1. apply get_none_lt_all. exact F.
    - cbn [sm_get]. rewrite E. reflexivity.
    - cbn [sm_get]. rewrite E. auto.
  Qed.

  Lemma get_del_other m k k' : wf m -> k' <> k -> get (del m k) k' = get m k'.
  Proof.
    intros W N. induction m as [|[k1 v1] m IH]; cbn [sm_del]; auto.
    destruct W as [F W]. destruct (cmp k k1) eqn:E.
    - apply (cmp_eq _ OK) in E. subst k1. cbn [sm_get].
      destruct (cmp k' k) eqn:E2.
      + apply (cmp_eq _ OK) in E2. contradiction.
      + symmetry. rewrite get_none_lt_all; auto. eapply Forall_lt_trans; eauto.
      + reflexivity.
    - reflexivity.
    - cbn [sm_get]. destruct (cmp k' k1); auto.
  Qed.

  Lemma get_del m k k' : wf m ->
    get (del m k) k' = match cmp k' k with Eq => None | _ => get m k' end.
  Proof.
    intros W. destruct (cmp k' k) eqn:E.
    - apply (cmp_eq _ OK) in E. subst. apply get_del_same; auto.
    - apply get_del_other; auto. intros ->. rewrite cmp_refl in E. discriminate.
    - apply get_del_other; auto. intros ->. rewrite cmp_refl in E. discriminate.
  Qed.

  (** membership in the key list *)
  Lemma get_some_in m k v : get m k = Some v -> In (k, v) m.
  Proof.
    induction m as [|[k1 v1] m IH]; cbn [sm_get]; [discriminate|].
    destruct (cmp k k1) eqn:E; try discriminate.
    - intros [= ->]. apply (cmp_eq _ OK) in E. subst. left. reflexivity.
    - intros G. right. auto.
  Qed.

  Lemma in_get_some m k v : wf m -> In (k, v) m -> get m k = Some v.
  Proof.
    induction m as [|[k1 v1] m IH]; cbn [sm_get]; [contradiction|].
    intros [F W] [E|I].
    - inversion E; subst. rewrite cmp_refl. reflexivity.
    - rewrite Forall_forall in F. pose proof (F _ I) as L. cbn in L.
      rewrite (cmp_lt_gt _ _ L). auto.
  Qed.

  Lemma in_keys_get m k : wf m -> (In k (sm_keys m) <-> get m k <> None).
  Proof.
    intros W. unfold sm_keys. split.
    - intros I. apply in_map_iff in I. destruct I as [[k1 v1] [E I]]. cbn in E. subst k1.
      rewrite (in_get_some _ _ _ W I). discriminate.
    - intros G. destruct (get m k) eqn:E; [|contradiction].
      apply get_some_in in E. apply in_map_iff. exists (k, v). auto.
  Qed.

  Lemma wf_NoDup_keys m : wf m -> NoDup (sm_keys m).
  Proof.
    induction m as [|[k1 v1] m IH]; cbn; [constructor|].
    intros [F W]. constructor; auto.
    intros I. apply in_map_iff in I. destruct I as [[k2 v2] [E I]]. cbn in E. subst k2.
    rewrite Forall_forall in F. pose proof (F _ I) as L. cbn in L.
    rewrite cmp_refl in L. discriminate.
  Qed.

  Lemma wf_NoDup m : wf m -> NoDup m.
  Proof.
    intros W. apply wf_NoDup_keys in W. unfold sm_keys in W.
    eapply NoDup_map_inv; eauto.
  Qed.

  (** extensionality: a well-formed map is determined by its lookups *)
  Lemma wf_ext m1 m2 : wf m1 -> wf m2 -> (forall k, get m1 k = get m2 k) -> m1 = m2.
  Proof.
    revert m2. induction m1 as [|[k1 v1] m1 IH]; intros [|[k2 v2] m2] W1 W2 E.
    - reflexivity.
    - specialize (E k2). cbn [sm_get] in E. rewrite cmp_refl in E. discriminate.
    - specialize (E k1). cbn [sm_get] in E. rewrite cmp_refl in E. discriminate.
    - destruct W1 as [F1 W1], W2 as [F2 W2].
      assert (k1 = k2 /\ v1 = v2) as [-> ->].
      { pose proof (E k1) as E1. pose proof (E k2) as E2. cbn [sm_get] in E1, E2.
        rewrite cmp_refl in E1, E2.
        destruct (cmp k1 k2) eqn:C.
        - apply (cmp_eq _ OK) in C. subst. inversion E1. auto.
        - discriminate.
        - rewrite (cmp_gt_lt _ _ C) in E2. discriminate. }
      f_equal. apply IH; auto. intros k. specialize (E k). cbn [sm_get] in E.
      destruct (cmp k k2) eqn:C; auto.
      + apply (cmp_eq _ OK) in C. subst. rewrite !get_none_lt_all; auto.
      + rewrite !get_none_lt_all; auto; eapply Forall_lt_trans; eauto.
  Qed.

  Lemma put_keys_in m k v k' : In k' (sm_keys (put m k v)) <-> k' = k \/ In k' (sm_keys m).
  Proof.
    unfold sm_keys. induction m as [|[k1 v1] m IH]; cbn [sm_put map fst In].
    - intuition.
    - destruct (cmp k k1) eqn:E; cbn [map fst In].
      + apply (cmp_eq _ OK) in E. subst. intuition.
      + intuition.
      + rewrite IH. intuition.
  Qed.

  Lemma del_keys_in m k k' : wf m -> (In k' (sm_keys (del m k)) <-> k' <> k /\ In k' (sm_keys m)).
  Proof.
    intros W. rewrite !in_keys_get; auto using wf_del. rewrite get_del; auto.
    destruct (cmp k' k) eqn:E.
    - apply (cmp_eq _ OK) in E. subst. intuition.
    - assert (k' <> k) by (intros ->; rewrite cmp_refl in E; discriminate). intuition.
    - assert (k' <> k) by (intros ->; rewrite cmp_refl in E; discriminate). intuition.
  Qed.

  Lemma mem_get m k : sm_mem cmp m k = true <-> get m k <> None.
  Proof. unfold sm_mem. destruct (get m k); split; congruence. Qed.

  Lemma put_same_id m k v : wf m -> get m k = Some v -> put m k v = m.
  Proof.
    induction m as [|[k1 v1] m IH]; cbn [sm_get sm_put]; [discriminate|].
    intros [F W]. destruct (cmp k k1) eqn:E; try discriminate.
    - intros [= ->]. apply (cmp_eq _ OK) in E. subst. reflexivity.
    - intros G. f_equal. auto.
  Qed.

  Lemma del_none_id m k : wf m -> get m k = None -> del m k = m.
  Proof.
    induction m as [|[k1 v1] m IH]; cbn [sm_get sm_del]; auto.
    intros [F W]. destruct (cmp k k1) eqn:E; try discriminate; auto.
    intros G. f_equal. auto.
  Qed.

  Lemma Forall_put (P : K * V -> Prop) m k v : P (k, v) -> Forall P m -> Forall P (put m k v).
  Proof.
    intros Pk F. induction m as [|[k1 v1] m IH]; cbn [sm_put].
    - constructor; auto.
    - inversion F; subst. destruct (cmp k k1); constructor; auto.
  Qed.

  Lemma Forall_get (P : K * V -> Prop) m k v : Forall P m -> get m k = Some v -> P (k, v).
  Proof. intros F G. rewrite Forall_forall in F. apply F. apply get_some_in. exact G. Qed.

  Lemma in_get_iff m k v : wf m -> (In (k, v) m <-> get m k = Some v).
  Proof. intros W. split; [apply in_get_some; auto|apply get_some_in]. Qed.

  Lemma mem_put m k v k' : sm_mem cmp (put m k v) k' = match cmp k' k with Eq => true | _ => sm_mem cmp m k' end.
  Proof. unfold sm_mem. rewrite get_put. destruct (cmp k' k); reflexivity. Qed.

  Lemma mem_del m k k' : wf m -> sm_mem cmp (del m k) k' = match cmp k' k with Eq => false | _ => sm_mem cmp m k' end.
  Proof. intros W. unfold sm_mem. rewrite get_del by exact W. destruct (cmp k' k); reflexivity. Qed.
End Proofs.

Lemma NoDup_app_intro {A} (l1 l2 : list A) :
  NoDup l1 -> NoDup l2 -> (forall x, In x l1 -> ~ In x l2) -> NoDup (l1 ++ l2).
Proof.
  induction l1 as [|a l1 IH]; intros N1 N2 D; cbn [app]; auto.
  inversion N1; subst. constructor.
  - rewrite in_app_iff. intros [I|I]; [contradiction|]. apply (D a); [left; reflexivity|exact I].
  - apply IH; auto. intros x I. apply D. right. exact I.
Qed.

(** a concatenation of tagged blocks with distinct tags has no duplicates *)
Lemma NoDup_concat_tagged {A B T} (tag : B -> T) (f : A -> list B) (tg : A -> T) (m : list A) :
  NoDup (map tg m) ->
  (forall a, In a m -> NoDup (f a)) ->
  (forall a e, In a m -> In e (f a) -> tag e = tg a) ->
  NoDup (concat (map f m)).
Proof.
  induction m as [|a m IH]; intros N F T0; cbn [map concat]; [constructor|].
  cbn [map] in N. inversion N; subst.
  apply NoDup_app_intro.
  - apply F. left. reflexivity.
  - apply IH; auto.
    + intros a' I. apply F. right. exact I.
    + intros a' e I. apply T0. right. exact I.
  - intros e I1 I2. apply in_concat in I2. destruct I2 as [l [Il Ie]].
    apply in_map_iff in Il. destruct Il as [a' [<- Ia']].
    apply H1. apply in_map_iff. exists a'. split; [|exact Ia'].
    rewrite <- (T0 a e) by (try left; auto). symmetry. apply T0; [right; exact Ia'|exact Ie].
Qed.

