(** A directory as a finite map name -> bytes, and the file mutations a process issues.
    The crash model of C04: the process dies between two mutations; the OS survives; every
    mutation is atomic and they are applied in the order in which they were issued.
    [crash_fs j k] is the directory after the first [k] mutations of the journal [j]. *)
From RN Require Export Base.Res.
From Coq Require Import String.
Local Open Scope N_scope.

Definition fname : Type := string.
Definition fname_eqb : fname -> fname -> bool := String.eqb.
(** names of the files of the raft store directory *)
Definition fn_index : fname := "index"%string.

(** seek(off) + write_all(data) on a file that is not truncated; a gap is zero-filled *)
Definition write_at (f : list N) (off : nat) (data : list N) : list N :=
  firstn off f ++ repeat 0 (off - List.length f) ++ data ++ skipn (off + List.length data) f.

(** ftruncate: cut, or extend with zeros *)
Definition set_len (f : list N) (n : nat) : list N := firstn n f ++ repeat 0 (n - List.length f).

Definition fs : Type := list (fname * list N).

Fixpoint fs_get (n : fname) (s : fs) : option (list N) :=
  match s with
  | [] => None
  | (n', d) :: s' => if fname_eqb n n' then Some d else fs_get n s'
  end.

Fixpoint fs_set (n : fname) (d : list N) (s : fs) : fs :=
  match s with
  | [] => [(n, d)]
  | (n', d') :: s' => if fname_eqb n n' then (n, d) :: s' else (n', d') :: fs_set n d s'
  end.

Fixpoint fs_del (n : fname) (s : fs) : fs :=
  match s with
  | [] => []
  | (n', d') :: s' => if fname_eqb n n' then fs_del n s' else (n', d') :: fs_del n s'
  end.

Inductive mut : Type :=
| MWrite (f : fname) (off : nat) (data : list N)
| MSetLen (f : fname) (n : nat)
| MCreate (f : fname)
| MRename (a b : fname)
| MRemove (f : fname).

(** the files a mutation can change *)
Definition mut_touches (m : mut) (n : fname) : bool :=
  match m with
  | MWrite f _ _ | MSetLen f _ | MCreate f | MRemove f => fname_eqb n f
  | MRename a b => fname_eqb n a || fname_eqb n b
  end.

Definition apply_mut (s : fs) (m : mut) : fs :=
  match m with
  | MWrite f off d =>
      match fs_get f s with Some c => fs_set f (write_at c off d) s | None => s end
  | MSetLen f n =>
      match fs_get f s with Some c => fs_set f (set_len c n) s | None => s end
  | MCreate f =>
      match fs_get f s with Some _ => s | None => fs_set f [] s end
  | MRename a b =>
      match fs_get a s with Some c => fs_set b c (fs_del a s) | None => s end
  | MRemove f => fs_del f s
  end.

Definition apply_muts (s : fs) (j : list mut) : fs := fold_left apply_mut j s.
Definition crash_fs (j : list mut) (k : nat) : fs := apply_muts [] (firstn k j).
