(** Association lists used as finite maps and sets (the HashMap / HashSet / BTreeMap values of
    the code; iteration order is never observed, the checks sort before comparing).
    Definitions only; lemmas are in [AMapProofs.v]. *)
From Coq Require Import List Bool NArith ZArith.
Import ListNotations.

Section AMap.
  Context {K V : Type} (eqd : forall a b : K, {a = b} + {a <> b}).

  Fixpoint aget (k : K) (m : list (K * V)) : option V :=
    match m with
    | [] => None
    | (k', v) :: m' => if eqd k k' then Some v else aget k m'
    end.

  Fixpoint aset (k : K) (v : V) (m : list (K * V)) : list (K * V) :=
    match m with
    | [] => [(k, v)]
    | (k', v') :: m' => if eqd k k' then (k, v) :: m' else (k', v') :: aset k v m'
    end.

  Fixpoint adel (k : K) (m : list (K * V)) : list (K * V) :=
    match m with
    | [] => []
    | (k', v') :: m' => if eqd k k' then adel k m' else (k', v') :: adel k m'
    end.

  Definition akeys (m : list (K * V)) : list K := map fst m.
  Definition avals (m : list (K * V)) : list V := map snd m.
  Definition acount (p : V -> bool) (m : list (K * V)) : nat := length (filter p (avals m)).
End AMap.

Section ASet.
  Context {K : Type} (eqd : forall a b : K, {a = b} + {a <> b}).

  Fixpoint smem (k : K) (l : list K) : bool :=
    match l with
    | [] => false
    | k' :: l' => if eqd k k' then true else smem k l'
    end.

  Definition sadd (k : K) (l : list K) : list K := if smem k l then l else l ++ [k].

  Fixpoint sdel (k : K) (l : list K) : list K :=
    match l with
    | [] => []
    | k' :: l' => if eqd k k' then sdel k l' else k' :: sdel k l'
    end.
End ASet.

(** time-out sets ([inner_mem_cache::TimeoutSet]): entries (time, value); [ts_timeout t] removes
    and returns every value whose time is <= t *)
Definition ts_add {T} (t : N) (v : T) (s : list (N * T)) : list (N * T) := s ++ [(t, v)].
Definition ts_timeout {T} (t : N) (s : list (N * T)) : list T * list (N * T) :=
  (map snd (filter (fun e => N.leb (fst e) t) s), filter (fun e => negb (N.leb (fst e) t)) s).

Definition b2z (b : bool) : Z := if b then 1%Z else 0%Z.
