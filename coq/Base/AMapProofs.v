(** Lemmas about association-list maps and sets ([AMap.v]). *)
From Coq Require Import List Bool NArith ZArith Lia Permutation.
From RN Require Import Base.AMap.
Import ListNotations.

Lemma NoDup_app_snoc : forall {A} (l : list A) (a : A), NoDup l -> ~ In a l -> NoDup (l ++ [a]).
Proof.
  induction l as [|x l IH]; cbn; intros a Hn Hi.
  - constructor; auto.
  - inversion Hn; subst. constructor.
    + rewrite in_app_iff. cbn. intros [H|[H|[]]]; [tauto | subst; tauto].
    + apply IH; tauto.
Qed.

Section AMapProofs.
  Context {K V : Type} (eqd : forall a b : K, {a = b} + {a <> b}).
  Notation aget := (@aget K V eqd).
  Notation aset := (@aset K V eqd).
  Notation adel := (@adel K V eqd).

  Lemma aget_aset_eq : forall k v m, aget k (aset k v m) = Some v.
  Proof.
    induction m as [|[k' v'] m IH]; cbn.
    - destruct (eqd k k); congruence.
    - destruct (eqd k k') eqn:E; cbn.
      + destruct (eqd k k); congruence.
      + rewrite E. exact IH.
  Qed.

  Lemma aget_aset_neq : forall k k' v m, k' <> k -> aget k' (aset k v m) = aget k' m.
  Proof.
    induction m as [|[k2 v2] m IH]; cbn; intros Hn.
    - destruct (eqd k' k); congruence.
    - destruct (eqd k k2) eqn:E; cbn.
      + subst. destruct (eqd k' k2); congruence.
      + destruct (eqd k' k2); auto.
  Qed.

  Lemma aget_aset : forall k k' v m, aget k' (aset k v m) = if eqd k' k then Some v else aget k' m.
  Proof.
    intros. destruct (eqd k' k).
    - subst. apply aget_aset_eq.
    - apply aget_aset_neq; auto.
  Qed.

  Lemma aget_adel_eq : forall k m, aget k (adel k m) = None.
  Proof.
    induction m as [|[k' v'] m IH]; cbn; auto.
    destruct (eqd k k') eqn:E; cbn; auto. rewrite E. exact IH.
  Qed.

  Lemma aget_adel_neq : forall k k' m, k' <> k -> aget k' (adel k m) = aget k' m.
  Proof.
    induction m as [|[k2 v2] m IH]; cbn; intros Hn; auto.
    destruct (eqd k k2) eqn:E; cbn.
    - subst. destruct (eqd k' k2); try congruence. auto.
    - destruct (eqd k' k2); auto.
  Qed.

  Lemma aget_adel : forall k k' m, aget k' (adel k m) = if eqd k' k then None else aget k' m.
  Proof.
    intros. destruct (eqd k' k).
    - subst. apply aget_adel_eq.
    - apply aget_adel_neq; auto.
  Qed.

  Lemma aget_In : forall k v m, aget k m = Some v -> In (k, v) m.
  Proof.
    induction m as [|[k' v'] m IH]; cbn; intros H; try discriminate.
    destruct (eqd k k'); [inversion H; subst; auto | auto].
  Qed.

  Lemma aget_None_notin : forall k m, aget k m = None <-> ~ In k (akeys m).
  Proof.
    induction m as [|[k' v'] m IH]; cbn.
    - tauto.
    - destruct (eqd k k').
      + subst. split; [discriminate | intros H; exfalso; apply H; auto].
      + rewrite IH. split; intros H; [intros [H1|H1]; [congruence | auto] | tauto].
  Qed.

  Lemma aget_Some_in : forall k m, (exists v, aget k m = Some v) <-> In k (akeys m).
  Proof.
    intros. destruct (aget k m) eqn:E.
    - split; [intros _ | eauto]. apply aget_In in E. unfold akeys. apply in_map_iff. exists (k, v); auto.
    - split; [intros [v H]; discriminate | intros H]. apply aget_None_notin in E. tauto.
  Qed.

  Lemma In_aget_nodup : forall k v m, NoDup (akeys m) -> In (k, v) m -> aget k m = Some v.
  Proof.
    induction m as [|[k' v'] m IH]; cbn; intros Hn Hin; [tauto|].
    inversion Hn; subst. destruct Hin as [Hin|Hin].
    - inversion Hin; subst. destruct (eqd k k); congruence.
    - destruct (eqd k k').
      + subst. exfalso. apply H1. unfold akeys. apply in_map_iff. exists (k', v); auto.
      + auto.
  Qed.

  Lemma akeys_aset_in : forall k v m, In k (akeys m) -> akeys (aset k v m) = akeys m.
  Proof.
    induction m as [|[k' v'] m IH]; cbn; intros H; [tauto|].
    destruct (eqd k k'); cbn.
    - subst; auto.
    - f_equal. apply IH. destruct H; [congruence | assumption].
  Qed.

  Lemma akeys_aset_notin : forall k v m, ~ In k (akeys m) -> akeys (aset k v m) = akeys m ++ [k].
  Proof.
    induction m as [|[k' v'] m IH]; cbn; intros H; auto.
    destruct (eqd k k'); cbn.
    - subst. tauto.
    - f_equal. apply IH. tauto.
  Qed.

  Lemma in_akeys_aset : forall k k' v m, In k' (akeys (aset k v m)) <-> k' = k \/ In k' (akeys m).
  Proof.
    intros. rewrite <- !aget_Some_in. rewrite aget_aset. destruct (eqd k' k).
    - subst. split; eauto.
    - split; [intros [x H]; right; eauto | intros [H|H]; [congruence|auto]].
  Qed.

  Lemma in_akeys_adel : forall k k' m, In k' (akeys (adel k m)) <-> k' <> k /\ In k' (akeys m).
  Proof.
    intros. rewrite <- !aget_Some_in. rewrite aget_adel. destruct (eqd k' k).
    - subst. split; [intros [x H]; discriminate | tauto].
    - split; [intros H; split; auto | tauto].
  Qed.

  Lemma nodup_aset : forall k v m, NoDup (akeys m) -> NoDup (akeys (aset k v m)).
  Proof.
    intros. destruct (in_dec eqd k (akeys m)).
    - rewrite akeys_aset_in; auto.
    - rewrite akeys_aset_notin; auto. apply NoDup_app_snoc; auto.
  Qed.

  Lemma nodup_adel : forall k m, NoDup (akeys m) -> NoDup (akeys (adel k m)).
  Proof.
    induction m as [|[k' v'] m IH]; cbn; intros H; auto.
    inversion H; subst. destruct (eqd k k'); cbn; auto.
    constructor; auto. intros Hin. apply (in_akeys_adel k k' m) in Hin. tauto.
  Qed.

  Lemma adel_notin : forall k m, ~ In k (akeys m) -> adel k m = m.
  Proof.
    induction m as [|[k' v'] m IH]; cbn; intros H; auto.
    destruct (eqd k k'); [subst; tauto|]. f_equal. apply IH. tauto.
  Qed.

  Lemma length_aset : forall k v m,
    length (aset k v m) = match aget k m with Some _ => length m | None => S (length m) end.
  Proof.
    induction m as [|[k' v'] m IH]; cbn; auto.
    destruct (eqd k k'); cbn; auto. rewrite IH. destruct (aget k m); auto.
  Qed.

  Lemma length_adel : forall k m, NoDup (akeys m) ->
    length (adel k m) = match aget k m with Some _ => pred (length m) | None => length m end.
  Proof.
    induction m as [|[k' v'] m IH]; cbn; intros H; auto.
    inversion H; subst. destruct (eqd k k'); cbn.
    - subst. rewrite adel_notin; auto.
    - rewrite IH; auto. destruct (aget k m) eqn:E; auto.
      destruct m; cbn in *; [discriminate|auto].
  Qed.

  Lemma acount_aset : forall p k v m, NoDup (akeys m) ->
    Z.of_nat (acount p (aset k v m)) =
    (Z.of_nat (acount p m) - b2z (match aget k m with Some o => p o | None => false end) + b2z (p v))%Z.
  Proof.
    unfold acount, avals. induction m as [|[k' v'] m IH]; cbn; intros H.
    - destruct (p v); cbn; lia.
    - inversion H; subst. destruct (eqd k k'); cbn.
      + destruct (p v), (p v'); cbn [length b2z]; lia.
      + specialize (IH H3). destruct (p v'); cbn [length]; rewrite ?Nat2Z.inj_succ; lia.
  Qed.

  Lemma acount_adel : forall p k m, NoDup (akeys m) ->
    Z.of_nat (acount p (adel k m)) =
    (Z.of_nat (acount p m) - b2z (match aget k m with Some o => p o | None => false end))%Z.
  Proof.
    unfold acount, avals. induction m as [|[k' v'] m IH]; cbn; intros H.
    - lia.
    - inversion H; subst. destruct (eqd k k'); cbn.
      + subst. rewrite adel_notin; auto. destruct (p v'); cbn [length b2z]; lia.
      + specialize (IH H3). destruct (p v'); cbn [length]; rewrite ?Nat2Z.inj_succ; lia.
  Qed.

  Lemma in_avals_aget : forall v m, NoDup (akeys m) -> (In v (avals m) <-> exists k, aget k m = Some v).
  Proof.
    intros v m Hn. unfold avals. rewrite in_map_iff. split.
    - intros [[k v'] [E Hin]]. cbn in E. subst. exists k. apply In_aget_nodup; auto.
    - intros [k H]. exists (k, v). split; auto. apply aget_In; auto.
  Qed.
End AMapProofs.

Section ASetProofs.
  Context {K : Type} (eqd : forall a b : K, {a = b} + {a <> b}).
  Notation smem := (@smem K eqd).
  Notation sadd := (@sadd K eqd).
  Notation sdel := (@sdel K eqd).

  Lemma smem_In : forall k l, smem k l = true <-> In k l.
  Proof.
    induction l as [|k' l IH]; cbn.
    - split; [discriminate | tauto].
    - destruct (eqd k k').
      + subst. tauto.
      + rewrite IH. split; [auto | intros [H|H]; congruence].
  Qed.

  Lemma smem_false : forall k l, smem k l = false <-> ~ In k l.
  Proof.
    intros. rewrite <- smem_In. destruct (smem k l); split; congruence.
  Qed.

  Lemma in_sadd : forall k k' l, In k' (sadd k l) <-> k' = k \/ In k' l.
  Proof.
    intros. unfold sadd. destruct (smem k l) eqn:E.
    - apply smem_In in E. split; [auto | intros [H|H]; subst; auto].
    - rewrite in_app_iff. cbn. split; [intros [H|[H|[]]]; auto | intros [H|H]; auto].
  Qed.

  Lemma in_sdel : forall k k' l, In k' (sdel k l) <-> k' <> k /\ In k' l.
  Proof.
    induction l as [|k2 l IH]; cbn.
    - tauto.
    - destruct (eqd k k2); cbn.
      + subst. rewrite IH. split; [tauto | intros [H1 [H2|H2]]; [congruence|auto]].
      + rewrite IH. split.
        * intros [H|[H1 H2]]; [subst; split; auto; congruence | tauto].
        * intros [H1 [H2|H2]]; auto.
  Qed.

  Lemma nodup_sadd : forall k l, NoDup l -> NoDup (sadd k l).
  Proof.
    intros. unfold sadd. destruct (smem k l) eqn:E; auto.
    apply smem_false in E. apply NoDup_app_snoc; auto.
  Qed.

  Lemma nodup_sdel : forall k l, NoDup l -> NoDup (sdel k l).
  Proof.
    induction l as [|k2 l IH]; cbn; intros H; auto.
    inversion H; subst. destruct (eqd k k2); auto.
    constructor; auto. rewrite in_sdel. tauto.
  Qed.

  Lemma sdel_notin : forall k l, ~ In k l -> sdel k l = l.
  Proof.
    induction l as [|k2 l IH]; cbn; intros H; auto.
    destruct (eqd k k2); [subst; tauto|]. f_equal. apply IH; tauto.
  Qed.

  Lemma length_sdel : forall k l, NoDup l -> In k l -> S (length (sdel k l)) = length l.
  Proof.
    induction l as [|k2 l IH]; cbn; intros Hn H; [tauto|].
    inversion Hn; subst. destruct (eqd k k2); cbn.
    - subst. rewrite sdel_notin; auto.
    - f_equal. apply IH; auto. destruct H; congruence.
  Qed.
End ASetProofs.

Section AMapMap.
  Context {K V : Type} (eqd : forall a b : K, {a = b} + {a <> b}).

  Lemma aget_map_vals : forall (f : K -> V -> V) k (m : list (K * V)),
    aget eqd k (map (fun e => (fst e, f (fst e) (snd e))) m) = option_map (f k) (aget eqd k m).
  Proof.
    induction m as [|[k' v'] m IH]; cbn; auto. destruct (eqd k k'); subst; auto.
  Qed.

  Lemma akeys_map_vals : forall (f : K -> V -> V) (m : list (K * V)),
    akeys (map (fun e => (fst e, f (fst e) (snd e))) m) = akeys m.
  Proof. intros. unfold akeys. rewrite map_map. reflexivity. Qed.
End AMapMap.

Lemma fold_left_inv : forall {A B} (P : A -> Prop) (f : A -> B -> A) l a,
  (forall a x, P a -> P (f a x)) -> P a -> P (fold_left f l a).
Proof. induction l; cbn; auto. Qed.
