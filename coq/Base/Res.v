(** Common result type: Ok / Err (anyhow error) / Panic (index out of range, overflow). *)
From Coq Require Export List NArith ZArith Bool Lia.
Export ListNotations.

Inductive res (A : Type) : Type :=
| Ok (a : A)
| Err
| Panic.
Arguments Ok {A} a.
Arguments Err {A}.
Arguments Panic {A}.

Definition res_map {A B} (f : A -> B) (r : res A) : res B :=
  match r with Ok a => Ok (f a) | Err => Err | Panic => Panic end.

Definition res_bind {A B} (r : res A) (f : A -> res B) : res B :=
  match r with Ok a => f a | Err => Err | Panic => Panic end.

(** byte lists: a byte is an [N] below 256 *)
Definition byte := N.
Definition bytes := list N.
Definition is_byte (b : N) : Prop := (b < 256)%N.
Definition all_bytes (l : list N) : Prop := Forall is_byte l.
Definition is_byteb (b : N) : bool := (b <? 256)%N.
Definition all_bytesb (l : list N) : bool := forallb is_byteb l.

Global Arguments N.add : simpl never.
Global Arguments N.sub : simpl never.
Global Arguments N.mul : simpl never.
Global Arguments N.div : simpl never.
Global Arguments N.modulo : simpl never.
Global Arguments N.eqb : simpl never.
Global Arguments N.ltb : simpl never.
Global Arguments N.leb : simpl never.
Global Arguments N.pow : simpl never.
Global Arguments N.shiftl : simpl never.
Global Arguments N.shiftr : simpl never.
Global Arguments N.land : simpl never.
Global Arguments N.lor : simpl never.
