(** Finite maps / sets as strictly sorted association lists over a boolean-free
    three-way comparison.  Used to model BTreeMap / BTreeSet (iteration order = sorted
    order) and HashMap / HashSet (iteration order unspecified: the sorted list is the
    canonical representative).  Executable definitions only; proofs are in SMapProofs.v. *)
From Coq Require Export List.
Export ListNotations.

Section SMap.
  Context {K V : Type}.
  Variable cmp : K -> K -> comparison.

  Fixpoint sm_get (m : list (K * V)) (k : K) : option V :=
    match m with
    | [] => None
    | (k', v) :: m' =>
        match cmp k k' with
        | Eq => Some v
        | Lt => None
        | Gt => sm_get m' k
        end
    end.

  Fixpoint sm_put (m : list (K * V)) (k : K) (v : V) : list (K * V) :=
    match m with
    | [] => [(k, v)]
    | (k', v') :: m' =>
        match cmp k k' with
        | Eq => (k, v) :: m'
        | Lt => (k, v) :: m
        | Gt => (k', v') :: sm_put m' k v
        end
    end.

  Fixpoint sm_del (m : list (K * V)) (k : K) : list (K * V) :=
    match m with
    | [] => []
    | (k', v') :: m' =>
        match cmp k k' with
        | Eq => m'
        | Lt => m
        | Gt => (k', v') :: sm_del m' k
        end
    end.

  Definition sm_mem (m : list (K * V)) (k : K) : bool :=
    match sm_get m k with Some _ => true | None => false end.

  Definition sm_keys (m : list (K * V)) : list K := map fst m.

  (** strictly increasing keys *)
  Fixpoint sm_wf (m : list (K * V)) : Prop :=
    match m with
    | [] => True
    | (k, _) :: m' => Forall (fun kv => cmp k (fst kv) = Lt) m' /\ sm_wf m'
    end.
End SMap.

(** the laws a comparison must satisfy *)
Record cmp_ok {K : Type} (cmp : K -> K -> comparison) : Prop := {
  cmp_eq : forall a b, cmp a b = Eq <-> a = b;
  cmp_opp : forall a b, cmp b a = CompOpp (cmp a b);
  cmp_lt_trans : forall a b c, cmp a b = Lt -> cmp b c = Lt -> cmp a c = Lt;
}.

(** sets: maps to unit *)
Definition sset (K : Type) := list (K * unit).
Definition ss_mem {K} (cmp : K -> K -> comparison) (s : sset K) (k : K) : bool := sm_mem cmp s k.
Definition ss_add {K} (cmp : K -> K -> comparison) (s : sset K) (k : K) : sset K := sm_put cmp s k tt.
Definition ss_del {K} (cmp : K -> K -> comparison) (s : sset K) (k : K) : sset K := sm_del cmp s k.
Definition ss_elems {K} (s : sset K) : list K := map fst s.
Definition ss_is_empty {K} (s : sset K) : bool := match s with [] => true | _ => false end.
