(** Proofs for C09 about the config store model: invariants over all histories, last write
    wins, md5 = H content, index = listed keys, removed keys are not listed. *)
From RN Require Import Base.SMap Base.SMapProofs SM.ConfigKey SM.ConfigKeyProofs SM.ConfigIndex
     SM.ConfigIndexProofs SM.Config SM.ConfigSpec.
From Coq Require Import ZifyBool ZifyNat ZifyN.
Local Open Scope N_scope.

Local Notation KOK := key_cmp_ok.

Lemma key_cmp_match_eqb {A} a b (x y : A) :
  match key_cmp a b with Eq => x | _ => y end = if key_eqb a b then x else y.
Proof. unfold key_eqb. destruct (key_cmp a b); reflexivity. Qed.

Lemma key_eqb_refl k : key_eqb k k = true.
Proof. apply key_eqb_eq. reflexivity. Qed.

Lemma key_eqb_sym a b : key_eqb a b = key_eqb b a.
Proof.
  destruct (key_eqb a b) eqn:E.
  - apply key_eqb_eq in E. subst. symmetry. apply key_eqb_refl.
  - symmetry. destruct (key_eqb b a) eqn:E2; auto. apply key_eqb_eq in E2. subst.
    rewrite key_eqb_refl in E. discriminate.
Qed.

Lemma key_eqb_neq a b : key_eqb a b = false <-> a <> b.
Proof. rewrite <- key_eqb_eq. destruct (key_eqb a b); split; congruence. Qed.

Section P.
  Variable H : str -> str.

  Lemma cget_put c i q k v k' :
    cache_get (mkStore (sm_put key_cmp c k v) i q) k' = if key_eqb k k' then Some v else sm_get key_cmp c k'.
  Proof.
    unfold cache_get. cbn [st_cache]. rewrite (get_put _ KOK), key_cmp_match_eqb, (key_eqb_sym k' k). reflexivity.
  Qed.

  Lemma cget_del c i q k k' : sm_wf key_cmp c ->
    cache_get (mkStore (sm_del key_cmp c k) i q) k' = if key_eqb k k' then None else sm_get key_cmp c k'.
  Proof.
    intros W. unfold cache_get. cbn [st_cache]. rewrite (get_del _ KOK) by exact W.
    rewrite key_cmp_match_eqb, (key_eqb_sym k' k). reflexivity.
  Qed.

  Record store_inv (s : store) : Prop := mkInv {
    inv_cache : sm_wf key_cmp (st_cache s);
    inv_index : ti_wf (st_index s);
    inv_md5 : forall k v, cache_get s k = Some v -> cv_md5 v = H (cv_content v);
    inv_listed : forall k, ti_mem (st_index s) k = true -> cache_get s k <> None;
    inv_unlisted : forall k v, cache_get s k = Some v -> ti_mem (st_index s) k = false ->
                               cv_tmp v = true /\ cv_hist v = [];
  }.

  Lemma inv_new : store_inv store_new.
  Proof.
    constructor; cbn; auto.
    - apply ti_wf_new.
    - discriminate.
    - discriminate.
    - discriminate.
  Qed.

  (** ** pointwise effect of the four primitives *)
  Definition tmp_value (prev : option cvalue) (val : str) (now : N) : cvalue :=
    match prev with
    | Some v => if str_eqb (cv_md5 v) (H val) then v
                else mkVal val (H val) true (cv_hist v) (cv_type v) (cv_desc v) (cv_lastmod v)
    | None => mkVal val (H val) true [] None None now
    end.

  Lemma tmp_get s k val now k' : sm_wf key_cmp (st_cache s) ->
    cache_get (set_tmp_config H s k val now) k' =
    if key_eqb k k' then Some (tmp_value (cache_get s k) val now) else cache_get s k'.
  Proof.
    intros W. unfold set_tmp_config, tmp_value.
    destruct (cache_get s k) as [v|] eqn:G.
    - destruct (str_eqb (cv_md5 v) (H val)).
      + destruct (key_eqb k k') eqn:E; auto. apply key_eqb_eq in E. subst. auto.
      + rewrite cget_put. reflexivity.
    - rewrite cget_put. reflexivity.
  Qed.

  Lemma tmp_index s k val now : st_index (set_tmp_config H s k val now) = st_index s.
  Proof.
    unfold set_tmp_config. destruct (cache_get s k) as [v|]; [destruct (str_eqb _ _)|]; reflexivity.
  Qed.

  Lemma tmp_seq s k val now : st_seq (set_tmp_config H s k val now) = st_seq s.
  Proof.
    unfold set_tmp_config. destruct (cache_get s k) as [v|]; [destruct (str_eqb _ _)|]; reflexivity.
  Qed.

  Lemma tmp_cache_wf s k val now : sm_wf key_cmp (st_cache s) -> sm_wf key_cmp (st_cache (set_tmp_config H s k val now)).
  Proof.
    intros W. unfold set_tmp_config.
    destruct (cache_get s k) as [v|]; [destruct (str_eqb _ _)|]; cbn [st_cache]; auto;
      apply (wf_put _ KOK); auto.
  Qed.

  Lemma tmp_inv s k val now : store_inv s -> store_inv (set_tmp_config H s k val now).
  Proof.
    intros I. destruct I as [W Wi M L U]. constructor.
    - apply tmp_cache_wf. exact W.
    - rewrite tmp_index. exact Wi.
    - intros k' v'. rewrite tmp_get by exact W. destruct (key_eqb k k') eqn:E.
      + intros [= <-]. unfold tmp_value. destruct (cache_get s k) as [v|] eqn:G.
        * destruct (str_eqb (cv_md5 v) (H val)); [eauto|reflexivity].
        * reflexivity.
      + apply M.
    - intros k'. rewrite tmp_index, tmp_get by exact W. destruct (key_eqb k k'); [discriminate|apply L].
    - intros k' v'. rewrite tmp_index, tmp_get by exact W. destruct (key_eqb k k') eqn:E.
      + apply key_eqb_eq in E. subst k'. intros [= <-] Un. unfold tmp_value.
        destruct (cache_get s k) as [v|] eqn:G.
        * destruct (U _ _ G Un) as [T Hi]. destruct (str_eqb (cv_md5 v) (H val)); cbn; auto.
        * cbn. auto.
      + apply U.
  Qed.

  Lemma inner_get s k v k' :
    cache_get (inner_set_config s k v) k' = if key_eqb k k' then Some v else cache_get s k'.
  Proof. unfold inner_set_config. apply cget_put. Qed.

  Lemma inner_mem s k v k' :
    ti_mem (st_index (inner_set_config s k v)) k' = key_eqb k k' || ti_mem (st_index s) k'.
  Proof. unfold inner_set_config. cbn [st_index]. apply ti_insert_mem. Qed.

  Lemma inner_inv s k v : store_inv s -> cv_md5 v = H (cv_content v) -> store_inv (inner_set_config s k v).
  Proof.
    intros [W Wi M L U] Mv. constructor.
    - unfold inner_set_config. cbn [st_cache]. apply (wf_put _ KOK). exact W.
    - unfold inner_set_config. cbn [st_index]. apply ti_insert_wf. exact Wi.
    - intros k' v'. rewrite inner_get. destruct (key_eqb k k'); [intros [= <-]; exact Mv|apply M].
    - intros k'. rewrite inner_get, inner_mem. destruct (key_eqb k k'); [discriminate|apply L].
    - intros k' v'. rewrite inner_get, inner_mem. destruct (key_eqb k k'); [discriminate|apply U].
  Qed.

  Lemma del_get s k k' : sm_wf key_cmp (st_cache s) ->
    cache_get (del_config s k) k' = if key_eqb k k' then None else cache_get s k'.
  Proof. intros W. unfold del_config. apply cget_del. exact W. Qed.

  Lemma del_mem s k k' : ti_wf (st_index s) ->
    ti_mem (st_index (del_config s k)) k' = negb (key_eqb k k') && ti_mem (st_index s) k'.
  Proof. intros W. unfold del_config. cbn [st_index]. apply ti_remove_mem. exact W. Qed.

  Lemma del_inv s k : store_inv s -> store_inv (del_config s k).
  Proof.
    intros [W Wi M L U]. constructor.
    - unfold del_config. cbn [st_cache]. apply wf_del. exact W.
    - unfold del_config. cbn [st_index]. apply ti_remove_wf. exact Wi.
    - intros k' v'. rewrite del_get by exact W. destruct (key_eqb k k'); [discriminate|apply M].
    - intros k'. rewrite del_get, del_mem by assumption. destruct (key_eqb k k'); [discriminate|apply L].
    - intros k' v'. rewrite del_get, del_mem by assumption. destruct (key_eqb k k'); [discriminate|apply U].
  Qed.

  (** the value stored for the key of a publish, given the previous one *)
  Definition with_meta (v : cvalue) (t d : option str) : cvalue :=
    mkVal (cv_content v) (cv_md5 v) (cv_tmp v) (cv_hist v) (merge t (cv_type v)) (merge d (cv_desc v)) (cv_lastmod v).

  Definition set_value (prev : option cvalue) (p : set_param) : cvalue :=
    match prev with
    | Some v =>
        let v2 := with_meta v (sp_type p) (sp_desc p) in
        if negb (cv_tmp v2) && str_eqb (cv_md5 v2) (H (sp_value p)) then v2
        else update_value H v2 (sp_value p) (sp_hid p) (sp_time p) (Some (H (sp_value p))) (sp_user p)
    | None =>
        mkVal (sp_value p) (H (sp_value p)) false [mkHist (sp_hid p) (sp_value p) (sp_time p) (sp_user p)]
              (sp_type p) (sp_desc p) (sp_time p)
    end.

  Definition set_changed (prev : option cvalue) (p : set_param) : bool :=
    match prev with
    | Some v => negb (negb (cv_tmp v) && str_eqb (cv_md5 v) (H (sp_value p)))
    | None => true
    end.

  Lemma with_meta_eq v t d :
    match d with
    | Some d0 => let v1 := match t with
                           | Some t0 => mkVal (cv_content v) (cv_md5 v) (cv_tmp v) (cv_hist v) (Some t0) (cv_desc v) (cv_lastmod v)
                           | None => v end in
                 mkVal (cv_content v1) (cv_md5 v1) (cv_tmp v1) (cv_hist v1) (cv_type v1) (Some d0) (cv_lastmod v1)
    | None => match t with
              | Some t0 => mkVal (cv_content v) (cv_md5 v) (cv_tmp v) (cv_hist v) (Some t0) (cv_desc v) (cv_lastmod v)
              | None => v end
    end = with_meta v t d.
  Proof. unfold with_meta, merge. destruct v, t, d; reflexivity. Qed.

  Lemma set_get s p k' :
    cache_get (fst (set_config H s p)) k' =
    if key_eqb (sp_key p) k' then Some (set_value (cache_get s (sp_key p)) p) else cache_get s k'.
  Proof.
    unfold set_config, set_value.
    destruct (cache_get s (sp_key p)) as [v|] eqn:G.
    - cbv zeta. rewrite with_meta_eq.
      destruct (negb (cv_tmp (with_meta v (sp_type p) (sp_desc p))) &&
                str_eqb (cv_md5 (with_meta v (sp_type p) (sp_desc p))) (H (sp_value p))); cbn [fst];
        rewrite cget_put; reflexivity.
    - cbn [fst]. rewrite cget_put. reflexivity.
  Qed.

  Lemma set_snd s p : snd (set_config H s p) = set_changed (cache_get s (sp_key p)) p.
  Proof.
    unfold set_config, set_changed.
    destruct (cache_get s (sp_key p)) as [v|] eqn:G; [|reflexivity].
    cbv zeta. rewrite with_meta_eq. unfold with_meta. cbn [cv_tmp cv_md5].
    destruct (negb (cv_tmp v) && str_eqb (cv_md5 v) (H (sp_value p))); reflexivity.
  Qed.

  Lemma set_mem s p k' : store_inv s ->
    ti_mem (st_index (fst (set_config H s p))) k' = key_eqb (sp_key p) k' || ti_mem (st_index s) k'.
  Proof.
    intros [W Wi M L U]. unfold set_config.
    destruct (cache_get s (sp_key p)) as [v|] eqn:G.
    - cbv zeta. rewrite with_meta_eq.
      assert (Already : cv_tmp v = false \/ cv_hist v <> [] -> ti_mem (st_index s) (sp_key p) = true).
      { intros C. destruct (ti_mem (st_index s) (sp_key p)) eqn:T; auto.
        destruct (U _ _ G T) as [A B]. destruct C; congruence. }
      assert (Same : ti_mem (st_index s) (sp_key p) = true ->
                     ti_mem (st_index s) k' = key_eqb (sp_key p) k' || ti_mem (st_index s) k').
      { intros T. destruct (key_eqb (sp_key p) k') eqn:E; auto. apply key_eqb_eq in E. subst. auto. }
      unfold with_meta at 1 2. cbn [cv_tmp cv_md5].
      destruct (negb (cv_tmp v) && str_eqb (cv_md5 v) (H (sp_value p))) eqn:C; cbn [fst st_index].
      + apply Same, Already. left. destruct (cv_tmp v); [discriminate|reflexivity].
      + unfold with_meta. cbn [cv_hist]. destruct (cv_hist v) eqn:Hi.
        * apply ti_insert_mem.
        * apply Same, Already. right. congruence.
    - cbn [fst st_index]. apply ti_insert_mem.
  Qed.

  Lemma set_index_wf s p : ti_wf (st_index s) -> ti_wf (st_index (fst (set_config H s p))).
  Proof.
    intros Wi. unfold set_config. destruct (cache_get s (sp_key p)) as [v|].
    - cbv zeta. rewrite with_meta_eq.
      destruct (negb _ && _); cbn [fst st_index]; auto.
      destruct (cv_hist _); auto. apply ti_insert_wf. exact Wi.
    - cbn [fst st_index]. apply ti_insert_wf. exact Wi.
  Qed.

  Lemma set_cache_wf s p : sm_wf key_cmp (st_cache s) -> sm_wf key_cmp (st_cache (fst (set_config H s p))).
  Proof.
    intros W. unfold set_config. destruct (cache_get s (sp_key p)) as [v|].
    - cbv zeta. destruct (negb _ && _); cbn [fst st_cache]; apply (wf_put _ KOK); exact W.
    - cbn [fst st_cache]. apply (wf_put _ KOK). exact W.
  Qed.

  Lemma set_value_md5 prev p :
    (forall v, prev = Some v -> cv_md5 v = H (cv_content v)) ->
    cv_md5 (set_value prev p) = H (cv_content (set_value prev p)).
  Proof.
    intros M. unfold set_value. destruct prev as [v|]; [|reflexivity].
    cbv zeta. destruct (negb _ && _).
    - unfold with_meta. cbn. apply M. reflexivity.
    - reflexivity.
  Qed.

  Lemma set_inv s p : store_inv s -> store_inv (fst (set_config H s p)).
  Proof.
    intros I. pose proof I as [W Wi M L U]. constructor.
    - apply set_cache_wf. exact W.
    - apply set_index_wf. exact Wi.
    - intros k' v'. rewrite set_get. destruct (key_eqb (sp_key p) k').
      + intros [= <-]. apply set_value_md5. intros v E. eapply M. exact E.
      + apply M.
    - intros k'. rewrite set_get, set_mem by exact I. destruct (key_eqb (sp_key p) k'); [discriminate|apply L].
    - intros k' v'. rewrite set_get, set_mem by exact I. destruct (key_eqb (sp_key p) k'); [discriminate|apply U].
  Qed.

  (** ** one step, whole histories *)
  Lemma value_of_do_md5 d : cv_md5 (value_of_do H d) = H (cv_content (value_of_do H d)).
  Proof. reflexivity. Qed.

  Lemma sstep_inv s o : store_inv s -> store_inv (sstep H s o).
  Proof.
    intros I. destruct o as [c|k v now]; cbn [sstep]; [|apply tmp_inv; exact I].
    destruct c as [ks value ctype desc hid tid time user|ks|k d last]; cbn [apply_raft].
    - destruct (set_config H s _) as [s' b] eqn:E. cbn [fst].
      replace s' with (fst (set_config H s (param_of_add ks value ctype desc hid tid time user))) by (rewrite E; reflexivity).
      apply set_inv. exact I.
    - cbn [fst]. apply del_inv. exact I.
    - cbn [fst]. pose proof (inner_inv s k (value_of_do H d) I (value_of_do_md5 d)) as [W Wi M L U].
      destruct last; [|constructor; auto]. constructor; auto.
  Qed.

  Lemma srun_from_inv s ops : store_inv s -> store_inv (srun_from H s ops).
  Proof.
    revert s. induction ops as [|o ops IH]; intros s I; cbn [srun_from fold_left]; auto.
    apply IH. apply sstep_inv. exact I.
  Qed.

  Theorem srun_inv ops : store_inv (srun H ops).
  Proof. apply srun_from_inv. apply inv_new. Qed.

  (** ** frame: operations on other keys do not change what is stored / listed for [k] *)
  Lemma sstep_get s o k' : store_inv s ->
    cache_get (sstep H s o) k' =
    if key_eqb (op_key o) k' then cache_get (sstep H s o) (op_key o) else cache_get s k'.
  Proof.
    intros I. destruct (key_eqb (op_key o) k') eqn:E.
    - apply key_eqb_eq in E. subst. reflexivity.
    - destruct o as [c|k v now]; cbn [sstep op_key] in *.
      + destruct c as [ks value ctype desc hid tid time user|ks|k d last]; cbn [apply_raft raft_key] in *.
        * destruct (set_config H s _) as [s' b] eqn:Es. cbn [fst].
          replace s' with (fst (set_config H s (param_of_add ks value ctype desc hid tid time user))) by (rewrite Es; reflexivity).
          rewrite set_get. unfold param_of_add. cbn [sp_key]. rewrite E. reflexivity.
        * cbn [fst]. rewrite del_get by apply I. rewrite E. reflexivity.
        * cbn [fst]. assert (G : cache_get (inner_set_config s k (value_of_do H d)) k' = cache_get s k').
          { rewrite inner_get, E. reflexivity. }
          destruct last; exact G.
      + rewrite tmp_get by apply I. rewrite E. reflexivity.
  Qed.

  Lemma srun_from_frame s ops k : store_inv s ->
    (forall o, In o ops -> op_key o <> k) -> cache_get (srun_from H s ops) k = cache_get s k.
  Proof.
    revert s. induction ops as [|o ops IH]; intros s I N; cbn [srun_from fold_left]; auto.
    fold (srun_from H (sstep H s o) ops). rewrite IH.
    - rewrite sstep_get by exact I.
      assert (E : key_eqb (op_key o) k = false) by (apply key_eqb_neq; apply N; left; reflexivity).
      rewrite E. reflexivity.
    - apply sstep_inv. exact I.
    - intros o' In'. apply N. right. exact In'.
  Qed.

  Lemma srun_app ops1 ops2 : srun H (ops1 ++ ops2) = srun_from H (srun H ops1) ops2.
  Proof. unfold srun, srun_from. apply fold_left_app. Qed.

  Lemma get4_cache s k :
    get4 s k = option_map (fun v => (cv_content v, cv_md5 v, cv_type v, cv_desc v)) (cache_get s k).
  Proof. unfold get4, get_config. destruct (cache_get s k); reflexivity. Qed.

  (** ** last write wins *)
  Hypothesis Hinj : forall a b, H a = H b -> a = b.

  Definition view_of (v : cvalue) : view := (cv_content v, cv_md5 v, cv_type v, cv_desc v).

  Lemma set_value_view prev p :
    (forall v, prev = Some v -> cv_md5 v = H (cv_content v)) ->
    view_of (set_value prev p) =
    match prev with
    | Some v => (sp_value p, H (sp_value p), merge (sp_type p) (cv_type v), merge (sp_desc p) (cv_desc v))
    | None => (sp_value p, H (sp_value p), sp_type p, sp_desc p)
    end.
  Proof.
    intros M. unfold set_value. destruct prev as [v|]; [|reflexivity]. cbv zeta.
    destruct (negb (cv_tmp (with_meta v (sp_type p) (sp_desc p))) &&
              str_eqb (cv_md5 (with_meta v (sp_type p) (sp_desc p))) (H (sp_value p))) eqn:C.
    - apply andb_prop in C. destruct C as [_ C]. apply str_eqb_eq in C.
      unfold with_meta, view_of in *. cbn [cv_md5 cv_content cv_type cv_desc] in *.
      rewrite (M v eq_refl) in C. apply Hinj in C. rewrite <- C, (M v eq_refl). reflexivity.
    - reflexivity.
  Qed.

  Lemma sstep_expected s o : store_inv s ->
    get4 (sstep H s o) (op_key o) = expected H (get4 s (op_key o)) o.
  Proof.
    intros I. rewrite !get4_cache. fold view_of. destruct o as [c|k v now]; cbn [sstep op_key expected].
    - destruct c as [ks value ctype desc hid tid time user|ks|k d last]; cbn [apply_raft raft_key].
      + destruct (set_config H s _) as [s' b] eqn:Es. cbn [fst].
        remember (param_of_add ks value ctype desc hid tid time user) as p eqn:Ep.
        replace s' with (fst (set_config H s p)) by (rewrite Es; reflexivity).
        assert (Ek : sp_key p = key_of_string ks) by (subst p; reflexivity).
        rewrite set_get, Ek, key_eqb_refl. cbn [option_map].
        rewrite set_value_view by (intros v0 E0; eapply (inv_md5 _ I); exact E0).
        subst p. cbn [param_of_add sp_value sp_type sp_desc].
        destruct (cache_get s (key_of_string ks)); reflexivity.
      + cbn [fst]. rewrite del_get by apply I. rewrite key_eqb_refl. reflexivity.
      + cbn [fst]. assert (G : cache_get (inner_set_config s k (value_of_do H d)) k = Some (value_of_do H d)).
        { rewrite inner_get, key_eqb_refl. reflexivity. }
        destruct last; unfold cache_get in *; cbn [st_cache] in *; rewrite G; reflexivity.
    - rewrite tmp_get by apply I. rewrite key_eqb_refl. cbn [option_map]. unfold tmp_value, view_of.
      destruct (cache_get s k) as [v0|] eqn:G; cbn [option_map]; [|reflexivity].
      destruct (str_eqb (cv_md5 v0) (H v)) eqn:C; [|reflexivity].
      apply str_eqb_eq in C. rewrite (inv_md5 _ I _ _ G) in C. apply Hinj in C. rewrite C.
      rewrite (inv_md5 _ I _ _ G), C. reflexivity.
  Qed.

  Theorem get_is_last_write pre o post :
    (forall o', In o' post -> op_key o' <> op_key o) ->
    get4 (srun H (pre ++ o :: post)) (op_key o) = expected H (get4 (srun H pre) (op_key o)) o.
  Proof.
    intros N. rewrite srun_app. cbn [srun_from fold_left]. fold (srun_from H (sstep H (srun H pre) o) post).
    rewrite get4_cache, srun_from_frame; auto.
    - rewrite <- get4_cache. apply sstep_expected. apply srun_inv.
    - apply sstep_inv. apply srun_inv.
  Qed.

  Theorem get_never_written ops k :
    (forall o, In o ops -> op_key o <> k) -> get4 (srun H ops) k = None.
  Proof.
    intros N. rewrite get4_cache. unfold srun. rewrite srun_from_frame; auto. apply inv_new.
  Qed.
End P.
