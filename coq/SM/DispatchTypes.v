(** Vocabulary of the dispatch tables that translators/dispatch.py generates from
    src/raft/filestore/raftdata.rs (Gen/DispatchTables.v).  Model only: no proofs. *)
From Coq Require Export List String Bool.
Export ListNotations.

(** enum ClientRequest (src/raft/store/mod.rs) *)
Inductive variant :=
| VNodeAddr | VMembers | VConfigSet | VConfigFullValue | VConfigRemove | VTableManagerReq
| VNamespaceReq | VSequenceReq | VMcpReq | VNamingReq | VCacheReq.

(** the actors a RaftDataHandler talks to (7 fields of the struct + the index manager argument) *)
Inductive actor :=
| AIndex | ASequence | AConfig | ATable | ANamespace | AMcp | ANaming | ACache.

(** message constructors: [CPass] = the request payload itself is the message *)
Inductive ctor :=
| CPass | CAddNodeAddr | CSaveMember | CConfigAdd | CSetFullValue | CConfigRemove.

(** preparation before the send: [PDecodeFull] is the only fallible one
    (ConfigValueDO::from_bytes(&value)? — the arm returns Err before anything is sent) *)
Inductive prep := PNone | PDecodeFull.

(** how the message is delivered *)
Inductive mode :=
| MAwaitErr   (* .send(m).await??      : wait for the handler, propagate its error *)
| MAwaitOk    (* .send(m).await.ok()   : wait for the handler, drop its result *)
| MDoSend.    (* .do_send(m)           : enqueue only *)

Inductive resp := RNone | RSuccess | RSequenceResp | RMcpResp | RNamingResp | RCacheResp.

Record row := mkRow {
  r_variant : variant;
  r_binders : list (string * string);   (* enum field -> local name bound by the pattern *)
  r_prep : prep;
  r_actor : actor;
  r_ctor : ctor;
  r_wiring : list (string * string);    (* message field -> source expression *)
  r_mode : mode;
  r_resp : resp }.

Definition variant_eqb (a b : variant) : bool :=
  match a, b with
  | VNodeAddr, VNodeAddr | VMembers, VMembers | VConfigSet, VConfigSet
  | VConfigFullValue, VConfigFullValue | VConfigRemove, VConfigRemove
  | VTableManagerReq, VTableManagerReq | VNamespaceReq, VNamespaceReq
  | VSequenceReq, VSequenceReq | VMcpReq, VMcpReq | VNamingReq, VNamingReq
  | VCacheReq, VCacheReq => true
  | _, _ => false
  end.

Definition actor_eqb (a b : actor) : bool :=
  match a, b with
  | AIndex, AIndex | ASequence, ASequence | AConfig, AConfig | ATable, ATable
  | ANamespace, ANamespace | AMcp, AMcp | ANaming, ANaming | ACache, ACache => true
  | _, _ => false
  end.

Definition ctor_eqb (a b : ctor) : bool :=
  match a, b with
  | CPass, CPass | CAddNodeAddr, CAddNodeAddr | CSaveMember, CSaveMember
  | CConfigAdd, CConfigAdd | CSetFullValue, CSetFullValue | CConfigRemove, CConfigRemove => true
  | _, _ => false
  end.

Definition prep_eqb (a b : prep) : bool :=
  match a, b with PNone, PNone | PDecodeFull, PDecodeFull => true | _, _ => false end.

Definition pair_eqb (a b : string * string) : bool :=
  String.eqb (fst a) (fst b) && String.eqb (snd a) (snd b).

Fixpoint list_eqb {A} (eqb : A -> A -> bool) (l1 l2 : list A) : bool :=
  match l1, l2 with
  | [], [] => true
  | x :: l1', y :: l2' => eqb x y && list_eqb eqb l1' l2'
  | _, _ => false
  end.

(** two rows agree on everything but the delivery mode and the (leader-only) response *)
Definition row_same_dispatch (a b : row) : bool :=
  variant_eqb (r_variant a) (r_variant b) && list_eqb pair_eqb (r_binders a) (r_binders b)
  && prep_eqb (r_prep a) (r_prep b) && actor_eqb (r_actor a) (r_actor b)
  && ctor_eqb (r_ctor a) (r_ctor b) && list_eqb pair_eqb (r_wiring a) (r_wiring b).

Definition lookup (t : list row) (v : variant) : option row :=
  find (fun r => variant_eqb (r_variant r) v) t.

Definition all_variants : list variant :=
  [VNodeAddr; VMembers; VConfigSet; VConfigFullValue; VConfigRemove; VTableManagerReq;
   VNamespaceReq; VSequenceReq; VMcpReq; VNamingReq; VCacheReq].
