(** Non-vacuity of the concrete corollaries (C01_restart_reproduces_config_seq,
    C07_same_state_config_seq): a history over config, sequence and table requests that
    satisfies every hypothesis, with its concrete outcome. *)
From RN Require Import SM.Concrete SM.ReplayProofs SM.SnapCodecProofs SM.ConcreteProofs Codec.BufReaderProofs.
From Coq Require Import Lia.
Local Open Scope N_scope.

Definition b (s : string) : list N := bytes_of_lit s.

(** a toy md5: every theorem holds for all [H] *)
Definition H0 (s : str) : str := rev s.

Definition key1 : str := b "app.yaml" ++ [2] ++ b "DEFAULT_GROUP" ++ [2] ++ b "t1".
Definition key2 : str := b "d2" ++ [2] ++ b "g".

Definition ex_hist : list (entry cmsg) :=
  [Some (KConfig, MCfg (ConfigAdd key1 (b "a: 1") (Some (b "YAML")) None 1 None 10 None));
   Some (KSequence, MSeq (RNextId (b "seq1")));
   Some (KTable, MTab (TSet T_USER_B (b "admin") (b "pw-hash")));
   Some (KConfig, MCfg (ConfigAdd key1 (b "a: 2") None (Some (b "desc")) 2 (Some 100) 20 (Some (b "u1"))));
   None;
   Some (KConfig, MCfg (ConfigAdd key2 (b "x") None None 3 None 30 None));
   Some (KConfig, MCfg (ConfigRemove key2));
   Some (KSequence, MSeq (RNextRange (b "seq1") 100));
   Some (KTable, MTab (TRemove T_USER_B (b "nobody")))].

Definition ex_hdr : list N := [8; 4; 16; 1].

Definition ex_state (n : nat) : node cstate :=
  run cstate cmsg (n_apply H0) (firstn n ex_hist) (init_node cstate n_init).

Lemma ex_entries_ok : Forall (entry_ok cmsg n_mok) ex_hist.
Proof. repeat constructor; try discriminate. Qed.

Ltac solve_wf :=
  repeat first [ exact I | reflexivity | discriminate | split | constructor ].

Lemma ex_ok_at_4 : forall c, n_ok c (ex_state 4 c).
Proof.
  intros c. destruct c;
    match goal with |- n_ok ?c ?st => let st' := eval vm_compute in st in change (n_ok c st') end;
    cbn [n_ok]; try exact I.
  - unfold seq_ok. split; [repeat constructor |].
    match goal with |- Forall _ ?l => let l' := eval vm_compute in l in change (Forall wf_record l') end.
    repeat constructor; solve_wf.
  - unfold cfg_ok. cbn [st_cache st_seq]. split; [| reflexivity].
    repeat constructor; cbn [fst snd];
      try (match goal with |- wf_record ?r => let r' := eval vm_compute in r in change (wf_record r') end);
      solve_wf.
  - unfold tab_ok.
    match goal with |- Forall _ ?l => let l' := eval vm_compute in l in change (Forall wf_record l') end.
    repeat constructor; solve_wf.
Qed.

Lemma ex_hdr_ok : rec_ok ex_hdr /\ (List.length (frame ex_hdr) <= 1024)%nat.
Proof. split; [split; [discriminate | split; [repeat constructor | reflexivity]] | vm_compute; lia]. Qed.

(** the served state after the whole history: key1 holds "a: 2" with two history items and the
    normalised type "yaml"; key2 is gone; seq1's next free id is 102; admin is a user *)
Lemma ex_outcome :
  match ex_state 9 KConfig with
  | SCfg s => option_map (fun v => (cv_content v, cv_type v, cv_desc v, List.length (cv_hist v), cv_lastmod v))
                         (cache_get s (key_of_string key1))
              = Some (b "a: 2", Some (b "yaml"), Some (b "desc"), 2%nat, 20) /\
              cache_get s (key_of_string key2) = None
  | _ => False
  end /\
  ex_state 9 KSequence = SSeq [(b "seq1", 102)] /\
  match ex_state 9 KTable with STab T => tab_get T T_USER_B (b "admin") = Some (b "pw-hash") | _ => False end.
Proof. vm_compute. repeat split. Qed.

(** ** outside [cfg_inv]: a temporary (follower-routed, SetTmpValue) value.  build_snapshot
    writes it like any other value (empty history); the loaded value is no longer temporary and
    is listed.  When the committed ConfigAdd with the same content is then replayed, the live
    node appends its history item (the value was temporary) while the restarted node sees an
    unchanged md5 and records nothing: the history item is lost.  (Model-level observation: it
    needs a follower snapshot inside the SetTmpValue window; not reproduced on the real code.) *)
Definition tmp_key : key := mkKey (b "d") (b "g") [].
Definition tmp_store : store := set_tmp_config H0 store_new tmp_key (b "v") 5.
Definition tmp_add : raft_cmd := ConfigAdd (build_key tmp_key) (b "v") None None 1 None 10 None.

Definition reload (s : store) : cstate :=
  fold_left (cload_routed cstate (n_load H0) KConfig) (n_snap KConfig (SCfg s)) (n_init KConfig).

Lemma tmp_value_snapshot_refuted :
  (* live: listed = false, temporary; after the commit: one history item *)
  ti_mem (st_index tmp_store) tmp_key = false /\
  option_map (fun v => List.length (cv_hist v)) (cache_get (cfg_apply H0 tmp_store tmp_add) tmp_key) = Some 1%nat /\
  (* restarted from a snapshot taken in the window: listed, not temporary; after the commit: no history *)
  match reload tmp_store with
  | SCfg s' => ti_mem (st_index s') tmp_key = true /\
               option_map cv_tmp (cache_get s' tmp_key) = Some false /\
               option_map (fun v => List.length (cv_hist v)) (cache_get (cfg_apply H0 s' tmp_add) tmp_key) = Some 0%nat
  | _ => False
  end.
Proof. vm_compute. repeat split. Qed.
