(** Data-structure lemmas for the ConfigListener model: answering a list of versions, the
    timeout scan, registering a version under several keys. *)
From RN Require Import Base.SMap Base.SMapProofs SM.ConfigKey SM.ConfigKeyProofs SM.Config SM.Listener.
From Coq Require Import ZifyBool ZifyNat ZifyN.
Local Open Scope N_scope.

Local Notation NOK := N_cmp_ok.
Local Notation ZOK := Z_cmp_ok.
Local Notation KOK := key_cmp_ok.

Definition mem_v (v : N) (vs : list N) : bool := existsb (N.eqb v) vs.

Lemma mem_v_In v vs : mem_v v vs = true <-> In v vs.
Proof.
  unfold mem_v. rewrite existsb_exists. split.
  - intros [x [I E]]. apply N.eqb_eq in E. subst. exact I.
  - intros I. exists v. split; auto. apply N.eqb_refl.
Qed.

Lemma N_cmp_match {A} a b (x y : A) :
  match N.compare a b with Eq => x | _ => y end = if a =? b then x else y.
Proof.
  destruct (a =? b) eqn:E.
  - apply N.eqb_eq in E. subst. rewrite N.compare_refl. reflexivity.
  - apply N.eqb_neq in E. destruct (N.compare a b) eqn:C; auto. apply N.compare_eq_iff in C. contradiction.
Qed.

Lemma Z_cmp_match {A} a b (x y : A) :
  match Z.compare a b with Eq => x | _ => y end = if (a =? b)%Z then x else y.
Proof.
  destruct (a =? b)%Z eqn:E.
  - apply Z.eqb_eq in E. subst. rewrite Z.compare_refl. reflexivity.
  - apply Z.eqb_neq in E. destruct (Z.compare a b) eqn:C; auto. apply Z.compare_eq_iff in C. contradiction.
Qed.

(** * answer_versions *)
Lemma answer_versions_get senders vs r : sm_wf N.compare senders ->
  sm_wf N.compare (fst (answer_versions senders vs r)) /\
  forall v, sm_get N.compare (fst (answer_versions senders vs r)) v =
            if mem_v v vs then None else sm_get N.compare senders v.
Proof.
  revert senders. induction vs as [|v0 vs IH]; intros senders W; cbn [answer_versions].
  - split; auto.
  - destruct (sm_get N.compare senders v0) as [lid|] eqn:G.
    + destruct (answer_versions (sm_del N.compare senders v0) vs r) as [s' evs] eqn:E. cbn [fst].
      specialize (IH (sm_del N.compare senders v0) (wf_del _ _ _ W)). rewrite E in IH. cbn [fst] in IH.
      destruct IH as [W' IH]. split; auto. intros v. rewrite IH. cbn [mem_v existsb].
      fold (mem_v v vs). rewrite (get_del _ NOK) by exact W. rewrite N_cmp_match.
      destruct (v =? v0); cbn [orb]; destruct (mem_v v vs); reflexivity.
    + specialize (IH senders W). destruct IH as [W' IH]. split; auto. intros v. rewrite IH.
      cbn [mem_v existsb]. fold (mem_v v vs). destruct (v =? v0) eqn:Ev; cbn [orb]; auto.
      apply N.eqb_eq in Ev. subst. rewrite G. destruct (mem_v v0 vs); reflexivity.
Qed.

Lemma answer_versions_events senders vs r v lid : sm_wf N.compare senders ->
  In v vs -> sm_get N.compare senders v = Some lid -> In (lid, r) (snd (answer_versions senders vs r)).
Proof.
  revert senders. induction vs as [|v0 vs IH]; intros senders W I G; [contradiction|].
  cbn [answer_versions]. destruct (v =? v0) eqn:Ev.
  - apply N.eqb_eq in Ev. subst v0. rewrite G.
    destruct (answer_versions (sm_del N.compare senders v) vs r). cbn [snd]. left. reflexivity.
  - assert (Iv : In v vs) by (destruct I as [E|I]; [subst; rewrite N.eqb_refl in Ev; discriminate|exact I]).
    destruct (sm_get N.compare senders v0) as [lid0|] eqn:G0.
    + destruct (answer_versions (sm_del N.compare senders v0) vs r) as [s' evs] eqn:E. cbn [snd]. right.
      replace evs with (snd (answer_versions (sm_del N.compare senders v0) vs r)) by (rewrite E; reflexivity).
      apply IH; auto; [apply wf_del; exact W|].
      rewrite (get_del _ NOK) by exact W. rewrite N_cmp_match, Ev. exact G.
    + apply IH; auto.
Qed.

(** * timeout scan *)
Fixpoint expired (now : Z) (buckets : list (Z * list N)) : list (Z * list N) :=
  match buckets with
  | [] => []
  | (t, vs) :: rest => if (t <? now)%Z then (t, vs) :: expired now rest else []
  end.

Definition in_buckets (v : N) (bs : list (Z * list N)) : bool := existsb (fun b => mem_v v (snd b)) bs.

Lemma timeout_scan_spec now buckets senders : sm_wf N.compare senders ->
  let r := timeout_scan now buckets senders in
  sm_wf N.compare (snd (fst r)) /\
  fst (fst r) = map fst (expired now buckets) /\
  (forall v, sm_get N.compare (snd (fst r)) v =
             if in_buckets v (expired now buckets) then None else sm_get N.compare senders v) /\
  (forall t vs v lid, In (t, vs) (expired now buckets) -> In v vs ->
                      sm_get N.compare senders v = Some lid -> In (lid, LNull) (snd r)).
Proof.
  revert senders. induction buckets as [|[t vs] rest IH]; intros senders W; cbn [timeout_scan expired].
  - cbn. repeat split; auto; try (intros t vs v lid []); try contradiction.
  - destruct (t <? now)%Z eqn:Et.
    + destruct (answer_versions senders vs LNull) as [s1 evs1] eqn:E1.
      pose proof (answer_versions_get senders vs LNull W) as [W1 G1]. rewrite E1 in W1, G1. cbn [fst] in W1, G1.
      specialize (IH s1 W1). destruct (timeout_scan now rest s1) as [[keys s2] evs2] eqn:E2.
      cbn zeta in IH. cbn [fst snd] in IH. destruct IH as [W2 [K2 [G2 Ev2]]]. cbn zeta. cbn [fst snd].
      split; [exact W2|]. split; [cbn [map fst]; rewrite K2; reflexivity|]. split.
      * intros v. rewrite G2, G1. cbn [in_buckets existsb snd]. fold (in_buckets v (expired now rest)).
        destruct (mem_v v vs); cbn [orb]; destruct (in_buckets v (expired now rest)); reflexivity.
      * intros t' vs' v lid I Iv G. apply in_or_app. destruct (mem_v v vs) eqn:Mv.
        -- left. replace evs1 with (snd (answer_versions senders vs LNull)) by (rewrite E1; reflexivity).
           apply (answer_versions_events senders vs LNull v lid W); auto. apply mem_v_In. exact Mv.
        -- destruct I as [I|I].
           ++ inversion I; subst. apply mem_v_In in Iv. congruence.
           ++ right. apply (Ev2 t' vs' v lid I Iv). rewrite G1, Mv. exact G.
    + cbn. repeat split; auto; try contradiction.
Qed.

Lemma expired_sorted now (m : list (Z * list N)) t vs :
  sm_wf Z.compare m -> In (t, vs) m -> (t < now)%Z -> In (t, vs) (expired now m).
Proof.
  induction m as [|[t0 vs0] m IH]; intros W I L; [contradiction|].
  destruct W as [F W]. cbn [expired]. destruct I as [I|I].
  - inversion I; subst. assert (E : (t <? now)%Z = true) by lia. rewrite E. left. reflexivity.
  - rewrite Forall_forall in F. pose proof (F _ I) as C. cbn [fst] in C. rewrite Z.compare_lt_iff in C.
    assert (E : (t0 <? now)%Z = true) by lia. rewrite E. right. apply IH; auto.
Qed.

Lemma del_all_get {V} (m : list (Z * V)) ks t : sm_wf Z.compare m ->
  sm_wf Z.compare (del_all Z.compare m ks) /\
  sm_get Z.compare (del_all Z.compare m ks) t = if existsb (Z.eqb t) ks then None else sm_get Z.compare m t.
Proof.
  revert m. induction ks as [|k ks IH]; intros m W; cbn [del_all fold_left existsb]; auto.
  fold (del_all Z.compare (sm_del Z.compare m k) ks).
  destruct (IH (sm_del Z.compare m k) (wf_del _ _ _ W)) as [W' G]. split; auto.
  rewrite G, (get_del _ ZOK) by exact W. rewrite Z_cmp_match.
  destruct (t =? k)%Z; cbn [orb]; destruct (existsb (Z.eqb t) ks); reflexivity.
Qed.

(** * registering a version *)
Lemma push_version_get {K} (cmp : K -> K -> comparison) (OK : cmp_ok cmp) m k v k' :
  sm_get cmp (push_version cmp m k v) k' =
  match cmp k' k with
  | Eq => Some (match sm_get cmp m k with Some l => l ++ [v] | None => [v] end)
  | _ => sm_get cmp m k'
  end.
Proof.
  unfold push_version. destruct (sm_get cmp m k); rewrite (get_put _ OK); reflexivity.
Qed.

Lemma push_version_wf {K} (cmp : K -> K -> comparison) (OK : cmp_ok cmp) m k v :
  sm_wf cmp m -> sm_wf cmp (push_version cmp m k v).
Proof. intros W. unfold push_version. destruct (sm_get cmp m k); apply (wf_put _ OK); exact W. Qed.

Lemma push_version_mono {K} (cmp : K -> K -> comparison) (OK : cmp_ok cmp) m k v k' vs x :
  sm_get cmp m k' = Some vs -> In x vs ->
  exists vs', sm_get cmp (push_version cmp m k v) k' = Some vs' /\ In x vs'.
Proof.
  intros G I. rewrite (push_version_get cmp OK). destruct (cmp k' k) eqn:C; eauto.
  apply (cmp_eq _ OK) in C. subst k'. rewrite G. eexists. split; [reflexivity|]. apply in_or_app. auto.
Qed.

Lemma push_version_self {K} (cmp : K -> K -> comparison) (OK : cmp_ok cmp) m k v :
  exists vs', sm_get cmp (push_version cmp m k v) k = Some vs' /\ In v vs'.
Proof.
  rewrite (push_version_get cmp OK). rewrite (proj2 (cmp_eq _ OK k k) eq_refl).
  eexists. split; [reflexivity|]. destruct (sm_get cmp m k); [apply in_or_app; right|]; left; reflexivity.
Qed.

Definition reg_fold (m : list (key * list N)) (items : list (key * str)) (v : N) :=
  fold_left (fun m it => push_version key_cmp m (fst it) v) items m.

Lemma reg_fold_wf m items v : sm_wf key_cmp m -> sm_wf key_cmp (reg_fold m items v).
Proof.
  revert m. induction items as [|it items IH]; intros m W; cbn [reg_fold fold_left]; auto.
  apply IH. apply (push_version_wf _ KOK). exact W.
Qed.

Lemma reg_fold_mono m items v k vs x :
  sm_get key_cmp m k = Some vs -> In x vs ->
  exists vs', sm_get key_cmp (reg_fold m items v) k = Some vs' /\ In x vs'.
Proof.
  revert m vs. induction items as [|it items IH]; intros m vs G I; cbn [reg_fold fold_left]; eauto.
  destruct (push_version_mono key_cmp KOK m (fst it) v k vs x G I) as [vs1 [G1 I1]].
  apply (IH _ _ G1 I1).
Qed.

Lemma reg_fold_in m items v k md :
  In (k, md) items -> exists vs', sm_get key_cmp (reg_fold m items v) k = Some vs' /\ In v vs'.
Proof.
  revert m. induction items as [|it items IH]; intros m I; [contradiction|]. cbn [reg_fold fold_left].
  destruct I as [E|I].
  - subst it. cbn [fst]. destruct (push_version_self key_cmp KOK m k v) as [vs1 [G1 I1]].
    apply (reg_fold_mono _ items v k vs1 v G1 I1).
  - apply IH. exact I.
Qed.
