(** Model of the snapshot fan-out of RaftDataHandler (src/raft/filestore/raftdata.rs):
    build_snapshot asks the seven components, in the generated [build_order], to write their
    records; load_snapshot routes every record of the file back by tree name (and, inside the
    T_SEQUENCE arm, by key) according to the generated [load_arms]; a record that matches no
    arm is ignored with a warning.  Model only: no proofs.

    Components are given by a section interface {apply; snapshot; load_record; observe}: the
    abstract components (MCP, direct cache, ...) enter the theorems through their round-trip
    law as a hypothesis; SM/KvComp.v is a concrete instance. *)
From RN Require Export SM.SnapshotTypes Gen.SnapshotTables.
From Coq Require Export NArith.

(** a snapshot record (SnapshotRecordDto): tree name, key and value as byte strings *)
Record record := mkRec { rtree : list N; rkey : list N; rval : list N }.

Section Node.
  Variable S : Type.      (* component state *)
  Variable M : Type.      (* committed component message (C07: what the dispatch delivers) *)
  Variable capply : comp -> S -> M -> S.
  Variable csnap : comp -> S -> list record.
  Variable cload : comp -> load_msg -> S -> record -> S.   (* a record that does not decode leaves the state unchanged *)
  Variable cinit : comp -> S.

  Definition node := comp -> S.

  Definition updc (f : node) (c : comp) (x : S) : node := fun d => if comp_eqb d c then x else f d.

  Definition init_node : node := cinit.

  (** RaftDataHandler::build_snapshot *)
  Definition build_snapshot (st : node) : list record :=
    flat_map (fun c => csnap c (st c)) build_order.

  (** RaftDataHandler::load_snapshot for one record *)
  Definition load_record (st : node) (r : record) : node :=
    match route load_arms (rtree r) (rkey r) with
    | Some (c, lm) => updc st c (cload c lm (st c) r)
    | None => st
    end.

  (** StateApplyManager::do_load_snapshot *)
  Definition load_snapshot (recs : list record) (st : node) : node := fold_left load_record recs st.

  (** a committed log entry: the component message it delivers (None: entries without a
      component message — membership, node address, blank, snapshot pointer) *)
  Definition entry := option (comp * M).

  Definition apply_entry (st : node) (e : entry) : node :=
    match e with
    | Some (c, m) => updc st c (capply c (st c) m)
    | None => st
    end.

  Definition run (hist : list entry) (st : node) : node := fold_left apply_entry hist st.
End Node.
