(** Proofs for C10 about the listener / subscriber model. *)
From RN Require Import Base.SMap Base.SMapProofs SM.ConfigKey SM.ConfigKeyProofs SM.ConfigIndex
     SM.ConfigIndexProofs SM.Config SM.ConfigSpec SM.ConfigProofs SM.Listener.
From Coq Require Import ZifyBool ZifyNat ZifyN.
Local Open Scope N_scope.

Section LP.
  Variable H : str -> str.

  (** an item of a LISTENER / Subscribe request is "changed" iff the held md5 differs from the
      md5 a client should hold now *)
  Lemma item_changed_md5 s it : item_changed s it = negb (str_eqb (md5_now s (fst it)) (snd it)).
  Proof.
    unfold item_changed, md5_now. destruct (cache_get s (fst it)); [reflexivity|].
    destruct (snd it); reflexivity.
  Qed.

  Lemma changes_nil s items :
    changes s items = [] <-> forall k m, In (k, m) items -> md5_now s k = m.
  Proof.
    unfold changes. split.
    - intros E k m I. destruct (item_changed s (k, m)) eqn:C.
      + assert (In (k, m) (filter (item_changed s) items)) by (apply filter_In; auto).
        destruct (filter (item_changed s) items); [contradiction|discriminate].
      + rewrite item_changed_md5 in C. cbn [fst snd] in C. apply str_eqb_eq.
        destruct (str_eqb (md5_now s k) m); [reflexivity|discriminate].
    - intros A. induction items as [|[k m] items IH]; [reflexivity|]. cbn [filter].
      rewrite item_changed_md5. cbn [fst snd]. rewrite (A k m) by (left; reflexivity).
      rewrite str_eqb_refl. cbn [negb]. apply IH. intros k' m' I. apply A. right. exact I.
  Qed.

  (** a LISTENER request holding a differing md5 is answered in the same step, with exactly the
      keys whose md5 differs, and is not registered *)
  Theorem immediate_if_differs a lid items time :
    (exists k m, In (k, m) items /\ md5_now (a_store a) k <> m) ->
    step H a (MListen lid items time) = (a, [EAnswer lid (LData (changes (a_store a) items))])
    /\ changes (a_store a) items <> []
    /\ (forall k, In k (changes (a_store a) items) <-> exists m, In (k, m) items /\ md5_now (a_store a) k <> m).
  Proof.
    intros [k [m [I N]]].
    assert (NE : changes (a_store a) items <> []).
    { intros E. apply N. apply (proj1 (changes_nil _ _) E). exact I. }
    split; [|split; [exact NE|]].
    - cbn [step]. destruct (changes (a_store a) items); [contradiction|reflexivity].
    - intros k'. unfold changes. rewrite in_map_iff. split.
      + intros [[k2 m2] [E I2]]. cbn [fst] in E. subst k2. apply filter_In in I2. destruct I2 as [I2 C].
        exists m2. split; auto. rewrite item_changed_md5 in C. cbn [fst snd] in C.
        apply str_eqb_neq. destruct (str_eqb (md5_now (a_store a) k') m2); [discriminate|reflexivity].
      + intros [m2 [I2 N2]]. exists (k', m2). split; auto. apply filter_In. split; auto.
        rewrite item_changed_md5. cbn [fst snd]. apply str_eqb_neq in N2. rewrite N2. reflexivity.
  Qed.

  (** the same comparison answers a Subscribe request *)
  Theorem subscribe_reports_differences a client items :
    snd (step H a (MSub client items)) =
    match changes (a_store a) items with [] => [] | ch => [EChanged client ch] end.
  Proof. cbn [step snd]. destruct (changes (a_store a) items); reflexivity. Qed.
End LP.
