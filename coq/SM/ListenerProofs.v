(** Proofs for C10 about the listener / subscriber model. *)
From RN Require Import Base.SMap Base.SMapProofs SM.ConfigKey SM.ConfigKeyProofs SM.ConfigIndex
     SM.ConfigIndexProofs SM.Config SM.ConfigSpec SM.ConfigProofs SM.ConfigListProofs SM.Listener SM.ListenerLemmas.
From Coq Require Import ZifyBool ZifyNat ZifyN.
Local Open Scope N_scope.

Section LP.
  Variable H : str -> str.

  (** an item of a LISTENER / Subscribe request is "changed" iff the held md5 differs from the
      md5 a client should hold now *)
  Lemma item_changed_md5 s it : item_changed s it = negb (str_eqb (md5_now s (fst it)) (snd it)).
  Proof.
    unfold item_changed, md5_now. destruct (cache_get s (fst it)); [reflexivity|].
    destruct (snd it); reflexivity.
  Qed.

  Lemma changes_nil s items :
    changes s items = [] <-> forall k m, In (k, m) items -> md5_now s k = m.
  Proof.
    unfold changes. split.
    - intros E k m I. destruct (item_changed s (k, m)) eqn:C.
      + assert (In (k, m) (filter (item_changed s) items)) by (apply filter_In; auto).
        destruct (filter (item_changed s) items); [contradiction|discriminate].
      + rewrite item_changed_md5 in C. cbn [fst snd] in C. apply str_eqb_eq.
        destruct (str_eqb (md5_now s k) m); [reflexivity|discriminate].
    - intros A. induction items as [|[k m] items IH]; [reflexivity|]. cbn [filter].
      rewrite item_changed_md5. cbn [fst snd]. rewrite (A k m) by (left; reflexivity).
      rewrite str_eqb_refl. cbn [negb]. apply IH. intros k' m' I. apply A. right. exact I.
  Qed.

  (** a LISTENER request holding a differing md5 is answered in the same step, with exactly the
      keys whose md5 differs, and is not registered *)
  Theorem immediate_if_differs a lid items time :
    (exists k m, In (k, m) items /\ md5_now (a_store a) k <> m) ->
    step H a (MListen lid items time) = (a, [EAnswer lid (LData (changes (a_store a) items))])
    /\ changes (a_store a) items <> []
    /\ (forall k, In k (changes (a_store a) items) <-> exists m, In (k, m) items /\ md5_now (a_store a) k <> m).
  Proof.
    intros [k [m [I N]]].
    assert (NE : changes (a_store a) items <> []).
    { intros E. apply N. apply (proj1 (changes_nil _ _) E). exact I. }
    split; [|split; [exact NE|]].
    - cbn [step]. destruct (changes (a_store a) items); [contradiction|reflexivity].
    - intros k'. unfold changes. rewrite in_map_iff. split.
      + intros [[k2 m2] [E I2]]. cbn [fst] in E. subst k2. apply filter_In in I2. destruct I2 as [I2 C].
        exists m2. split; auto. rewrite item_changed_md5 in C. cbn [fst snd] in C.
        apply str_eqb_neq. destruct (str_eqb (md5_now (a_store a) k') m2); [discriminate|reflexivity].
      + intros [m2 [I2 N2]]. exists (k', m2). split; auto. apply filter_In. split; auto.
        rewrite item_changed_md5. cbn [fst snd]. apply str_eqb_neq in N2. rewrite N2. reflexivity.
  Qed.

  (** the same comparison answers a Subscribe request *)
  Theorem subscribe_reports_differences a client items :
    snd (step H a (MSub client items)) =
    match changes (a_store a) items with [] => [] | ch => [EChanged client ch] end.
  Proof. cbn [step snd]. destruct (changes (a_store a) items); reflexivity. Qed.

  (** * ghost registrations and the invariant over all message sequences *)
  Definition greg := (N * list (key * str) * Z * N)%type.   (* version, items, deadline, lid *)

  Definition registers (a : actor) (m : msg) : option greg :=
    match m with
    | MListen lid items time =>
        match changes (a_store a) items with
        | [] => if (time <=? 0)%Z then None else Some (l_version (a_l a) + 1, items, time, lid)
        | _ => None
        end
    | _ => None
    end.

  Definition gstep (ag : actor * list greg) (m : msg) : actor * list greg :=
    (fst (step H (fst ag) m), match registers (fst ag) m with Some e => e :: snd ag | None => snd ag end).

  Definition grun_from (ag : actor * list greg) (ms : list msg) : actor * list greg := fold_left gstep ms ag.
  Definition grun (ms : list msg) : actor * list greg := grun_from (actor_new, []) ms.

  Definition pending (a : actor) (v : N) : Prop := sm_get N.compare (l_sender (a_l a)) v <> None.

  Definition tmp_now (s : store) (k : key) : bool :=
    match cache_get s k with Some v => cv_tmp v | None => false end.

  (** imports (SetFullValue) do not notify and are outside C10's quantifier *)
  Definition not_import (m : msg) : Prop :=
    match m with MRaft (SetFullValue _ _ _) => False | _ => True end.
  Definition not_tmp (m : msg) : Prop := match m with MTmp _ _ _ => False | _ => True end.

  Record linv (a : actor) (g : list greg) : Prop := mkLinv {
    li_store : store_inv H (a_store a);
    li_wl : sm_wf key_cmp (l_listener (a_l a));
    li_wt : sm_wf Z.compare (l_time (a_l a));
    li_ws : sm_wf N.compare (l_sender (a_l a));
    li_fresh : forall v lid, sm_get N.compare (l_sender (a_l a)) v = Some lid -> v <= l_version (a_l a);
    li_gver : forall v items t lid, In (v, items, t, lid) g -> v <= l_version (a_l a);
    li_reg : forall v lid, sm_get N.compare (l_sender (a_l a)) v = Some lid ->
                           exists items t, In (v, items, t, lid) g;
    li_pend : forall v items t lid, In (v, items, t, lid) g -> pending a v ->
      sm_get N.compare (l_sender (a_l a)) v = Some lid /\
      (exists vs, sm_get Z.compare (l_time (a_l a)) t = Some vs /\ In v vs) /\
      (forall k m, In (k, m) items ->
         (md5_now (a_store a) k = m \/ tmp_now (a_store a) k = true) /\
         exists vs, sm_get key_cmp (l_listener (a_l a)) k = Some vs /\ In v vs);
  }.

  Lemma linv_new : linv actor_new [].
  Proof.
    constructor; cbn; auto; try discriminate; try contradiction; try apply inv_new.
  Qed.

  (** ** the store part of a step *)
  Lemma step_store a m :
    a_store (fst (step H a m)) =
    match m with
    | MRaft c => sstep H (a_store a) (ORaft c)
    | MTmp k v now => sstep H (a_store a) (OTmp k v now)
    | _ => a_store a
    end.
  Proof.
    destruct m as [c|k v now|lid items time|now|client items|client keys|client]; cbn [step sstep].
    - destruct (apply_raft H (a_store a) c) as [st nk] eqn:E. cbn [fst]. destruct nk as [k|]; [|reflexivity].
      unfold notify_key. destruct (l_notify (a_l a) k) as [l' evs]. destruct c; reflexivity.
    - reflexivity.
    - destruct (changes (a_store a) items); [destruct (time <=? 0)%Z|]; reflexivity.
    - destruct (l_timeout (a_l a) now). reflexivity.
    - reflexivity.
    - reflexivity.
    - reflexivity.
  Qed.

  Lemma md5_tmp_frame s o k : store_inv H s -> op_key o <> k ->
    md5_now (sstep H s o) k = md5_now s k /\ tmp_now (sstep H s o) k = tmp_now s k.
  Proof.
    intros I N. unfold md5_now, tmp_now. rewrite sstep_get by exact I.
    apply key_eqb_neq in N. rewrite N. auto.
  Qed.

  (** which key a committed command notifies *)
  Lemma apply_raft_notified s c :
    snd (apply_raft H s c) =
    match c with
    | ConfigAdd ks value ctype desc hid tid time user =>
        if set_changed H (cache_get s (key_of_string ks)) (param_of_add ks value ctype desc hid tid time user)
        then Some (key_of_string ks) else None
    | ConfigRemove ks => Some (key_of_string ks)
    | SetFullValue _ _ _ => None
    end.
  Proof.
    destruct c as [ks value ctype desc hid tid time user|ks|k d last]; cbn [apply_raft]; try reflexivity.
    - destruct (set_config H s _) as [s' b] eqn:E. cbn [snd].
      replace b with (snd (set_config H s (param_of_add ks value ctype desc hid tid time user))) by (rewrite E; reflexivity).
      rewrite set_snd. reflexivity.
  Qed.

  Lemma apply_raft_fst s c : fst (apply_raft H s c) = sstep H s (ORaft c).
  Proof. reflexivity. Qed.

  (** a publish that does not notify leaves every md5 and tmp flag as it was *)
  Lemma add_silent s ks value ctype desc hid tid time user k :
    store_inv H s ->
    snd (apply_raft H s (ConfigAdd ks value ctype desc hid tid time user)) = None ->
    md5_now (sstep H s (ORaft (ConfigAdd ks value ctype desc hid tid time user))) k = md5_now s k /\
    tmp_now (sstep H s (ORaft (ConfigAdd ks value ctype desc hid tid time user))) k = tmp_now s k.
  Proof.
    intros I Nn. rewrite apply_raft_notified in Nn.
    destruct (key_eqb (key_of_string ks) k) eqn:E.
    2:{ apply md5_tmp_frame; auto. cbn [op_key raft_key]. apply key_eqb_neq. exact E. }
    apply key_eqb_eq in E. subst k.
    remember (param_of_add ks value ctype desc hid tid time user) as p eqn:Ep.
    destruct (set_changed H (cache_get s (key_of_string ks)) p) eqn:C; [discriminate|].
    unfold md5_now, tmp_now. cbn [sstep apply_raft]. rewrite <- Ep.
    destruct (set_config H s p) as [s' b] eqn:Es. cbn [fst].
    replace s' with (fst (set_config H s p)) by (rewrite Es; reflexivity).
    assert (Ek : sp_key p = key_of_string ks) by (subst p; reflexivity).
    rewrite set_get, Ek, key_eqb_refl. unfold set_changed in C. unfold set_value.
    destruct (cache_get s (key_of_string ks)) as [v|]; [|discriminate].
    cbv zeta. unfold with_meta at 1 2 5 6. cbn [cv_tmp cv_md5].
    destruct (negb (cv_tmp v) && str_eqb (cv_md5 v) (H (sp_value p))); [|discriminate].
    unfold with_meta. cbn. auto.
  Qed.

  (** a notifying command changes md5 / tmp of its own key only *)
  Lemma tmp_effect s k v now k' : store_inv H s ->
    (md5_now (sstep H s (OTmp k v now)) k' = md5_now s k' /\ tmp_now (sstep H s (OTmp k v now)) k' = tmp_now s k')
    \/ tmp_now (sstep H s (OTmp k v now)) k' = true.
  Proof.
    intros I. destruct (key_eqb k k') eqn:E.
    2:{ left. apply md5_tmp_frame; auto. cbn [op_key]. apply key_eqb_neq. exact E. }
    apply key_eqb_eq in E. subst k'. unfold md5_now, tmp_now. cbn [sstep].
    rewrite tmp_get, key_eqb_refl by apply I. unfold tmp_value.
    destruct (cache_get s k) as [v0|]; [|right; reflexivity].
    destruct (str_eqb (cv_md5 v0) (H v)); [left; auto|right; reflexivity].
  Qed.

  (** ** the listener part of a notification *)
  Lemma l_notify_spec l k : sm_wf key_cmp (l_listener l) -> sm_wf N.compare (l_sender l) ->
    let l' := fst (l_notify l k) in
    l_version l' = l_version l /\ l_time l' = l_time l /\
    sm_wf key_cmp (l_listener l') /\ sm_wf N.compare (l_sender l') /\
    (forall k', sm_get key_cmp (l_listener l') k' = if key_eqb k k' then None else sm_get key_cmp (l_listener l) k') /\
    (forall v, sm_get N.compare (l_sender l') v =
               match sm_get key_cmp (l_listener l) k with
               | Some vs => if mem_v v vs then None else sm_get N.compare (l_sender l) v
               | None => sm_get N.compare (l_sender l) v
               end).
  Proof.
    intros Wl Ws. unfold l_notify. destruct (sm_get key_cmp (l_listener l) k) as [vs|] eqn:G.
    - destruct (answer_versions (l_sender l) vs (LData [k])) as [s' evs] eqn:E. cbn [fst l_version l_time l_listener l_sender].
      pose proof (answer_versions_get (l_sender l) vs (LData [k]) Ws) as [W' G']. rewrite E in W', G'. cbn [fst] in W', G'.
      repeat split; auto.
      + apply wf_del. exact Wl.
      + intros k'. rewrite (get_del _ key_cmp_ok) by exact Wl. rewrite key_cmp_match_eqb, (key_eqb_sym k' k). reflexivity.
    - cbn [fst]. repeat split; auto. intros k'. destruct (key_eqb k k') eqn:E; auto.
      apply key_eqb_eq in E. subst. exact G.
  Qed.

  Lemma l_notify_events l k vs v lid : sm_wf N.compare (l_sender l) ->
    sm_get key_cmp (l_listener l) k = Some vs -> In v vs -> sm_get N.compare (l_sender l) v = Some lid ->
    In (lid, LData [k]) (snd (l_notify l k)).
  Proof.
    intros Ws G I S. unfold l_notify. rewrite G.
    destruct (answer_versions (l_sender l) vs (LData [k])) as [s' evs] eqn:E. cbn [snd].
    replace evs with (snd (answer_versions (l_sender l) vs (LData [k]))) by (rewrite E; reflexivity).
    eapply answer_versions_events; eauto.
  Qed.

  Lemma step_raft_l a c :
    a_l (fst (step H a (MRaft c))) =
    match snd (apply_raft H (a_store a) c) with
    | Some k => fst (l_notify (a_l a) k)
    | None => a_l a
    end.
  Proof.
    cbn [step]. destruct (apply_raft H (a_store a) c) as [st nk]. cbn [snd]. destruct nk as [k|]; [|reflexivity].
    unfold notify_key. destruct (l_notify (a_l a) k) as [l' evs]. destruct c; reflexivity.
  Qed.

  (** preservation by a notification of key [k] after which only [k]'s md5 / tmp may differ *)
  Lemma linv_notify a g st k :
    linv a g -> store_inv H st ->
    (forall k', k' <> k -> md5_now st k' = md5_now (a_store a) k' /\ tmp_now st k' = tmp_now (a_store a) k') ->
    forall a', a_store a' = st -> a_l a' = fst (l_notify (a_l a) k) -> linv a' g.
  Proof.
    intros [Is Wl Wt Ws Fr Gv Rg Pd] Ist Fm a' Es El.
    destruct (l_notify_spec (a_l a) k Wl Ws) as [Ev [Et [Wl' [Ws' [Gl Gs]]]]].
    assert (Sub : forall v lid, sm_get N.compare (l_sender (a_l a')) v = Some lid ->
                   sm_get N.compare (l_sender (a_l a)) v = Some lid /\
                   (forall vs, sm_get key_cmp (l_listener (a_l a)) k = Some vs -> ~ In v vs)).
    { intros v lid. rewrite El, Gs. destruct (sm_get key_cmp (l_listener (a_l a)) k) as [vs|].
      - destruct (mem_v v vs) eqn:M; [discriminate|]. intros S. split; auto. intros vs' [= <-] I.
        apply mem_v_In in I. congruence.
      - intros S. split; auto. discriminate. }
    constructor; rewrite ?Es, ?El, ?Ev, ?Et; auto.
    - intros v lid S. rewrite <- El in S. apply Sub in S. destruct S as [S _]. eapply Fr; eauto.
    - intros v lid S. rewrite <- El in S. apply Sub in S. destruct S as [S _]. eapply Rg; eauto.
    - intros v items t lid I P. unfold pending in P. rewrite <- El.
      destruct (sm_get N.compare (l_sender (a_l a')) v) as [lid'|] eqn:S; [|contradiction].
      apply Sub in S. destruct S as [S Nk].
      assert (P0 : pending a v) by (unfold pending; rewrite S; discriminate).
      destruct (Pd _ _ _ _ I P0) as [S2 [T2 It]]. rewrite S2 in S. inversion S; subst lid'.
      split; [reflexivity|]. split; [exact T2|].
      intros k' m Ik. destruct (It _ _ Ik) as [Md [vs [Gk Iv]]].
      assert (Nek : k' <> k). { intros ->. apply (Nk _ Gk). exact Iv. }
      destruct (Fm _ Nek) as [Fm1 Fm2]. rewrite Fm1, Fm2. split; [exact Md|].
      exists vs. rewrite El, Gl. assert (E : key_eqb k k' = false) by (apply key_eqb_neq; congruence).
      rewrite E. auto.
  Qed.

  (** preservation when the listener state is untouched and every key keeps its md5 / tmp flag
      or becomes tmp *)
  Lemma linv_same_l a g a' :
    linv a g -> store_inv H (a_store a') -> a_l a' = a_l a ->
    (forall k, (md5_now (a_store a') k = md5_now (a_store a) k /\ tmp_now (a_store a') k = tmp_now (a_store a) k)
               \/ tmp_now (a_store a') k = true) ->
    linv a' g.
  Proof.
    intros [Is Wl Wt Ws Fr Gv Rg Pd] Ist El Fm.
    constructor; rewrite ?El; auto.
    intros v items t lid I P. unfold pending in P. rewrite El in P.
    destruct (Pd _ _ _ _ I P) as [S [T It]]. split; [exact S|]. split; [exact T|].
    intros k m Ik. destruct (It _ _ Ik) as [Md Ls]. split; [|exact Ls].
    destruct (Fm k) as [[F1 F2]|F]; [rewrite F1, F2; exact Md|right; exact F].
  Qed.

  Lemma linv_listen a g lid items time :
    linv a g -> changes (a_store a) items = [] ->
    linv (mkA (a_store a) (l_add (a_l a) items lid time) (a_s a))
         ((l_version (a_l a) + 1, items, time, lid) :: g).
  Proof.
    intros [Is Wl Wt Ws Fr Gv Rg Pd] Ch.
    set (v' := l_version (a_l a) + 1).
    assert (Gs : forall v, sm_get N.compare (l_sender (l_add (a_l a) items lid time)) v =
                           if v =? v' then Some lid else sm_get N.compare (l_sender (a_l a)) v).
    { intros v. unfold l_add. cbn [l_sender]. rewrite (get_put _ N_cmp_ok), N_cmp_match. reflexivity. }
    constructor; cbn [a_store a_l]; auto.
    - unfold l_add. cbn [l_listener]. apply reg_fold_wf. exact Wl.
    - unfold l_add. cbn [l_time]. apply (push_version_wf _ Z_cmp_ok). exact Wt.
    - unfold l_add. cbn [l_sender]. apply (wf_put _ N_cmp_ok). exact Ws.
    - intros v lid0. rewrite Gs. unfold l_add. cbn [l_version]. fold v'. destruct (v =? v') eqn:E.
      + intros _. apply N.eqb_eq in E. lia.
      + intros S. apply Fr in S. lia.
    - intros v its t lid0 [E|I]; unfold l_add; cbn [l_version]; fold v'.
      + inversion E. lia.
      + apply Gv in I. lia.
    - intros v lid0. rewrite Gs. destruct (v =? v') eqn:E.
      + intros [= <-]. apply N.eqb_eq in E. subst v. exists items, time. left. reflexivity.
      + intros S. destruct (Rg _ _ S) as [its [t I]]. exists its, t. right. exact I.
    - intros v its t lid0 I P. unfold pending in P. cbn [a_l] in P. rewrite Gs in *. destruct I as [E|I].
      + inversion E; subst v its t lid0. fold v'. rewrite N.eqb_refl. split; [reflexivity|]. split.
        * unfold l_add. cbn [l_time]. fold v'. apply (push_version_self Z.compare Z_cmp_ok).
        * intros k m Ik. split; [left; apply (proj1 (changes_nil _ _) Ch); exact Ik|].
          unfold l_add. cbn [l_listener]. fold v'. fold (reg_fold (l_listener (a_l a)) items v').
          eapply reg_fold_in. exact Ik.
      + assert (Nv : (v =? v') = false) by (apply N.eqb_neq; apply Gv in I; unfold v'; lia).
        rewrite Nv in *. destruct (Pd _ _ _ _ I P) as [S [[vs [Gt Iv]] It]].
        split; [exact S|]. split.
        * unfold l_add. cbn [l_time]. eapply (push_version_mono Z.compare Z_cmp_ok); eauto.
        * intros k m Ik. destruct (It _ _ Ik) as [Md [vs2 [Gk Iv2]]]. split; [exact Md|].
          unfold l_add. cbn [l_listener]. fold (reg_fold (l_listener (a_l a)) items (l_version (a_l a) + 1)).
          eapply reg_fold_mono; eauto.
  Qed.

  Lemma expired_incl now bs b : In b (expired now bs) -> In b bs.
  Proof.
    induction bs as [|[t vs] bs IH]; cbn [expired]; [contradiction|].
    destruct (t <? now)%Z; [|contradiction]. intros [E|I]; [left; exact E|right; apply IH; exact I].
  Qed.

  Lemma l_timeout_spec l now : sm_wf Z.compare (l_time l) -> sm_wf N.compare (l_sender l) ->
    let l' := fst (l_timeout l now) in
    let ex := expired now (firstn TAKE (l_time l)) in
    l_version l' = l_version l /\ l_listener l' = l_listener l /\
    sm_wf Z.compare (l_time l') /\ sm_wf N.compare (l_sender l') /\
    (forall t, sm_get Z.compare (l_time l') t =
               if existsb (Z.eqb t) (map fst ex) then None else sm_get Z.compare (l_time l) t) /\
    (forall v, sm_get N.compare (l_sender l') v =
               if in_buckets v ex then None else sm_get N.compare (l_sender l) v) /\
    (forall t vs v lid, In (t, vs) ex -> In v vs -> sm_get N.compare (l_sender l) v = Some lid ->
                        In (lid, LNull) (snd (l_timeout l now))).
  Proof.
    intros Wt Ws. unfold l_timeout.
    pose proof (timeout_scan_spec now (firstn TAKE (l_time l)) (l_sender l) Ws) as Sp.
    destruct (timeout_scan now (firstn TAKE (l_time l)) (l_sender l)) as [[keys s'] evs].
    cbn zeta in Sp. cbn [fst snd] in Sp. destruct Sp as [Ws' [Ek [Gs Ev]]].
    cbn zeta. cbn [fst snd l_version l_listener l_time l_sender].
    fold (del_all Z.compare (l_time l) keys).
    destruct (del_all_get (l_time l) keys 0%Z Wt) as [Wt' _].
    repeat split; auto.
    intros t. destruct (del_all_get (l_time l) keys t Wt) as [_ G]. rewrite G, Ek. reflexivity.
  Qed.

  Lemma linv_tick a g now :
    linv a g -> linv (mkA (a_store a) (fst (l_timeout (a_l a) now)) (a_s a)) g.
  Proof.
    intros [Is Wl Wt Ws Fr Gv Rg Pd].
    destruct (l_timeout_spec (a_l a) now Wt Ws) as [Ev [El [Wt' [Ws' [Gt [Gs _]]]]]].
    set (ex := expired now (firstn TAKE (l_time (a_l a)))) in *.
    assert (Sub : forall v lid, sm_get N.compare (l_sender (fst (l_timeout (a_l a) now))) v = Some lid ->
                   sm_get N.compare (l_sender (a_l a)) v = Some lid /\ in_buckets v ex = false).
    { intros v lid. rewrite Gs. destruct (in_buckets v ex); [discriminate|auto]. }
    constructor; cbn [a_store a_l]; rewrite ?Ev, ?El; auto.
    - intros v lid S. apply Sub in S. destruct S as [S _]. eapply Fr; eauto.
    - intros v lid S. apply Sub in S. destruct S as [S _]. eapply Rg; eauto.
    - intros v items t lid I P. unfold pending in P. cbn [a_l] in P.
      destruct (sm_get N.compare (l_sender (fst (l_timeout (a_l a) now))) v) as [lid'|] eqn:S; [|contradiction].
      apply Sub in S. destruct S as [S Nb].
      assert (P0 : pending a v) by (unfold pending; rewrite S; discriminate).
      destruct (Pd _ _ _ _ I P0) as [S2 [[vs [Gtv Iv]] It]]. rewrite S2 in S. inversion S; subst lid'.
      split; [reflexivity|]. split; [|exact It].
      exists vs. split; [|exact Iv]. rewrite Gt.
      destruct (existsb (Z.eqb t) (map fst ex)) eqn:Ex; [|exact Gtv]. exfalso.
      apply existsb_exists in Ex. destruct Ex as [t' [It' Et]]. apply Z.eqb_eq in Et. subst t'.
      apply in_map_iff in It'. destruct It' as [[t2 vs2] [E2 I2]]. cbn [fst] in E2. subst t2.
      assert (Iin : In (t, vs2) (l_time (a_l a))).
      { apply (firstn_incl TAKE). eapply expired_incl. exact I2. }
      apply (in_get_some _ Z_cmp_ok _ _ _ Wt) in Iin. rewrite Gtv in Iin. inversion Iin; subst vs2.
      assert (in_buckets v ex = true).
      { unfold in_buckets. apply existsb_exists. exists (t, vs). split; [exact I2|]. apply mem_v_In. exact Iv. }
      congruence.
  Qed.

  (** ** one message, all sequences *)
  Lemma gstep_linv a g m : linv a g -> not_import m -> linv (fst (gstep (a, g) m)) (snd (gstep (a, g) m)).
  Proof.
    intros I NI. pose proof I as [Is Wl Wt Ws Fr Gv Rg Pd]. unfold gstep. cbn [fst snd].
    destruct m as [c|k v now|lid items time|now|client items|client keys|client]; cbn [registers].
    - (* committed command *)
      assert (Ist : store_inv H (a_store (fst (step H a (MRaft c))))) by (rewrite step_store; apply sstep_inv; exact Is).
      destruct (snd (apply_raft H (a_store a) c)) as [k|] eqn:Nk.
      + apply (linv_notify a g (a_store (fst (step H a (MRaft c)))) k I Ist); auto.
        * intros k' Ne. rewrite step_store. apply md5_tmp_frame; auto.
          rewrite apply_raft_notified in Nk. destruct c as [ks ? ? ? ? ? ? ?|ks|? ? ?]; cbn [op_key raft_key].
          -- destruct (set_changed _ _ _); inversion Nk; congruence.
          -- inversion Nk; congruence.
          -- discriminate.
        * rewrite step_raft_l, Nk. reflexivity.
      + apply (linv_same_l a g); auto.
        * rewrite step_raft_l, Nk. reflexivity.
        * intros k. left. rewrite step_store. destruct c as [ks value ctype desc hid tid time user|ks|k0 d last].
          -- apply add_silent; auto.
          -- rewrite apply_raft_notified in Nk. discriminate.
          -- contradiction.
    - (* routed temporary value *)
      apply (linv_same_l a g); auto.
      + rewrite step_store. apply sstep_inv. exact Is.
      + intros k'. rewrite step_store. apply tmp_effect. exact Is.
    - (* LISTENER *)
      cbn [step]. destruct (changes (a_store a) items) eqn:Ch.
      + destruct (time <=? 0)%Z; cbn [fst]; [exact I|]. apply linv_listen; auto.
      + cbn [fst]. exact I.
    - (* tick *)
      cbn [step]. destruct (l_timeout (a_l a) now) as [l' evs] eqn:E. cbn [fst].
      replace l' with (fst (l_timeout (a_l a) now)) by (rewrite E; reflexivity). apply linv_tick. exact I.
    - apply (linv_same_l a g); auto; intros k; left; auto.
    - apply (linv_same_l a g); auto; intros k; left; auto.
    - apply (linv_same_l a g); auto; intros k; left; auto.
  Qed.

  Lemma grun_from_linv ag ms : linv (fst ag) (snd ag) -> (forall m, In m ms -> not_import m) ->
    linv (fst (grun_from ag ms)) (snd (grun_from ag ms)).
  Proof.
    revert ag. induction ms as [|m ms IH]; intros [a g] I NI; cbn [grun_from fold_left]; auto.
    fold (grun_from (gstep (a, g) m) ms). apply IH.
    - apply gstep_linv; auto. apply NI. left. reflexivity.
    - intros m' In'. apply NI. right. exact In'.
  Qed.

  Theorem grun_linv ms : (forall m, In m ms -> not_import m) -> linv (fst (grun ms)) (snd (grun ms)).
  Proof. intros NI. apply grun_from_linv; auto. apply linv_new. Qed.

  (** * the theorems about long-polling listeners *)

  (** WEAK FORM (with routed temporary values): a pending entry is stale only while the value of
      its key is a temporary one, i.e. while a committed-but-unapplied write is outstanding *)
  Theorem pending_stale_only_while_tmp ms :
    (forall m, In m ms -> not_import m) ->
    forall v items t lid, In (v, items, t, lid) (snd (grun ms)) -> pending (fst (grun ms)) v ->
    forall k m, In (k, m) items ->
      md5_now (a_store (fst (grun ms))) k = m \/ tmp_now (a_store (fst (grun ms))) k = true.
  Proof.
    intros NI v items t lid I P k m Ik.
    destruct (li_pend _ _ (grun_linv ms NI) _ _ _ _ I P) as [_ [_ It]]. apply (It _ _ Ik).
  Qed.

  Lemma gstep_no_tmp a g m : store_inv H (a_store a) -> not_tmp m ->
    no_tmp_value (a_store a) -> no_tmp_value (a_store (fst (gstep (a, g) m))).
  Proof.
    intros Is NT N. unfold gstep. cbn [fst]. rewrite step_store.
    destruct m; try exact N; [|contradiction]. apply sstep_no_tmp; auto.
  Qed.

  Lemma grun_from_no_tmp ag ms : linv (fst ag) (snd ag) -> no_tmp_value (a_store (fst ag)) ->
    (forall m, In m ms -> not_import m /\ not_tmp m) -> no_tmp_value (a_store (fst (grun_from ag ms))).
  Proof.
    revert ag. induction ms as [|m ms IH]; intros [a g] I N A; cbn [grun_from fold_left]; auto.
    fold (grun_from (gstep (a, g) m) ms). apply IH.
    - apply gstep_linv; auto. apply A. left. reflexivity.
    - apply gstep_no_tmp; auto; [apply I|apply A; left; reflexivity].
    - intros m' In'. apply A. right. exact In'.
  Qed.

  (** STRONG FORM: for every sequence of registrations, subscriptions, publishes, removes and
      ticks, every pending listener entry (k, m) holds the CURRENT md5 of k *)
  Theorem pending_never_stale ms :
    (forall m, In m ms -> not_import m /\ not_tmp m) ->
    forall v items t lid, In (v, items, t, lid) (snd (grun ms)) -> pending (fst (grun ms)) v ->
    forall k m, In (k, m) items -> md5_now (a_store (fst (grun ms))) k = m.
  Proof.
    intros A v items t lid I P k m Ik.
    assert (NI : forall m, In m ms -> not_import m) by (intros m0 I0; apply A; exact I0).
    destruct (pending_stale_only_while_tmp ms NI _ _ _ _ I P _ _ Ik) as [E|T]; [exact E|].
    assert (N : no_tmp_value (a_store (fst (grun ms)))).
    { apply grun_from_no_tmp; auto; [apply linv_new|intros k0 v0; discriminate]. }
    unfold tmp_now in T. destruct (cache_get (a_store (fst (grun ms))) k) as [v0|] eqn:G; [|discriminate].
    rewrite (N _ _ G) in T. discriminate.
  Qed.

  Lemma step_raft_events a c :
    snd (step H a (MRaft c)) =
    match snd (apply_raft H (a_store a) c) with
    | Some k => map (fun e => EAnswer (fst e) (snd e)) (snd (l_notify (a_l a) k))
                    ++ match s_notify (a_s a) k with Some cs => [ENotify k cs] | None => [] end
    | None => []
    end.
  Proof.
    cbn [step]. destruct (apply_raft H (a_store a) c) as [st nk]. cbn [snd]. destruct nk as [k|]; [|reflexivity].
    unfold notify_key. destruct (l_notify (a_l a) k) as [l' evs]. destruct c; reflexivity.
  Qed.

  (** every later change (publish with a different md5, or remove) of a listened key answers
      the pending listener in that very step, naming the key *)
  Theorem every_later_change_reported ms c :
    (forall m, In m ms -> not_import m) -> not_import (MRaft c) ->
    let a := fst (grun ms) in
    forall v items t lid k m, In (v, items, t, lid) (snd (grun ms)) -> pending a v -> In (k, m) items ->
    md5_now (a_store (fst (step H a (MRaft c)))) k <> md5_now (a_store a) k ->
    In (EAnswer lid (LData [k])) (snd (step H a (MRaft c))).
  Proof.
    intros NI NIc a v items t lid k m I P Ik Chg.
    pose proof (grun_linv ms NI) as L. fold a in L.
    destruct (li_pend _ _ L _ _ _ _ I P) as [S [_ It]]. destruct (It _ _ Ik) as [_ [vs [Gk Iv]]].
    rewrite step_raft_events. rewrite step_store in Chg.
    destruct (snd (apply_raft H (a_store a) c)) as [k'|] eqn:Nk.
    - assert (k' = k).
      { destruct (key_eqb k' k) eqn:E; [apply key_eqb_eq; exact E|]. exfalso. apply Chg.
        apply md5_tmp_frame; [apply L|]. rewrite apply_raft_notified in Nk.
        apply key_eqb_neq in E. destruct c as [ks ? ? ? ? ? ? ?|ks|? ? ?]; cbn [op_key raft_key].
        - destruct (set_changed _ _ _); inversion Nk; congruence.
        - inversion Nk; congruence.
        - discriminate. }
      subst k'. apply in_or_app. left. apply in_map_iff. exists (lid, LData [k]). split; [reflexivity|].
      eapply l_notify_events; eauto. apply L.
    - exfalso. apply Chg. destruct c as [ks value ctype desc hid tid time user|ks|k0 d last].
      + apply add_silent; auto. apply L.
      + rewrite apply_raft_notified in Nk. discriminate.
      + contradiction.
  Qed.

  (** a pending listener is answered (with NULL) at the first tick after its deadline, and is
      no longer pending afterwards; [TAKE] = 10000 buckets are examined per tick *)
  Theorem answered_by_timeout ms now :
    (forall m, In m ms -> not_import m) ->
    let a := fst (grun ms) in
    (length (l_time (a_l a)) <= TAKE)%nat ->
    forall v items t lid, In (v, items, t, lid) (snd (grun ms)) -> pending a v -> (t < now)%Z ->
    In (EAnswer lid LNull) (snd (step H a (MTick now))) /\ ~ pending (fst (step H a (MTick now))) v.
  Proof.
    intros NI a Len v items t lid I P Lt.
    pose proof (grun_linv ms NI) as L. fold a in L.
    destruct (li_pend _ _ L _ _ _ _ I P) as [S [[vs [Gt Iv]] _]].
    destruct (l_timeout_spec (a_l a) now (li_wt _ _ L) (li_ws _ _ L)) as [_ [_ [_ [_ [_ [Gs Ev]]]]]].
    assert (Iex : In (t, vs) (expired now (firstn TAKE (l_time (a_l a))))).
    { rewrite firstn_all2 by exact Len. apply expired_sorted; [apply L| |exact Lt].
      apply (get_some_in _ Z_cmp_ok). exact Gt. }
    cbn [step]. destruct (l_timeout (a_l a) now) as [l' evs] eqn:E. cbn [fst snd] in *. split.
    - apply in_map_iff. exists (lid, LNull). split; [reflexivity|].
      eapply Ev; eauto.
    - unfold pending. cbn [a_l].
      rewrite Gs.
      assert (B : in_buckets v (expired now (firstn TAKE (l_time (a_l a)))) = true).
      { unfold in_buckets. apply existsb_exists. exists (t, vs). split; [exact Iex|]. apply mem_v_In. exact Iv. }
      rewrite B. intros N. apply N. reflexivity.
  Qed.

  (** a registered listener really is pending, under a fresh version *)
  Theorem registration_is_pending a lid items time :
    changes (a_store a) items = [] -> (0 < time)%Z ->
    registers a (MListen lid items time) = Some (l_version (a_l a) + 1, items, time, lid) /\
    sm_get N.compare (l_sender (a_l (fst (step H a (MListen lid items time))))) (l_version (a_l a) + 1) = Some lid /\
    snd (step H a (MListen lid items time)) = [].
  Proof.
    intros Ch Pos. cbn [registers step]. rewrite Ch.
    assert (E : (time <=? 0)%Z = false) by lia. rewrite E. cbn [fst snd a_l]. repeat split.
    unfold l_add. cbn [l_sender]. rewrite (get_put _ N_cmp_ok), N.compare_refl. reflexivity.
  Qed.

  (** import is outside the property's quantifier for a reason: it changes the md5 silently *)
  Lemma import_silent_refuted :
    let Hid := fun c : str => c in
    let k := mkKey [100] [103] [] in
    let ms := [MRaft (ConfigAdd (build_key k) [1] None None 1 None 0 None);
               MListen 1 [(k, [1])] 5%Z;
               MRaft (SetFullValue k (mkDO [2] [] None None) None)] in
    exists v, sm_get N.compare (l_sender (a_l (fst (fold_left (fun a m => (fst (step Hid (fst a) m), tt)) ms (actor_new, tt))))) v = Some 1
              /\ md5_now (a_store (fst (fold_left (fun a m => (fst (step Hid (fst a) m), tt)) ms (actor_new, tt)))) k <> [1].
  Proof. exists 1. vm_compute. split; [reflexivity|discriminate]. Qed.
End LP.

(** the overtake schedule (known finding tmp-overtake, shared with C09/C06): after
    [apply v1; apply v2; SetTmpValue v1] a listener holding md5(v1) is accepted as pending although
    the committed content is v2; the same sequence without the temporary value answers it at once *)
Lemma tmp_overtake_refuted :
  let Hid := fun c : str => c in
  let k := mkKey [100] [103] [] in
  let add c hid := MRaft (ConfigAdd (build_key k) c None None hid None 0 None) in
  let ms := [add [1] 1; add [2] 2; MTmp k [1] 0; MListen 9 [(k, [1])] 5%Z] in
  pending (fst (grun Hid ms)) 1 /\
  md5_now (a_store (fst (grun Hid (filter (fun m => match m with MTmp _ _ _ => false | _ => true end) ms)))) k = [2] /\
  snd (grun Hid (filter (fun m => match m with MTmp _ _ _ => false | _ => true end) ms)) = [].
Proof. unfold pending. vm_compute. repeat split; try reflexivity. discriminate. Qed.

(** the hypotheses of the theorems are satisfiable by a non-trivial sequence, and the listener
    there is pending with the current md5 *)
Example c10_nontrivial_state :
  let Hid := fun c : str => c in
  let k := mkKey [100] [103] [] in
  let ms := [MRaft (ConfigAdd (build_key k) [1] None None 1 None 0 None);
             MListen 7 [(k, [1])] 5%Z; MSub [99] [(k, [])]; MTick 3%Z] in
  (forall m, In m ms -> not_import m /\ not_tmp m) /\
  snd (grun Hid ms) = [(1, [(k, [1])], 5%Z, 7)] /\ pending (fst (grun Hid ms)) 1.
Proof.
  split; [|split].
  - intros m I. cbn in I. repeat (destruct I as [<-|I]; [cbn; auto|]). contradiction.
  - vm_compute. reflexivity.
  - unfold pending. vm_compute. discriminate.
Qed.
