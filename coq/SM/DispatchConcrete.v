(** C07 instantiated with CONCRETE handlers: the ConfigActor store of SM/Config.v (builder E),
    SequenceDbManager of SM/Sequence.v and the TableManager rows of SM/Concrete.v.  The other
    actors (index manager, namespace, mcp, naming, direct cache) keep an opaque unit state: the
    corollary speaks about the three modelled actors.

    payload  = the fields bound by the match pattern of the request;
    build    = what the three dispatches construct from them (ConfigRaftCmd::ConfigAdd /
               SetFullValue (after ConfigKey::from + ConfigValueDO::from_bytes) / ConfigRemove,
               or the request itself);
    step     = the real handlers' state functions;
    fwd      = the handler-to-handler notifications, by message: a config command whose key has
               a non-default tenant notifies NamespaceActor; a T_CACHE row is forwarded by
               TableManager to the cache actors. *)
From RN Require Import SM.Dispatch SM.DispatchProofs SM.Concrete SM.ConfigSpec.
Local Open Scope N_scope.

Inductive cpayload :=
| PAdd (ks value : str) (ctype desc : option str) (hid : N) (tid : option N) (time : N) (user : option str)
| PFull (key value : list N) (last : option N)
| PRemove (ks : str)
| PSeq (r : seqreq)
| PTab (r : tabreq)
| POther.

Inductive cdmsg := DCfg (c : raft_cmd) | DSeq (r : seqreq) | DTab (r : tabreq) | DOpaque.

Definition cbuild (_ : list (string * string)) (_ : prep) (c : ctor) (_ : list (string * string))
           (p : cpayload) : cdmsg :=
  match c, p with
  | CConfigAdd, PAdd ks v t d h ti tm u => DCfg (ConfigAdd ks v t d h ti tm u)
  | CSetFullValue, PFull k v l =>
      match dec_value v with
      | Ok d => DCfg (SetFullValue (key_of_string k) d l)
      | _ => DOpaque          (* never sent: the arm returns Err ([cdecodable] is false) *)
      end
  | CConfigRemove, PRemove ks => DCfg (ConfigRemove ks)
  | CPass, PSeq r => DSeq r
  | CPass, PTab r => DTab r
  | _, _ => DOpaque
  end.

Definition cdecodable (p : cpayload) : bool :=
  match p with
  | PFull _ v _ => match dec_value v with Ok _ => true | _ => false end
  | _ => true
  end.

Section DC.
  Variable H : str -> str.

  Definition cstep (a : actor) (s : cstate) (m : cdmsg) : cstate :=
    match a, m with
    | AConfig, DCfg c => n_apply H KConfig s (MCfg c)
    | ASequence, DSeq r => n_apply H KSequence s (MSeq r)
    | ATable, DTab r => n_apply H KTable s (MTab r)
    | _, _ => s
    end.

  Definition cfwd (a : actor) (m : cdmsg) : list (actor * cdmsg) :=
    match a, m with
    | AConfig, DCfg c => if str_is_empty (k_tenant (raft_key c)) then [] else [(ANamespace, DOpaque)]
    | ATable, DTab (TSet t _ _) | ATable, DTab (TRemove t _) =>
        if str_eqb t T_CACHE_B then [(ACache, DOpaque)] else []
    | _, _ => []
    end.

  Definition cinit_world : @world cdmsg cstate :=
    mkWorld (fun a => match a with
                      | AConfig => SCfg store_new | ASequence => SSeq [] | ATable => STab []
                      | _ => SUnit end)
            (fun _ => []).

  (** in scope (boolean, evaluated on the request alone): the value of a ConfigFullValue
      decodes, and what the three dispatches send for the request triggers no notification *)
  Definition cscope (r : req cpayload) : bool :=
    cdecodable (q_payload r) &&
    forallb (fun t => match dispatch cpayload cdmsg cbuild cdecodable t r with
                      | Send a m _ => match cfwd a m with [] => true | _ => false end
                      | _ => true
                      end) [leader_table; follower_table; replay_table].

  Lemma cscope_prep_ok r : cscope r = true -> prep_ok cpayload cdecodable r = true.
  Proof.
    unfold cscope, prep_ok. intros E. apply andb_prop in E. destruct E as [E _].
    destruct (q_variant r); (exact E || reflexivity).
  Qed.

  Lemma cscope_no_forward r : cscope r = true -> no_forward cpayload cdmsg cbuild cfwd cdecodable r.
  Proof.
    unfold cscope. intros E. apply andb_prop in E. destruct E as [_ E].
    rewrite forallb_forall in E. intros t Ht a m md D. specialize (E t Ht). rewrite D in E.
    destruct (cfwd a m); [reflexivity | discriminate].
  Qed.

  Lemma cinit_clean : clean cdmsg cstate cfwd cinit_world.
  Proof. intros a m []. Qed.

  (** ** C07 for concrete Config / Sequence / Table handlers *)
  Theorem same_state_config_seq :
    forall (reqs : list (req cpayload)) (batching : list nat)
           (n1 n2 n3 : nat) (sched1 sched2 sched3 : list (list actor)),
      (1 <= n1)%nat -> (1 <= n2)%nat -> (1 <= n3)%nat ->
      forallb cscope reqs = true ->
      let wl := final_leader cpayload cdmsg cstate cbuild cstep cfwd cdecodable n1 sched1 reqs cinit_world in
      let wf := final_follower cpayload cdmsg cstate cbuild cstep cfwd cdecodable n2 sched2 (Dispatch.split batching reqs) cinit_world in
      let wr := final_replay cpayload cdmsg cstate cbuild cstep cfwd cdecodable n3 sched3 reqs cinit_world in
      quiescent cdmsg cstate wl /\ quiescent cdmsg cstate wf /\ quiescent cdmsg cstate wr /\
      forall a, wst wl a = wst wf a /\ wst wl a = wst wr a.
  Proof.
    intros reqs batching n1 n2 n3 s1 s2 s3 H1 H2 H3 SC wl wf wr.
    rewrite forallb_forall in SC.
    assert (OK : forallb (prep_ok cpayload cdecodable) reqs = true).
    { apply forallb_forall. intros r Hr. apply cscope_prep_ok, SC, Hr. }
    assert (NF : Forall (no_forward cpayload cdmsg cbuild cfwd cdecodable) reqs).
    { apply Forall_forall. intros r Hr. apply cscope_no_forward, SC, Hr. }
    destruct (same_sequence_same_state cpayload cdmsg cstate cbuild cstep cfwd cdecodable
                reqs batching cinit_world n1 n2 n3 s1 s2 s3 cinit_clean H1 H2 H3 OK NF)
      as (Q1 & Q2 & Q3 & E).
    repeat split; try assumption; apply E.
  Qed.
End DC.

(** ** non-vacuity: a sequence over the three concrete actors, in scope, with its outcome *)
Definition bl (s : string) : list N := bytes_of_lit s.
Definition dkey : str := bl "app.yaml" ++ [2] ++ bl "DEFAULT_GROUP".
Definition Hrev (s : str) : str := rev s.

Definition dreqs : list (req cpayload) :=
  [mkReq VConfigSet (PAdd dkey (bl "a: 1") (Some (bl "YAML")) None 1 None 10 None);
   mkReq VSequenceReq (PSeq (RNextId (bl "seq1")));
   mkReq VTableManagerReq (PTab (TSet T_USER_B (bl "admin") (bl "pw")));
   mkReq VNodeAddr POther;
   mkReq VConfigSet (PAdd dkey (bl "a: 2") None (Some (bl "d")) 2 (Some 100) 20 None);
   mkReq VConfigFullValue (PFull (bl "k2" ++ [2] ++ bl "g") (enc_value (mkVal (bl "full") [] false [] None None 0)) None);
   mkReq VConfigRemove (PRemove (bl "zz" ++ [2] ++ bl "g"));
   mkReq VSequenceReq (PSeq (RNextRange (bl "seq1") 100))].

Lemma dreqs_in_scope : forallb (cscope) dreqs = true.
Proof. vm_compute. reflexivity. Qed.

Lemma dreqs_outcome :
  let w := final_leader cpayload cdmsg cstate cbuild (cstep Hrev) cfwd cdecodable 1 [] dreqs (cinit_world) in
  wst w ASequence = SSeq [(bl "seq1", 102)] /\
  match wst w AConfig with
  | SCfg s => option_map (fun v => cv_content v) (cache_get s (key_of_string dkey)) = Some (bl "a: 2") /\
              option_map (fun v => cv_content v) (cache_get s (key_of_string (bl "k2" ++ [2] ++ bl "g"))) = Some (bl "full")
  | _ => False
  end.
Proof. vm_compute. repeat split. Qed.

(** out of scope: a non-default tenant (weak-namespace notification) and a T_CACHE row *)
Lemma tenant_key_out_of_scope :
  cscope (mkReq VConfigRemove (PRemove (bl "d" ++ [2] ++ bl "g" ++ [2] ++ bl "t1"))) = false /\
  cscope (mkReq VTableManagerReq (PTab (TSet T_CACHE_B (bl "k") (bl "v")))) = false.
Proof. vm_compute. split; reflexivity. Qed.
