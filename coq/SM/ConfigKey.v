(** Strings (UTF-8 byte lists), their order (= Rust [String] order = BTree order), and the
    model of [ConfigKey], [ConfigKey::build_key] and [impl From<&str> for ConfigKey]
    (src/config/core.rs:39-103).  Executable definitions only. *)
From RN Require Export Base.Res Base.SMap.
Local Open Scope N_scope.

Definition str := list N.

(** lexicographic order on byte lists: the order of Rust [str]/[String] *)
Fixpoint str_cmp (a b : str) : comparison :=
  match a, b with
  | [], [] => Eq
  | [], _ :: _ => Lt
  | _ :: _, [] => Gt
  | x :: a', y :: b' =>
      match N.compare x y with
      | Eq => str_cmp a' b'
      | c => c
      end
  end.

Definition str_eqb (a b : str) : bool :=
  match str_cmp a b with Eq => true | _ => false end.

Definition str_is_empty (a : str) : bool := match a with [] => true | _ => false end.

(** [a.rfind(b).is_some()]: [b] occurs in [a] as a contiguous substring *)
Fixpoint is_prefix (p s : str) : bool :=
  match p, s with
  | [], _ => true
  | _ :: _, [] => false
  | x :: p', y :: s' => (x =? y) && is_prefix p' s'
  end.

Fixpoint str_contains (a b : str) : bool :=
  is_prefix b a || match a with [] => false | _ :: a' => str_contains a' b end.

Record key := mkKey { k_data : str; k_group : str; k_tenant : str }.

(** order used for the canonical representation of HashMap<ConfigKey,_>:
    tenant, then group, then data_id (the order of the tenant index) *)
Definition key_cmp (a b : key) : comparison :=
  match str_cmp (k_tenant a) (k_tenant b) with
  | Eq => match str_cmp (k_group a) (k_group b) with
          | Eq => str_cmp (k_data a) (k_data b)
          | c => c
          end
  | c => c
  end.

Definition key_eqb (a b : key) : bool :=
  match key_cmp a b with Eq => true | _ => false end.

Definition SEP : N := 2.

(** [build_key]: data_id \x02 group [\x02 tenant]; the tenant part is omitted when empty *)
Definition build_key (k : key) : str :=
  if str_is_empty (k_tenant k)
  then k_data k ++ [SEP] ++ k_group k
  else k_data k ++ [SEP] ++ k_group k ++ [SEP] ++ k_tenant k.

(** [value.split('\x02')]: always at least one field *)
Fixpoint split_sep (s : str) (cur : str) : list str :=
  match s with
  | [] => [rev cur]
  | c :: s' => if c =? SEP then rev cur :: split_sep s' [] else split_sep s' (c :: cur)
  end.

(** [From<&str>]: the first three fields, missing ones are "" (further fields are dropped) *)
Definition key_of_string (s : str) : key :=
  let l := split_sep s [] in
  mkKey (nth 0 l []) (nth 1 l []) (nth 2 l []).

(** fields the round trip is claimed for: no separator byte inside *)
Definition wf_field (s : str) : bool := forallb (fun c => negb (c =? SEP)) s.
Definition wf_key (k : key) : bool := wf_field (k_data k) && wf_field (k_group k) && wf_field (k_tenant k).

(** a necessary condition of [param_utils::is_valid] (src/config/utils.rs): non-empty, and every
    ASCII byte is alphanumeric or one of "_-.:"  (non-ASCII bytes belong to multi-byte
    characters whose class [char::is_alphanumeric] decides from Unicode tables: not modelled,
    hence "necessary"; on ASCII-only strings it is exact) *)
Definition ascii_alnum (c : N) : bool :=
  ((48 <=? c) && (c <=? 57)) || ((65 <=? c) && (c <=? 90)) || ((97 <=? c) && (c <=? 122)).
Definition valid_char (c : N) : bool := (c =? 95) || (c =? 45) || (c =? 46) || (c =? 58).
Definition is_valid_nec (s : str) : bool :=
  negb (str_is_empty s) && forallb (fun c => (128 <=? c) || ascii_alnum c || valid_char c) s.
