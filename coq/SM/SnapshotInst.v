(** Concrete instances of the component interface of SM/Snapshot.v:
    (1) a register per component (state = a counter, like a sequence's next id) for which the
        component laws are PROVED, so that the hypotheses of the C01 theorems are satisfiable
        by a concrete non-trivial node;
    (2) a key-value component (like the user table) used for the regression pair of the
        interrupted compaction: writer without truncate vs the repaired writer. *)
From RN Require Import SM.Replay SM.ReplayProofs RaftLog.SnapFileProofs.
From Coq Require Import Ascii Lia.
Local Open Scope string_scope.

Definition tree_of (c : comp) : list N :=
  bytes_of_lit match c with
  | KSequence => "T_SEQUENCE" | KConfig => "T_CONFIG" | KTable => "T_USER"
  | KNamespace => "T_NAMESPACE" | KMcp => "T_MCP_SERVER" | KNaming => "T_NAMING_INSTANCE"
  | KCache => "T_DIRECT_CACHE"
  end.

Lemma bytes_eqb_refl a : bytes_eqb a a = true.
Proof. induction a as [| x a IH]; simpl; [reflexivity |]. now rewrite N.eqb_refl, IH. Qed.

Lemma bytes_eqb_eq a b : bytes_eqb a b = true <-> a = b.
Proof.
  split; [| intros ->; apply bytes_eqb_refl].
  revert b. induction a as [| x a IH]; intros [| y b]; simpl; try discriminate; [reflexivity |].
  intros E. apply andb_true_iff in E. destruct E as [E1 E2]. apply N.eqb_eq in E1. f_equal; auto.
Qed.

(** ** a small record codec (tree, key, value), bodies shorter than 128 bytes *)
Definition enc_rec (r : record) : list N :=
  N.of_nat (List.length (rtree r)) :: rtree r ++ N.of_nat (List.length (rkey r)) :: rkey r ++ rval r.

Definition dec_body (b : list N) : option record :=
  match b with
  | [] => None
  | tl :: rest =>
      let tb := firstn (N.to_nat tl) rest in
      match skipn (N.to_nat tl) rest with
      | [] => None
      | kl :: rest2 =>
          Some (mkRec tb (firstn (N.to_nat kl) rest2) (skipn (N.to_nat kl) rest2))
      end
  end.

(** frames shorter than 128 bytes have a one-byte length prefix *)
Definition dec_frame1 (f : list N) : option record :=
  match f with [] => None | _ :: body => dec_body body end.

(** ** (1) registers *)
Definition rapply (_ : comp) (s m : N) : N := (s + m)%N.
Definition rsnap (c : comp) (s : N) : list record := [mkRec (tree_of c) (bytes_of_lit "k") [s]].
Definition rload (_ : comp) (_ : load_msg) (s : N) (r : record) : N :=
  match rval r with [v] => v | _ => s end.
Definition rinit (_ : comp) : N := 0%N.
Definition req_ (_ : comp) (a b : N) : Prop := a = b.

Lemma reg_snap_routed : forall c s r, In r (rsnap c s) -> routed_to c (rtree r) (rkey r).
Proof. intros c s r [<- | []]. destruct c; eexists; reflexivity. Qed.

Lemma reg_roundtrip : forall c s, req_ c (fold_left (cload_routed N rload c) (rsnap c s) (rinit c)) s.
Proof. intros c s. destruct c; reflexivity. Qed.

Definition reg_hist : list (entry N) :=
  [Some (KConfig, 5%N); Some (KSequence, 1%N); None; Some (KTable, 7%N); Some (KConfig, 2%N);
   Some (KNamespace, 3%N); Some (KMcp, 4%N); Some (KNaming, 6%N); Some (KCache, 9%N); Some (KSequence, 1%N)].

Definition reg_hdr : list N := [8; 5]%N.

(** the hypotheses of C01_restart_reproduces hold for this node, a history over all seven
    components and the compaction point 6 *)
Example reg_in_scope :
  (6 <= List.length reg_hist)%nat /\
  codec_ok enc_rec dec_frame1 reg_hdr
           (build_snapshot N rsnap (run N N rapply (firstn 6 reg_hist) (init_node N rinit))) /\
  run N N rapply reg_hist (init_node N rinit) KConfig = 7%N /\
  run N N rapply reg_hist (init_node N rinit) KSequence = 2%N.
Proof.
  split; [simpl; lia |]. split; [| split; reflexivity].
  split; [split; [discriminate | split; [repeat constructor | reflexivity]] |]. split; [simpl; lia |].
  match goal with |- Forall ?P ?l => let l' := eval vm_compute in l in change (Forall P l') end.
  repeat (apply Forall_cons; [split; [vm_compute; reflexivity | split; [discriminate | split; [repeat constructor | reflexivity]]] |]).
  apply Forall_nil.
Qed.

(** compaction concurrent with apply: the Config register takes its record one entry after
    the header's last_index; the restart replays that entry again (for a sequence: an id is
    skipped; for a config history: a duplicated history item) *)
Definition racy_hist : list (entry N) := [Some (KConfig, 5%N); Some (KConfig, 2%N)].

Lemma concurrent_compaction_double_applies :
  run N N rapply racy_hist (init_node N rinit) KConfig = 7%N /\
  restart_racy N N rapply rsnap rload rinit racy_hist 1 (fun _ => 0%nat) KConfig = 7%N /\
  restart_racy N N rapply rsnap rload rinit racy_hist 1 (fun c => match c with KConfig => 1%nat | _ => 0%nat end) KConfig = 9%N.
Proof. repeat split. Qed.

(** ** (2) key-value component *)
Inductive kvmsg := KSet (k : list N) (v : list N) | KDel (k : list N).
Definition kvstate := list (list N * list N).

Definition removek (k : list N) (s : kvstate) : kvstate :=
  filter (fun kv => negb (bytes_eqb (fst kv) k)) s.
Fixpoint lookupk (k : list N) (s : kvstate) : option (list N) :=
  match s with
  | [] => None
  | (k', v) :: s' => if bytes_eqb k' k then Some v else lookupk k s'
  end.

Definition kapply (_ : comp) (s : kvstate) (m : kvmsg) : kvstate :=
  match m with KSet k v => (removek k s ++ [(k, v)])%list | KDel k => removek k s end.
Definition ksnap (c : comp) (s : kvstate) : list record :=
  map (fun kv => mkRec (tree_of c) (fst kv) (snd kv)) s.
Definition kload (_ : comp) (_ : load_msg) (s : kvstate) (r : record) : kvstate :=
  (removek (rkey r) s ++ [(rkey r, rval r)])%list.
Definition kinit (_ : comp) : kvstate := [].

Definition kb (s : string) : list N := bytes_of_lit s.

(** users a, b, c are created; c is deleted again *)
Definition kv_hist : list (entry kvmsg) :=
  [Some (KTable, KSet (kb "a") [1]%N); Some (KTable, KSet (kb "b") [2]%N); Some (KTable, KSet (kb "c") [3]%N);
   Some (KTable, KDel (kb "c"))].

Definition kv_hdr : list N := [8; 5]%N.

(** a compaction attempt at index 3 was interrupted after writing its file (a, b, c); it is not
    in the catalogue, so the next attempt (at index 4) uses the same snapshot id = same path *)
Definition kv_leftover : list N :=
  snapshot_file kvstate ksnap enc_rec write_truncate [] kv_hdr
                (run kvstate kvmsg kapply (firstn 3 kv_hist) (init_node kvstate kinit)).

Definition kv_restart (W : list N -> list N -> list N) : res (node kvstate) :=
  restart kvstate kvmsg kapply ksnap kload kinit enc_rec dec_frame1 W kv_leftover kv_hdr kv_hist 4.

Definition served (r : res (node kvstate)) (k : list N) : res (option (list N)) :=
  res_map (fun nd => lookupk k (nd KTable)) r.

(** before the stop the node serves a and b, and c is gone *)
Lemma kv_before_stop :
  let nd := run kvstate kvmsg kapply kv_hist (init_node kvstate kinit) in
  lookupk (kb "a") (nd KTable) = Some [1]%N /\ lookupk (kb "b") (nd KTable) = Some [2]%N /\
  lookupk (kb "c") (nd KTable) = None.
Proof. repeat split. Qed.

(** the writer without truncate: the deleted user c is served again after the restart *)
Lemma kv_in_place_resurrects :
  served (kv_restart write_in_place) (kb "a") = Ok (Some [1]%N) /\
  served (kv_restart write_in_place) (kb "b") = Ok (Some [2]%N) /\
  served (kv_restart write_in_place) (kb "c") = Ok (Some [3]%N).
Proof. vm_compute. repeat split. Qed.

(** the repaired writer: the restart serves exactly what was served before the stop *)
Lemma kv_truncate_exact :
  served (kv_restart write_truncate) (kb "a") = Ok (Some [1]%N) /\
  served (kv_restart write_truncate) (kb "b") = Ok (Some [2]%N) /\
  served (kv_restart write_truncate) (kb "c") = Ok None.
Proof. vm_compute. repeat split. Qed.

(** the statement of interrupted_compaction_harmless is false of the old writer *)
Lemma interrupted_compaction_harmless_refuted :
  exists (hist : list (entry kvmsg)) (k : nat) (leftover hdr : list N),
    res_map (fun nd => lookupk (kb "c") (nd KTable))
            (restart kvstate kvmsg kapply ksnap kload kinit enc_rec dec_frame1 write_in_place leftover hdr hist k)
    <> res_map (fun nd => lookupk (kb "c") (nd KTable))
               (restart kvstate kvmsg kapply ksnap kload kinit enc_rec dec_frame1 write_in_place [] hdr hist k).
Proof. exists kv_hist, 4%nat, kv_leftover, kv_hdr. vm_compute. discriminate. Qed.

(** ** last-write-wins components are replay-idempotent (so a compaction that raced with
    later applies is harmless for them: ReplayProofs.restart_racy_idempotent); the register
    (an accumulating component, like a sequence or a history list) is not. *)
Fixpoint lookupl (k : list N) (s : kvstate) : option (list N) :=
  match s with
  | [] => None
  | (k', v) :: s' =>
      match lookupl k s' with
      | Some x => Some x
      | None => if bytes_eqb k' k then Some v else None
      end
  end.

Definition keq (_ : comp) (s1 s2 : kvstate) : Prop := forall k, lookupl k s1 = lookupl k s2.

Lemma lookupl_app k s1 s2 :
  lookupl k (s1 ++ s2)%list = match lookupl k s2 with Some x => Some x | None => lookupl k s1 end.
Proof.
  induction s1 as [| [k' v] s1 IH]; simpl.
  - now destruct (lookupl k s2).
  - rewrite IH. destruct (lookupl k s2); [reflexivity |]. reflexivity.
Qed.

Lemma lookupl_removek k k' s :
  lookupl k (removek k' s) = if bytes_eqb k' k then None else lookupl k s.
Proof.
  induction s as [| [k2 v] s IH]; simpl.
  - now destruct (bytes_eqb k' k).
  - destruct (bytes_eqb k2 k') eqn:E2; simpl.
    + apply bytes_eqb_eq in E2. subst k2. rewrite IH.
      destruct (bytes_eqb k' k); [reflexivity |]. now destruct (lookupl k s).
    + rewrite IH. destruct (bytes_eqb k' k) eqn:E1; [| reflexivity].
      apply bytes_eqb_eq in E1. subst k. now rewrite E2.
Qed.

Definition updk (k : list N) (d : option (list N)) (m : kvmsg) : option (list N) :=
  match m with
  | KSet k' v => if bytes_eqb k' k then Some v else d
  | KDel k' => if bytes_eqb k' k then None else d
  end.

Lemma lookupl_kapply c k s m : lookupl k (kapply c s m) = updk k (lookupl k s) m.
Proof.
  destruct m as [k' v | k']; simpl.
  - rewrite lookupl_app. simpl. rewrite lookupl_removek. now destruct (bytes_eqb k' k).
  - apply lookupl_removek.
Qed.

Lemma lookupl_fold c k h : forall s,
  lookupl k (fold_left (kapply c) h s) = fold_left (updk k) h (lookupl k s).
Proof. induction h as [| m h IH]; intros s; simpl; [reflexivity |]. now rewrite IH, lookupl_kapply. Qed.

Lemma lw_const_or_id k h :
  (forall d, fold_left (updk k) h d = d) \/ (exists c, forall d, fold_left (updk k) h d = c).
Proof.
  induction h as [| m h IH]; [left; reflexivity |].
  destruct IH as [ID | [c CO]].
  - simpl. destruct m as [k' v | k']; simpl; destruct (bytes_eqb k' k);
      first [ right; eexists; intros d; rewrite ID; reflexivity | left; intros d; apply ID ].
  - right. exists c. intros d. simpl. apply CO.
Qed.

Lemma kv_replay_idempotent : forall c, replay_idempotent kvstate kvmsg kapply keq c.
Proof.
  intros c s h k. rewrite !lookupl_fold.
  destruct (lw_const_or_id k h) as [ID | [x CO]]; [now rewrite !ID | now rewrite !CO].
Qed.

Lemma keq_apply_cong : forall c s1 s2 m, keq c s1 s2 -> keq c (kapply c s1 m) (kapply c s2 m).
Proof. intros c s1 s2 m H k. rewrite !lookupl_kapply. now rewrite H. Qed.

(** the register is not replay-idempotent *)
Lemma reg_not_replay_idempotent : ~ replay_idempotent N N rapply req_ KConfig.
Proof. intros H. specialize (H 0%N [1%N]). vm_compute in H. discriminate. Qed.

(** ** the lag of the log cut is NECESSARY (C04).  Register node, history [reg_hist], previous
    snapshot at 2, new one at 6.  Were the log cut at the NEW snapshot's index (6) while the catalogue
    still names the previous snapshot (2) - a kill between the two actors' writes - the entries 3..6
    would be gone: the restarted Config register holds 5 + 2 = 7 ... but the live node's Table register
    holds 7 and the restarted one 0. *)
Lemma cut_at_new_snapshot_refuted :
  let live := run N N rapply reg_hist (init_node N rinit) in
  let restarted :=
      start_up_cut N N rapply rload rinit
                   (Some (2, build_snapshot N rsnap (run N N rapply (firstn 2 reg_hist) (init_node N rinit))))
                   6 (skipn 6 reg_hist) (length reg_hist) in
  live KTable = 7%N /\ restarted KTable = 0%N /\
  (* with the lag (cut at the previous snapshot, 2) the same disk restarts correctly *)
  (forall c, start_up_cut N N rapply rload rinit
                   (Some (2, build_snapshot N rsnap (run N N rapply (firstn 2 reg_hist) (init_node N rinit))))
                   2 (skipn 2 reg_hist) (length reg_hist) c = live c).
Proof. vm_compute. split; [reflexivity | split; [reflexivity | intros c; destruct c; reflexivity]]. Qed.
