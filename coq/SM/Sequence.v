(** Model of the sequence layers:
      src/common/sequence_utils.rs  SimpleSequence (config history ids, high-water mark)
      src/sequence/core.rs          SequenceDbManager (replicated next-free counters)
      src/sequence/model.rs         SeqRange / SeqGroup (per-node double-buffered cache)
      src/sequence/mod.rs           SequenceManager::do_next_id and the range glue
    Literal transcription; u64 arithmetic is unbounded N (no-overflow premise: ids < 2^63).
    Executable definitions only. *)
From RN Require Export SM.ConfigKey.
Local Open Scope N_scope.

(** * SimpleSequence *)
Record sseq := mkSeq { sq_cache : N; sq_batch : N; sq_last : N }.

Definition sseq_new (last_id batch : N) : sseq := mkSeq 0 batch last_id.

Definition set_last_id (s : sseq) (last_id : N) : sseq := mkSeq 0 (sq_batch s) last_id.

Definition set_valid_last_id (s : sseq) (last_id : N) : sseq :=
  if sq_last s + sq_cache s <? last_id then mkSeq 0 (sq_batch s) last_id else s.

(** [cache_size -= 1] on u64: with batch_size = 0 this underflows (panic in debug builds);
    the model reports that case as [None] *)
Definition next_state (s : sseq) : option (sseq * (N * option N)) :=
  let '(upd, cache) :=
    if sq_cache s =? 0 then (Some (sq_last s + sq_batch s), sq_batch s) else (None, sq_cache s) in
  if cache =? 0 then None
  else Some (mkSeq (cache - 1) (sq_batch s) (sq_last s + 1), (sq_last s + 1, upd)).

Definition next_id_simple (s : sseq) : option (sseq * N) :=
  let cache := if sq_cache s =? 0 then sq_batch s else sq_cache s in
  if cache =? 0 then None
  else Some (mkSeq (cache - 1) (sq_batch s) (sq_last s + 1), sq_last s + 1).

(** returns [start,end]; size 0 returns (0,0) and leaves the state alone *)
Definition next_section (s : sseq) (size : N) : sseq * (N * N) :=
  if size =? 0 then (s, (0, 0))
  else let start := sq_last s + 1 in
       let end_ := start + size - 1 in
       (mkSeq 0 (sq_batch s) end_, (start, end_)).

Definition get_end_id (s : sseq) : N := sq_last s + sq_cache s.

(** * SequenceDbManager: key -> next free id *)
Definition seqdb := list (str * N).

Definition db_next_id (m : seqdb) (k : str) : seqdb * N :=
  match sm_get str_cmp m k with
  | Some id => (sm_put str_cmp m k (id + 1), id)
  | None => (sm_put str_cmp m k (1 + 1), 1)
  end.

Definition db_next_range (m : seqdb) (k : str) (step : N) : seqdb * N :=
  match sm_get str_cmp m k with
  | Some id => (sm_put str_cmp m k (id + step), id)
  | None => (sm_put str_cmp m k (step + 1), 1)
  end.

Inductive seqreq :=
| RNextId (k : str)
| RNextRange (k : str) (step : N)
| RSetId (k : str) (id : N)
| RRemoveId (k : str).

Inductive seqres := SNextId (id : N) | SNextRange (start len : N) | SNone.

Definition db_apply (m : seqdb) (r : seqreq) : seqdb * seqres :=
  match r with
  | RNextId k => let '(m', id) := db_next_id m k in (m', SNextId id)
  | RNextRange k step => let '(m', st) := db_next_range m k step in (m', SNextRange st step)
  | RSetId k id => (sm_put str_cmp m k id, SNone)
  | RRemoveId k => (sm_del str_cmp m k, SNone)
  end.

(** snapshot = the (key, next-free) records; loading inserts each record *)
Definition db_snapshot (m : seqdb) : list (str * N) := m.
Definition db_load (recs : list (str * N)) : seqdb :=
  fold_left (fun m kv => sm_put str_cmp m (fst kv) (snd kv)) recs [].

(** InstallSnapshot on a RUNNING node: the records are loaded over the live counters
    (load_snapshot_record inserts, i.e. overwrites) *)
Definition db_install (m : seqdb) (recs : list (str * N)) : seqdb :=
  fold_left (fun m kv => sm_put str_cmp m (fst kv) (snd kv)) recs m.

(** * SeqRange / SeqGroup *)
Record srange := mkRange { r_start : N; r_len : N; r_cur : N }.

Definition range_new (start len : N) : srange := mkRange start len 0.
Definition range_next (r : srange) : option N * srange :=
  if r_len r <=? r_cur r then (None, r)
  else (Some (r_start r + r_cur r), mkRange (r_start r) (r_len r) (r_cur r + 1)).
Definition range_has_next (r : srange) : bool := r_cur r <? r_len r.

Record sgroup := mkGroup { g_a : srange; g_b : srange; g_use_a : bool; g_step : N; g_adding : bool }.

Definition group_new (step : N) : sgroup := mkGroup (range_new 0 0) (range_new 0 0) false step false.

Definition group_do_next (g : sgroup) : option N * sgroup :=
  if g_use_a g
  then let '(v, r) := range_next (g_a g) in (v, mkGroup r (g_b g) (g_use_a g) (g_step g) (g_adding g))
  else let '(v, r) := range_next (g_b g) in (v, mkGroup (g_a g) r (g_use_a g) (g_step g) (g_adding g)).

Definition group_switch (g : sgroup) : sgroup :=
  mkGroup (g_a g) (g_b g) (negb (g_use_a g)) (g_step g) (g_adding g).

Definition group_next_id (g : sgroup) : option N * sgroup :=
  match group_do_next g with
  | (None, g1) => group_do_next (group_switch g1)
  | r => r
  end.

(** apply_range (repaired: "fix: SeqGroup::apply_range keeps the older range current"):
    first switch to the spare range when the current one is used up and the spare still has
    ids; then [use_a && !a.has_next() || !use_a && b.has_next()] -> renew A, else renew B *)
Definition group_apply_range_old (g : sgroup) (start len : N) : sgroup :=
  if (g_use_a g && negb (range_has_next (g_a g))) || (negb (g_use_a g) && range_has_next (g_b g))
  then mkGroup (range_new start len) (g_b g) (g_use_a g) (g_step g) (g_adding g)
  else mkGroup (g_a g) (range_new start len) (g_use_a g) (g_step g) (g_adding g).

Definition group_apply_range (g : sgroup) (start len : N) : sgroup :=
  let g1 :=
    if (g_use_a g && negb (range_has_next (g_a g)) && range_has_next (g_b g))
       || (negb (g_use_a g) && negb (range_has_next (g_b g)) && range_has_next (g_a g))
    then group_switch g else g in
  group_apply_range_old g1 start len.

Definition group_mark (g : sgroup) : sgroup := mkGroup (g_a g) (g_b g) (g_use_a g) (g_step g) true.
Definition group_clear (g : sgroup) : sgroup := mkGroup (g_a g) (g_b g) (g_use_a g) (g_step g) false.

Definition group_need_apply (g : sgroup) : bool :=
  if g_adding g then false
  else negb (range_has_next (g_a g)) || negb (range_has_next (g_b g)).

(** * SequenceManager glue (src/sequence/mod.rs): do_next_id and the two asynchronous paths.
    A node holds one SeqGroup per key; the replicated counter is a [seqdb]. *)
Definition node_groups := list (str * sgroup).

Definition SEQ_STEP : N := 100.

(** do_next_id *)
Definition mgr_do_next (ng : node_groups) (k : str) : node_groups * (option N * bool) :=
  match sm_get str_cmp ng k with
  | Some g => let '(v, g') := group_next_id g in
              (sm_put str_cmp ng k g', (v, group_need_apply g'))
  | None => (sm_put str_cmp ng k (group_new SEQ_STEP), (None, true))
  end.

(** GetNextId: cached id, or NextRange round trip + handle_result(UseFromRange) *)
Definition mgr_get (ng : node_groups) (db : seqdb) (k : str) : node_groups * seqdb * option N :=
  let '(ng1, (v, _)) := mgr_do_next ng k in
  match v with
  | Some id => (ng1, db, Some id)
  | None =>
      let '(db', start) := db_next_range db k SEQ_STEP in
      let ng2 := match sm_get str_cmp ng1 k with
                 | Some g => sm_put str_cmp ng1 k (group_apply_range g start SEQ_STEP)
                 | None => ng1
                 end in
      let '(ng3, (v2, _)) := mgr_do_next ng2 k in
      (ng3, db', v2)
  end.

(** FillRange, first half: need_apply -> mark_apply -> NextRange; returns the range in flight *)
Definition mgr_fill_start (ng : node_groups) (db : seqdb) (k : str)
  : node_groups * seqdb * option (N * N) :=
  match sm_get str_cmp ng k with
  | Some g =>
      if group_need_apply g then
        let '(db', start) := db_next_range db k SEQ_STEP in
        (sm_put str_cmp ng k (group_mark g), db', Some (start, SEQ_STEP))
      else (ng, db, None)
  | None => (ng, db, None)
  end.

(** FillRange, second half: handle_result(FillRange): apply_range + clear_apply_mark *)
Definition mgr_fill_finish (ng : node_groups) (k : str) (r : N * N) : node_groups :=
  match sm_get str_cmp ng k with
  | Some g => sm_put str_cmp ng k (group_clear (group_apply_range g (fst r) (snd r)))
  | None => ng
  end.
