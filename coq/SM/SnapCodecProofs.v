(** Round trips of the codecs of SM/SnapCodec.v (over Codec/PbWireProofs.parse_enc_fields). *)
From RN Require Import SM.SnapCodec Codec.PbWireProofs Codec.BufReaderProofs.
From Coq Require Import Lia ZifyBool ZifyNat ZifyN.
Local Open Scope N_scope.
Local Notation length := List.length.

Definition wf_bytes (b : list N) : Prop := all_bytes b /\ N.of_nat (length b) < 2 ^ 64.

Lemma wf_len_field n b : n < 2 ^ 29 -> wf_bytes b -> PbWire.wf_field (n, WLen b).
Proof. intros Hn [Ha Hl]. split; [exact Hn | split; assumption]. Qed.

Lemma wf_var_field n v : n < 2 ^ 29 -> v < 2 ^ 64 -> PbWire.wf_field (n, WVar v).
Proof. intros Hn Hv. split; assumption. Qed.

Lemma unframe_frame body : N.of_nat (length body) < 2 ^ 64 -> unframe (frame body) = Some body.
Proof.
  intros H. unfold unframe, frame. rewrite rdv_write_varint by exact H. now rewrite take_n_all.
Qed.

(** ** LogSnapshotItem *)
Definition wf_record (r : record) : Prop :=
  rtree r <> [] /\ wf_bytes (rtree r) /\ wf_bytes (rkey r) /\ wf_bytes (rval r) /\
  N.of_nat (length (enc_item r)) < 2 ^ 64.

Lemma wf_opt_field n b : n < 2 ^ 29 -> wf_bytes b -> Forall PbWire.wf_field (opt_field n b).
Proof. intros Hn Hb. destruct b; [constructor |]. constructor; [now apply wf_len_field | constructor]. Qed.

Lemma item_fields_wf r : wf_record r -> Forall PbWire.wf_field (item_fields r).
Proof.
  intros (_ & Ht & Hk & Hv & _). unfold item_fields.
  repeat (apply Forall_app; split); apply wf_opt_field; (assumption || reflexivity).
Qed.

Lemma item_fold r : fold_left item_step (item_fields r) (mkRec [] [] []) = r.
Proof.
  destruct r as [t k v]. unfold item_fields; cbn [rtree rkey rval].
  destruct t, k, v; reflexivity.
Qed.

Theorem item_roundtrip r : wf_record r -> dec_item_frame (frame (enc_item r)) = Some r.
Proof.
  intros W. unfold dec_item_frame. destruct W as (Hne & Ht & Hk & Hv & Hl).
  rewrite unframe_frame by exact Hl. unfold dec_item, enc_item.
  rewrite parse_enc_fields by (apply item_fields_wf; repeat split; assumption || apply Ht || apply Hk || apply Hv).
  now rewrite item_fold.
Qed.

Theorem item_rec_ok r : wf_record r -> rec_ok (enc_item r).
Proof.
  intros W. pose proof (item_fields_wf r W) as F. destruct W as (Hne & Ht & Hk & Hv & Hl).
  split; [| split; [apply enc_fields_all_bytes, F | exact Hl]].
  unfold enc_item, item_fields. destruct (rtree r) as [| x t]; [contradiction |].
  cbn [opt_field app]. rewrite enc_fields_cons. intros E.
  pose proof (enc_field_length_pos (1, WLen (x :: t))) as P.
  apply (f_equal (@length N)) in E. rewrite app_length in E. cbn [length] in E. lia.
Qed.

(** ** history items *)
Definition wf_opt (o : option str) : Prop := match o with Some b => wf_bytes b | None => True end.

Definition wf_hitem (h : hitem) : Prop :=
  h_id h < 2 ^ 64 /\ h_time h < 2 ^ 64 /\ wf_bytes (h_content h) /\ wf_opt (h_user h).

Lemma wf_opt_len n o : n < 2 ^ 29 -> wf_opt o -> Forall PbWire.wf_field (opt_len n o).
Proof. intros Hn Ho. destruct o; [constructor; [now apply wf_len_field | constructor] | constructor]. Qed.

Lemma hist_fields_wf h : wf_hitem h -> Forall PbWire.wf_field (hist_fields h).
Proof.
  intros (Hi & Ht & Hc & Hu). unfold hist_fields.
  repeat constructor; try assumption; try reflexivity; try apply Hc.
  apply wf_opt_len; [reflexivity | exact Hu].
Qed.

Theorem hist_roundtrip h : wf_hitem h -> dec_hist (enc_hist h) = Ok h.
Proof.
  intros W. unfold dec_hist, enc_hist. rewrite parse_enc_fields by now apply hist_fields_wf.
  destruct h as [i c t u]. unfold hist_fields; cbn [h_id h_content h_time h_user].
  destruct u; reflexivity.
Qed.

(** ** ConfigValueDO *)
Definition wf_value (v : cvalue) : Prop :=
  wf_bytes (cv_content v) /\ Forall wf_hitem (cv_hist v) /\
  Forall (fun h => N.of_nat (length (enc_hist h)) < 2 ^ 64) (cv_hist v) /\
  wf_opt (cv_type v) /\ wf_opt (cv_desc v).

Lemma value_fields_wf v : wf_value v -> Forall PbWire.wf_field (value_fields v).
Proof.
  intros (Hc & Hh & Hl & Ht & Hd). unfold value_fields.
  repeat (apply Forall_app; split).
  - constructor; [apply wf_len_field; [reflexivity | exact Hc] | constructor].
  - apply Forall_forall. intros f Hf. apply in_map_iff in Hf. destruct Hf as [h [<- Hin]].
    rewrite Forall_forall in Hh, Hl. apply wf_len_field; [reflexivity |]. split; [| now apply Hl].
    apply enc_fields_all_bytes, hist_fields_wf, Hh, Hin.
  - apply wf_opt_len; [reflexivity | exact Ht].
  - apply wf_opt_len; [reflexivity | exact Hd].
Qed.

Lemma val_fold_hist hs : Forall wf_hitem hs -> forall rest d,
  fold_left val_step (map (fun h => (2, WLen (enc_hist h))) hs ++ rest) (Ok d)
  = fold_left val_step rest (Ok (mkVDO (vd_content d) (vd_hist d ++ hs) (vd_type d) (vd_desc d))).
Proof.
  induction 1 as [| h hs Hh _ IH]; intros rest d.
  - cbn [map app]. rewrite app_nil_r. now destruct d.
  - cbn [map app fold_left]. cbn [val_step res_bind]. rewrite hist_roundtrip by exact Hh.
    cbn [res_map]. rewrite IH. cbn [vd_content vd_hist vd_type vd_desc]. now rewrite <- app_assoc.
Qed.

(** the DO that From<ConfigValue> builds, after `unwrap_or_default` *)
Definition do_of_value (v : cvalue) : value_do := mkDO (cv_content v) (cv_hist v) (cv_type v) (cv_desc v).

Theorem value_roundtrip v : wf_value v -> dec_value (enc_value v) = Ok (do_of_value v).
Proof.
  intros W. unfold dec_value, enc_value. rewrite parse_enc_fields by now apply value_fields_wf.
  cbn [res_bind]. destruct W as (_ & Hh & _). unfold value_fields.
  cbn [app fold_left]. cbn [val_step res_bind].
  rewrite (val_fold_hist (cv_hist v) Hh). cbn [vd_content vd_hist vd_type vd_desc app].
  unfold do_of_value. destruct (cv_type v), (cv_desc v); reflexivity.
Qed.

(** ** u64 big endian *)
Ltac Zify.zify_post_hook ::= Z.div_mod_to_equations.

Theorem be8_roundtrip n : n < 2 ^ 64 -> of_be8 (be8 n) = Some n.
Proof.
  intros H. unfold be8, of_be8. f_equal.
  change (2 ^ 64) with 18446744073709551616 in H.
  change (2 ^ 56) with 72057594037927936. change (2 ^ 48) with 281474976710656.
  change (2 ^ 40) with 1099511627776. change (2 ^ 32) with 4294967296.
  change (2 ^ 24) with 16777216. change (2 ^ 16) with 65536. change (2 ^ 8) with 256.
  lia.
Qed.

Lemma be8_length n : length (be8 n) = 8%nat.
Proof. reflexivity. Qed.

Lemma be8_all_bytes n : all_bytes (be8 n).
Proof.
  unfold be8. repeat constructor; unfold is_byte; apply N.mod_upper_bound; discriminate.
Qed.
