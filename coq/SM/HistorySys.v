(** System model for the config history ids (C19): several nodes, each with the SimpleSequence
    of its ConfigActor, one replicated log of committed publishes carrying (history_id,
    history_table_id), applied in order on every node (Raft premise).  A node allocates with
    [next_state] (ConfigAsyncCmd::Add); the write is committed or lost; followers and the leader
    itself apply entries with [set_valid_last_id] (set_config); a snapshot stores [get_end_id] and a
    restart / snapshot installation loads it with [set_last_id] (InnerSetLastId) and replays the
    log from the snapshot's index.  Executable definitions only. *)
From RN Require Export SM.Sequence.
Local Open Scope N_scope.

Record hnode := mkHN { hn_seq : sseq; hn_applied : nat }.
Definition hentry := (N * option N)%type.
Record hsys := mkHS { hs_nodes : nat -> hnode; hs_log : list hentry }.

Inductive hev :=
| HIssue (i : nat) (commit : bool)   (* node i allocates; its raft write commits or is lost *)
| HApply (i : nat)                   (* node i applies the next committed entry *)
| HFork (i j : nat)                  (* node j := restart / install from a snapshot of node i taken now *)
| HFresh (j : nat).                  (* node j := empty node (no snapshot), replays from the start *)

Definition hn_new : hnode := mkHN (sseq_new 0 100) 0.
Definition hsys_new : hsys := mkHS (fun _ => hn_new) [].

Definition upd (f : nat -> hnode) (i : nat) (x : hnode) : nat -> hnode :=
  fun j => if Nat.eqb j i then x else f j.

Definition apply_entry (q : sseq) (e : hentry) : sseq :=
  match snd e with Some m => set_valid_last_id q m | None => q end.

Definition hstep (s : hsys) (e : hev) : hsys :=
  match e with
  | HIssue i c =>
      let n := hs_nodes s i in
      match next_state (hn_seq n) with
      | Some (q, r) => mkHS (upd (hs_nodes s) i (mkHN q (hn_applied n))) (if c then hs_log s ++ [r] else hs_log s)
      | None => s
      end
  | HApply i =>
      let n := hs_nodes s i in
      match nth_error (hs_log s) (hn_applied n) with
      | Some en => mkHS (upd (hs_nodes s) i (mkHN (apply_entry (hn_seq n) en) (S (hn_applied n)))) (hs_log s)
      | None => s
      end
  | HFork i j =>
      let n := hs_nodes s i in
      mkHS (upd (hs_nodes s) j (mkHN (set_last_id (sseq_new 0 100) (get_end_id (hn_seq n))) (hn_applied n))) (hs_log s)
  | HFresh j => mkHS (upd (hs_nodes s) j hn_new) (hs_log s)
  end.

Definition hrun (s : hsys) (evs : list hev) : hsys := fold_left hstep evs s.

(** the two premises on allocations:
    marks_committed   - a write that opens a new block (carries a high-water mark) is committed;
    issuer_caught_up  - a node whose write commits has applied the whole log (it is the leader and
                        its state machine is up to date) *)
Definition ev_ok (s : hsys) (e : hev) : Prop :=
  match e with
  | HIssue i c =>
      match next_state (hn_seq (hs_nodes s i)) with
      | Some (_, (_, mk)) =>
          (mk <> None -> c = true) /\ (c = true -> hn_applied (hs_nodes s i) = length (hs_log s))
      | None => True
      end
  | _ => True
  end.

(** the same without marks_committed *)
Definition ev_caught_up (s : hsys) (e : hev) : Prop :=
  match e with
  | HIssue i c => c = true -> hn_applied (hs_nodes s i) = length (hs_log s)
  | _ => True
  end.

Fixpoint run_ok (P : hsys -> hev -> Prop) (s : hsys) (evs : list hev) : Prop :=
  match evs with
  | [] => True
  | e :: r => P s e /\ run_ok P (hstep s e) r
  end.

Definition log_ids (s : hsys) : list N := map fst (hs_log s).
