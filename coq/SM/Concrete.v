(** Concrete instances of the component interface of SM/Snapshot.v
    {apply; snapshot; load_record; observe}:

      Config    the ConfigActor store of SM/Config.v (builder E): snapshot = one T_CONFIG record
                per key (key = build_key, value = ConfigValueDO bytes) followed by the
                T_SEQUENCE/"SEQ_CONFIG" record (id_to_bin(sequence.get_end_id()));
                load = ConfigCmd::SetFullValue(ConfigKey::from(key), ConfigValueDO::from_bytes(v).into())
                / ConfigCmd::InnerSetLastId(bin_to_id(v))            (src/config/core.rs:654-673,
                src/raft/filestore/raftdata.rs:61-77)
      Sequence  SequenceDbManager of SM/Sequence.v: one T_SEQUENCE record per key with
                id_to_bin(next free id); load = insert                  (src/sequence/core.rs:48-66)
      Table     TableManager rows (src/raft/db/table.rs): BTreeMap per table, snapshot = one
                record per row with tree = the table's name; load = TableManagerReq::Set.  The
                per-table sequence (`seq`) is not persisted by the code and not modelled.
      the four remaining components are the unit component (no state, no records).

    Model only: no proofs in this file. *)
From RN Require Export SM.SnapCodec SM.Replay.
Local Open Scope N_scope.

Definition T_CONFIG_B : list N := bytes_of_lit "T_CONFIG".
Definition T_SEQUENCE_B : list N := bytes_of_lit "T_SEQUENCE".
Definition T_USER_B : list N := bytes_of_lit "T_USER".
Definition T_CACHE_B : list N := bytes_of_lit "T_CACHE".
Definition SEQ_CONFIG_B : list N := bytes_of_lit "SEQ_CONFIG".
Global Arguments T_CONFIG_B : simpl never.
Global Arguments T_SEQUENCE_B : simpl never.
Global Arguments T_USER_B : simpl never.
Global Arguments T_CACHE_B : simpl never.
Global Arguments SEQ_CONFIG_B : simpl never.

(** ** Sequence *)
Definition seq_apply (m : seqdb) (r : seqreq) : seqdb := fst (db_apply m r).

Definition seq_snap (m : seqdb) : list record :=
  map (fun kv => mkRec T_SEQUENCE_B (fst kv) (be8 (snd kv))) m.

(** load_snapshot_record: bin_to_id_result(value)?, String::from_utf8(key)?, insert *)
Definition seq_load (m : seqdb) (r : record) : seqdb :=
  match of_be8 (rval r) with
  | Some v => sm_put str_cmp m (rkey r) v
  | None => m
  end.

(** ** Table rows *)
Definition tables := list (str * list (str * str)).

Inductive tabreq :=
| TSet (t k v : str)       (* TableManagerReq::Set (last_seq_id only touches the unmodelled seq) *)
| TRemove (t k : str)
| TDrop (t : str)
| TNextId (t : str)        (* creates the table when it does not exist *)
| TOther.                  (* SetSeqId, SetUseAutoId (Err), ReloadTable: no row changes *)

Definition tab_rows (T : tables) (t : str) : list (str * str) :=
  match sm_get str_cmp T t with Some rows => rows | None => [] end.

Definition tab_apply (T : tables) (r : tabreq) : tables :=
  match r with
  | TSet t k v => sm_put str_cmp T t (sm_put str_cmp (tab_rows T t) k v)
  | TRemove t k =>
      match sm_get str_cmp T t with
      | Some rows => sm_put str_cmp T t (sm_del str_cmp rows k)
      | None => T
      end
  | TDrop t => sm_del str_cmp T t
  | TNextId t =>
      match sm_get str_cmp T t with
      | Some _ => T
      | None => sm_put str_cmp T t []
      end
  | TOther => T
  end.

Definition tab_get (T : tables) (t k : str) : option str := sm_get str_cmp (tab_rows T t) k.

Definition tab_snap (T : tables) : list record :=
  flat_map (fun tr => map (fun kv => mkRec (fst tr) (fst kv) (snd kv)) (snd tr)) T.

Definition tab_load (T : tables) (r : record) : tables := tab_apply T (TSet (rtree r) (rkey r) (rval r)).

(** ** Config *)
Section Cfg.
  Variable H : str -> str.

  Definition cfg_apply (s : store) (c : raft_cmd) : store := fst (apply_raft H s c).

  Definition cfg_snap (s : store) : list record :=
    map (fun kv => mkRec T_CONFIG_B (build_key (fst kv)) (enc_value (snd kv))) (st_cache s)
    ++ [mkRec T_SEQUENCE_B SEQ_CONFIG_B (be8 (get_end_id (st_seq s)))].

  Definition cfg_load (lm : load_msg) (s : store) (r : record) : store :=
    match lm with
    | LSetFullValue =>
        match dec_value (rval r) with
        | Ok d => inner_set_config s (key_of_string (rkey r)) (value_of_do H d)
        | _ => s                     (* `?`: load_snapshot returns Err, the record is skipped *)
        end
    | LInnerSetLastId =>
        match of_be8 (rval r) with
        | Some id => mkStore (st_cache s) (st_index s) (set_last_id (st_seq s) id)
        | None => s
        end
    | _ => s
    end.

  (** ** the node: one state type for the seven components *)
  Inductive cstate := SCfg (s : store) | SSeq (m : seqdb) | STab (T : tables) | SUnit.
  Inductive cmsg := MCfg (c : raft_cmd) | MSeq (r : seqreq) | MTab (r : tabreq).

  Definition n_apply (c : comp) (st : cstate) (m : cmsg) : cstate :=
    match c, st, m with
    | KConfig, SCfg s, MCfg x => SCfg (cfg_apply s x)
    | KSequence, SSeq d, MSeq r => SSeq (seq_apply d r)
    | KTable, STab T, MTab r => STab (tab_apply T r)
    | _, _, _ => st
    end.

  Definition n_init (c : comp) : cstate :=
    match c with
    | KConfig => SCfg store_new
    | KSequence => SSeq []
    | KTable => STab []
    | _ => SUnit
    end.

  Definition n_snap (c : comp) (st : cstate) : list record :=
    match c, st with
    | KConfig, SCfg s => cfg_snap s
    | KSequence, SSeq d => seq_snap d
    | KTable, STab T => tab_snap T
    | _, _ => []
    end.

  Definition n_load (c : comp) (lm : load_msg) (st : cstate) (r : record) : cstate :=
    match c, st with
    | KConfig, SCfg s => SCfg (cfg_load lm s r)
    | KSequence, SSeq d => match lm with LLoadRecord => SSeq (seq_load d r) | _ => st end
    | KTable, STab T => match lm with LTableSet => STab (tab_load T r) | _ => st end
    | _, _ => st
    end.

  (** ** what the queries can tell apart *)
  (** config: the cache (GET, history, md5, type, desc, last_modified of every key), the set of
      listed keys, and the history-id high-water mark of the SimpleSequence *)
  Definition cfg_eq (s1 s2 : store) : Prop :=
    st_cache s1 = st_cache s2 /\
    (forall k, ti_mem (st_index s1) k = ti_mem (st_index s2) k) /\
    get_end_id (st_seq s1) = get_end_id (st_seq s2) /\ sq_batch (st_seq s1) = sq_batch (st_seq s2).

  (** tables: every row of every table (an empty table and an absent table answer alike) *)
  Definition tab_eq (T1 T2 : tables) : Prop := forall t k, tab_get T1 t k = tab_get T2 t k.
End Cfg.
