(** Proofs about SM/Snapshot.v and SM/Replay.v (C01): the tree names are closed under the
    generated routing, and a restart from snapshot + log reproduces the served state. *)
From RN Require Import SM.Replay RaftLog.SnapFileProofs Codec.BufReaderProofs.
From Coq Require Import Lia.
Local Open Scope nat_scope.

Lemma comp_eqb_refl c : comp_eqb c c = true.
Proof. destruct c; reflexivity. Qed.

Lemma comp_eqb_eq a b : comp_eqb a b = true <-> a = b.
Proof. split; [destruct a, b; simpl; congruence | intros ->; apply comp_eqb_refl]. Qed.

Lemma comp_eqb_sym a b : comp_eqb a b = comp_eqb b a.
Proof. destruct a, b; reflexivity. Qed.

(** * tree names are closed under the generated tables *)

(** a key that another component claims on the same tree through a constant-key literal
    (generated [writes]): today only ("T_SEQUENCE", "SEQ_CONFIG"), claimed by Config *)
Definition reserved_by_other (c : comp) (tree : string) (key : list N) : bool :=
  existsb (fun cw => negb (comp_eqb (fst cw) c) &&
                     existsb (fun w => match w with
                                       | WTreeKey n k => String.eqb n tree && bytes_eqb (bytes_of_lit k) key
                                       | _ => false
                                       end) (snd cw)) writes.

(** the tables that TableManager is used with (user/mod.rs: T_USER; raft/cache: T_CACHE) *)
Definition table_names_in_use : list string := ["T_USER"; "T_CACHE"]%string.

Definition routed_to (c : comp) (tree key : list N) : Prop :=
  exists lm, route load_arms tree key = Some (c, lm).

(** every record a component's source can write is routed back to that component:
    constant tree + constant key; constant tree + any key not reserved by another component;
    TableManager's own table names, for the tables in use *)
Definition closed_entry (c : comp) (w : wtree) : Prop :=
  match w with
  | WTreeKey n k => routed_to c (bytes_of_lit n) (bytes_of_lit k)
  | WTree n => forall key, reserved_by_other c n key = false -> routed_to c (bytes_of_lit n) key
  | WTableName => forall n key, In n table_names_in_use -> routed_to c (bytes_of_lit n) key
  end.

Definition SEQ_CONFIG_KEY : list N := bytes_of_lit "SEQ_CONFIG".

Lemma route_sequence key :
  route load_arms (bytes_of_lit "T_SEQUENCE") key
  = if bytes_eqb SEQ_CONFIG_KEY key then Some (KConfig, LInnerSetLastId) else Some (KSequence, LLoadRecord).
Proof. reflexivity. Qed.

Lemma reserved_sequence key :
  reserved_by_other KSequence "T_SEQUENCE" key = bytes_eqb SEQ_CONFIG_KEY key.
Proof.
  unfold reserved_by_other, writes, SEQ_CONFIG_KEY. cbv -[bytes_eqb bytes_of_lit].
  destruct (bytes_eqb (bytes_of_lit "SEQ_CONFIG") key); reflexivity.
Qed.

Ltac close_entry :=
  lazymatch goal with
  | |- closed_entry _ (WTreeKey _ _) => simpl; eexists; reflexivity
  | |- closed_entry _ WTableName =>
      simpl; intros n key [H | [H | []]]; subst n; eexists; reflexivity
  | |- closed_entry KSequence (WTree "T_SEQUENCE") =>
      simpl; intros key R; rewrite reserved_sequence in R; unfold routed_to;
      eexists; rewrite route_sequence, R; reflexivity
  | |- closed_entry _ (WTree _) => simpl; intros key _; eexists; reflexivity
  end.

Lemma tree_names_closed_all : Forall (fun cw => Forall (closed_entry (fst cw)) (snd cw)) writes.
Proof.
  unfold writes.
  repeat (apply Forall_cons; [simpl; repeat (apply Forall_cons; [close_entry |]); apply Forall_nil |]).
  apply Forall_nil.
Qed.

Lemma tree_names_closed : forall c ws w, In (c, ws) writes -> In w ws -> closed_entry c w.
Proof.
  intros c ws w Hc Hw. pose proof tree_names_closed_all as A.
  rewrite Forall_forall in A. specialize (A _ Hc). simpl in A.
  rewrite Forall_forall in A. now apply A.
Qed.

(** the exceptions are real: a sequence named SEQ_CONFIG is routed to Config, and a table with
    another name is dropped by load_snapshot *)
Lemma seq_config_key_misrouted :
  route load_arms (bytes_of_lit "T_SEQUENCE") (bytes_of_lit "SEQ_CONFIG") = Some (KConfig, LInnerSetLastId).
Proof. reflexivity. Qed.

Lemma other_table_dropped : forall key, route load_arms (bytes_of_lit "T_OTHER") key = None.
Proof. reflexivity. Qed.

Lemma build_order_complete : forall c, In c build_order.
Proof. intros c; destruct c; vm_compute; tauto. Qed.

Lemma build_order_nodup : NoDup build_order.
Proof. vm_compute. repeat (constructor; [simpl; intuition discriminate |]). constructor. Qed.

Lemma writes_cover_build_order : map fst writes = build_order.
Proof. reflexivity. Qed.

(** * restart *)
Section Restart.
  Variable S M : Type.
  Variable capply : comp -> S -> M -> S.
  Variable csnap : comp -> S -> list record.
  Variable cload : comp -> load_msg -> S -> record -> S.
  Variable cinit : comp -> S.

  Notation node := (node S).
  Notation entry := (entry M).
  Notation run := (run S M capply).
  Notation init := (init_node S cinit).
  Notation build_snapshot := (build_snapshot S csnap).
  Notation load_snapshot := (load_snapshot S cload).
  Notation load_record := (load_record S cload).
  Notation start_up := (start_up S M capply cload cinit).

  (** observational equivalence of component states (what the queries can tell apart) *)
  Variable ceq : comp -> S -> S -> Prop.
  Hypothesis ceq_trans : forall c s1 s2 s3, ceq c s1 s2 -> ceq c s2 s3 -> ceq c s1 s3.
  Hypothesis apply_cong : forall c s1 s2 m, ceq c s1 s2 -> ceq c (capply c s1 m) (capply c s2 m).

  (** what load_snapshot does to component [c] for one record *)
  Definition cload_routed (c : comp) (s : S) (r : record) : S :=
    match route load_arms (rtree r) (rkey r) with
    | Some (c', lm) => if comp_eqb c' c then cload c lm s r else s
    | None => s
    end.

  (** component laws.  [snap_routed]: a component only writes records that the generated
      routing sends back to it (from tree_names_closed + the component's SnapshotRecordDto
      literals).  [roundtrip]: loading its own snapshot into the initial state gives an
      equivalent state (the snapshot round-trip law — proved for concrete models, a hypothesis
      for MCP / direct cache / ...). *)
  (** [cinv]: an invariant of the reachable component states; [mok]: the messages in scope
      (both are [True] for the abstract statement) *)
  Variable cinv : comp -> S -> Prop.
  Variable mok : comp -> M -> Prop.
  (** [cok]: the state can be written to a snapshot (byte strings, u64 counters) — a side
      condition on the state AT the compaction point, not an inductive invariant *)
  Variable cok : comp -> S -> Prop.
  Hypothesis ceq_refl : forall c s, cinv c s -> ceq c s s.
  Hypothesis inv_init : forall c, cinv c (cinit c).
  Hypothesis inv_apply : forall c s m, cinv c s -> mok c m -> cinv c (capply c s m).
  Hypothesis snap_routed : forall c s r, cinv c s -> cok c s -> In r (csnap c s) -> routed_to c (rtree r) (rkey r).
  Hypothesis roundtrip : forall c s, cinv c s -> cok c s ->
                                     ceq c (fold_left (cload_routed c) (csnap c s) (cinit c)) s.

  Definition entry_ok (e : entry) : Prop :=
    match e with Some (c, m) => mok c m | None => True end.

  Definition node_inv (st : node) : Prop := forall c, cinv c (st c).
  Definition node_ok (st : node) : Prop := forall c, cok c (st c).

  Lemma apply_entry_inv (st : node) e : node_inv st -> entry_ok e -> node_inv (apply_entry S M capply st e).
  Proof.
    intros I O c. destruct e as [[c' m] |]; simpl; [| apply I].
    unfold updc. destruct (comp_eqb c c') eqn:E; [| apply I].
    apply comp_eqb_eq in E. subst c'. now apply inv_apply.
  Qed.

  Lemma run_inv hist : forall st, node_inv st -> Forall entry_ok hist -> node_inv (run hist st).
  Proof.
    induction hist as [| e hist IH]; intros st I O; simpl; [assumption |].
    inversion O; subst. apply IH; [now apply apply_entry_inv | assumption].
  Qed.

  Lemma init_inv : node_inv init.
  Proof. intros c. apply inv_init. Qed.

  Lemma Forall_firstn {A} (P : A -> Prop) n (l : list A) : Forall P l -> Forall P (firstn n l).
  Proof. revert n. induction l; intros [| n] H; simpl; try constructor; inversion H; subst; auto. Qed.

  Lemma updc_same (f : node) c x : updc S f c x c = x.
  Proof. unfold updc. now rewrite comp_eqb_refl. Qed.

  Lemma load_record_comp st r c : load_record st r c = cload_routed c (st c) r.
  Proof.
    unfold Snapshot.load_record, cload_routed.
    destruct (route load_arms (rtree r) (rkey r)) as [[c' lm] |]; [| reflexivity].
    unfold updc. rewrite (comp_eqb_sym c c').
    destruct (comp_eqb c' c) eqn:E; [apply comp_eqb_eq in E; now subst | reflexivity].
  Qed.

  Lemma load_snapshot_comp recs : forall st c,
    load_snapshot recs st c = fold_left (cload_routed c) recs (st c).
  Proof.
    induction recs as [| r recs IH]; intros st c; simpl; [reflexivity |].
    unfold Snapshot.load_snapshot in *. simpl. rewrite IH. now rewrite load_record_comp.
  Qed.

  (** records of another component do not touch [c] *)
  Lemma foreign_records c c' s : cinv c' s -> cok c' s -> c' <> c -> forall x,
    fold_left (cload_routed c) (csnap c' s) x = x.
  Proof.
    intros I K NE. generalize (fun r => snap_routed c' s r I K). induction (csnap c' s) as [| r l IH]; intros H x; [reflexivity |].
    simpl. rewrite IH by (intros r' Hr'; apply H; now right).
    destruct (H r (or_introl eq_refl)) as [lm R]. unfold cload_routed. rewrite R.
    destruct (comp_eqb c' c) eqn:E; [apply comp_eqb_eq in E; contradiction | reflexivity].
  Qed.

  Lemma load_blocks (st : node) c l : node_inv st -> node_ok st -> NoDup l -> forall x,
    fold_left (cload_routed c) (flat_map (fun c' => csnap c' (st c')) l) x
    = if existsb (comp_eqb c) l then fold_left (cload_routed c) (csnap c (st c)) x else x.
  Proof.
    intros I K. induction l as [| c' l IH]; intros ND x; [reflexivity |].
    inversion ND as [| ? ? Hn ND']; subst. simpl. rewrite fold_left_app.
    destruct (comp_eqb c c') eqn:E.
    - apply comp_eqb_eq in E; subst c'. simpl. rewrite IH by assumption.
      destruct (existsb (comp_eqb c) l) eqn:Ex; [| reflexivity].
      apply existsb_exists in Ex. destruct Ex as [d [Hd Ed]]. apply comp_eqb_eq in Ed. subst d. contradiction.
    - simpl. rewrite foreign_records.
      + now apply IH.
      + apply I.
      + apply K.
      + intros ->. now rewrite comp_eqb_refl in E.
  Qed.

  (** loading the snapshot of a node state gives back an equivalent node state *)
  Lemma load_build (st : node) c :
    node_inv st -> node_ok st -> ceq c (load_snapshot (build_snapshot st) init c) (st c).
  Proof.
    intros I K. rewrite load_snapshot_comp. unfold Snapshot.build_snapshot.
    rewrite load_blocks by (assumption || apply build_order_nodup).
    replace (existsb (comp_eqb c) build_order) with true by (destruct c; reflexivity).
    apply roundtrip; [apply I | apply K].
  Qed.

  Lemma apply_entry_cong (st1 st2 : node) e :
    (forall c, ceq c (st1 c) (st2 c)) ->
    forall c, ceq c (apply_entry S M capply st1 e c) (apply_entry S M capply st2 e c).
  Proof.
    intros H c. destruct e as [[c' m] |]; simpl; [| apply H].
    unfold updc. destruct (comp_eqb c c') eqn:E; [apply comp_eqb_eq in E; subst; apply apply_cong, H | apply H].
  Qed.

  Lemma run_cong hist : forall (st1 st2 : node),
    (forall c, ceq c (st1 c) (st2 c)) -> forall c, ceq c (run hist st1 c) (run hist st2 c).
  Proof.
    induction hist as [| e hist IH]; intros st1 st2 H c; simpl; [apply H |].
    apply IH. now apply apply_entry_cong.
  Qed.

  Lemma run_app h1 h2 (st : node) : run (h1 ++ h2) st = run h2 (run h1 st).
  Proof. unfold Snapshot.run. apply fold_left_app. Qed.

  (** ** record level: for every history and every compaction point, snapshot + log replay
      reproduces every component's state up to observational equivalence *)
  Theorem restart_state :
    forall (hist : list entry) (k : nat), k <= length hist -> Forall entry_ok hist ->
    node_ok (run (firstn k hist) init) ->
    forall c, ceq c (start_up (Some (k, build_snapshot (run (firstn k hist) init))) hist (length hist) c)
                    (run hist init c).
  Proof.
    intros hist k Hk OK NK c. unfold Replay.start_up.
    assert (IK : node_inv (run (firstn k hist) init)) by (apply run_inv; [apply init_inv | now apply Forall_firstn]).
    destruct (length hist =? 0) eqn:E0.
    - apply Nat.eqb_eq in E0. assert (k = 0) by lia. subst k.
      destruct hist; [| discriminate]. simpl. apply load_build; [apply init_inv | exact NK].
    - assert (E : firstn (length hist - k) (skipn k hist) = skipn k hist).
      { apply firstn_all2. rewrite skipn_length. lia. }
      rewrite E. rewrite <- (firstn_skipn k hist) at 3. rewrite run_app.
      apply run_cong. intros d. now apply load_build.
  Qed.

  Lemma run_refl hist : Forall entry_ok hist -> forall c, ceq c (run hist init c) (run hist init c).
  Proof. intros OK c. apply ceq_refl. apply run_inv; [apply init_inv | assumption]. Qed.

  (** a node that never compacted replays its whole log *)
  Theorem restart_state_no_snapshot :
    forall (hist : list entry) c, start_up None hist (length hist) c = run hist init c.
  Proof.
    intros hist c. unfold Replay.start_up. destruct (length hist =? 0) eqn:E0.
    - apply Nat.eqb_eq in E0. destruct hist; [reflexivity | discriminate].
    - rewrite Nat.sub_0_r. simpl. now rewrite firstn_all.
  Qed.

  (** ** compaction concurrent with apply (SM/Replay.v, [restart_racy]) *)

  (** the messages of component [c] in a history *)
  Fixpoint msgs (c : comp) (hist : list entry) : list M :=
    match hist with
    | [] => []
    | Some (c', m) :: h => if comp_eqb c c' then m :: msgs c h else msgs c h
    | None :: h => msgs c h
    end.

  Lemma msgs_app c h1 h2 : msgs c (h1 ++ h2) = msgs c h1 ++ msgs c h2.
  Proof.
    induction h1 as [| [[c' m] |] h1 IH]; simpl; [reflexivity | | assumption].
    destruct (comp_eqb c c'); simpl; now rewrite IH.
  Qed.

  Lemma run_proj hist : forall (st : node) c, run hist st c = fold_left (capply c) (msgs c hist) (st c).
  Proof.
    induction hist as [| [[c' m] |] hist IH]; intros st c; simpl; [reflexivity | | apply IH].
    rewrite IH. unfold updc. destruct (comp_eqb c c') eqn:E; [| reflexivity].
    apply comp_eqb_eq in E. now subst.
  Qed.

  Lemma fold_cong c h : forall s1 s2,
    ceq c s1 s2 -> ceq c (fold_left (capply c) h s1) (fold_left (capply c) h s2).
  Proof. induction h as [| m h IH]; intros s1 s2 H; simpl; [assumption | apply IH, apply_cong, H]. Qed.

  (** re-applying a block of messages to a state that has just applied it changes nothing
      observable (true of last-write-wins components, false of accumulating ones) *)
  Definition replay_idempotent (c : comp) : Prop :=
    forall s h, ceq c (fold_left (capply c) h (fold_left (capply c) h s)) (fold_left (capply c) h s).

  (** if component [c] wrote its records [j c] entries after the header's last_index [k], the
      restart (which replays from k + 1) is still exact on every replay-idempotent component *)
  Theorem restart_racy_idempotent :
    forall (hist : list entry) (k : nat) (j : comp -> nat) (c : comp),
      Forall entry_ok hist -> replay_idempotent c ->
      (forall d, cok d (run (firstn (k + j d) hist) init d)) ->
      ceq c (restart_racy S M capply csnap cload cinit hist k j c) (run hist init c).
  Proof.
    intros hist k j c OK ID NK. unfold restart_racy, Replay.start_up.
    set (stj := fun c' : comp => run (firstn (k + j c') hist) init c').
    assert (IJ : node_inv stj).
    { intros d. unfold stj. apply run_inv; [apply init_inv | now apply Forall_firstn]. }
    assert (LB : forall d, ceq d (load_snapshot (build_snapshot_racy S M capply csnap cinit hist k j) init d) (stj d)).
    { intros d. change (build_snapshot_racy S M capply csnap cinit hist k j) with (build_snapshot stj). now apply load_build. }
    destruct (length hist =? 0) eqn:E0.
    - apply Nat.eqb_eq in E0. destruct hist; [| discriminate].
      eapply ceq_trans; [apply LB |]. unfold stj. rewrite firstn_nil. apply ceq_refl, init_inv.
    - assert (E : firstn (length hist - k) (skipn k hist) = skipn k hist).
      { apply firstn_all2. rewrite skipn_length. lia. }
      rewrite E. eapply ceq_trans; [apply run_cong; exact LB |].
      rewrite !run_proj. unfold stj. rewrite run_proj.
      (* hist = firstn k ++ firstn j (skipn k) ++ skipn (k + j) *)
      assert (H1 : firstn (k + j c) hist = firstn k hist ++ firstn (j c) (skipn k hist)).
      { rewrite <- (firstn_skipn k hist) at 1. rewrite firstn_app, firstn_firstn.
        replace (Nat.min (k + j c) k) with k by lia.
        destruct (Nat.le_gt_cases k (length hist)) as [L | L].
        - rewrite firstn_length_le by assumption. now replace (k + j c - k) with (j c) by lia.
        - rewrite (skipn_all2 hist) by lia. rewrite !firstn_nil. reflexivity. }
      assert (H2 : skipn k hist = firstn (j c) (skipn k hist) ++ skipn (j c) (skipn k hist))
        by (symmetry; apply firstn_skipn).
      assert (H3 : hist = firstn k hist ++ firstn (j c) (skipn k hist) ++ skipn (j c) (skipn k hist)).
      { rewrite <- H2. symmetry. apply firstn_skipn. }
      remember (firstn (j c) (skipn k hist)) as B eqn:EB.
      remember (skipn (j c) (skipn k hist)) as R eqn:ER.
      remember (firstn k hist) as A eqn:EA.
      clear EA EB ER.
      rewrite H1, H2. rewrite H3 at 1.
      rewrite !msgs_app, !fold_left_app.
      apply fold_cong. apply ID.
  Qed.

  (** ** file level *)
  Variable enc : record -> list N.
  Variable dec_frame : list N -> option record.

  Notation restart := (restart S M capply csnap cload cinit enc dec_frame).

  Lemma decode_frames recs :
    Forall (fun r => dec_frame (frame (enc r)) = Some r) recs ->
    decode_until dec_frame (map frame (map enc recs)) = recs.
  Proof.
    induction 1 as [| r recs Hr _ IH]; simpl; [reflexivity |]. now rewrite Hr, IH.
  Qed.

  (** the record codec is faithful on the records of this snapshot, the header fits the first
      read *)
  Definition codec_ok (hdr : list N) (recs : list record) : Prop :=
    rec_ok hdr /\ length (frame hdr) <= 1024 /\
    Forall (fun r => dec_frame (frame (enc r)) = Some r /\ rec_ok (enc r)) recs.

  (** ** restart_reproduces: for every history, every compaction point and every leftover
      content of the snapshot path (an interrupted earlier attempt with the same id), the
      repaired writer yields a node equivalent to the one that ran the history *)
  Theorem restart_reproduces :
    forall (hist : list entry) (k : nat) (leftover hdr : list N),
      k <= length hist -> Forall entry_ok hist ->
      node_ok (run (firstn k hist) init) ->
      codec_ok hdr (build_snapshot (run (firstn k hist) init)) ->
      exists nd, restart write_truncate leftover hdr hist k = Ok nd /\
                 forall c, ceq c (nd c) (run hist init c).
  Proof.
    intros hist k leftover hdr Hk OK NK [Hh [Hl Hc]]. unfold Replay.restart.
    destruct k as [| k'].
    - eexists; split; [reflexivity |]. intros c. rewrite restart_state_no_snapshot. now apply run_refl.
    - set (k := Datatypes.S k') in *. unfold start_up_files, snapshot_file.
      rewrite snap_roundtrip_over_leftover.
      + cbn [res_map snd]. eexists; split; [reflexivity |]. intros c.
        rewrite decode_frames.
        * now apply restart_state.
        * eapply Forall_impl; [| exact Hc]. now intros r [H _].
      + assumption.
      + apply Forall_forall. intros b Hb. apply in_map_iff in Hb. destruct Hb as [r [<- Hr]].
        rewrite Forall_forall in Hc. now apply Hc.
      + assumption.
  Qed.

  (** ** interrupted_compaction_harmless (repaired writer): the restart does not depend on
      what an interrupted attempt left at the snapshot path *)
  Theorem interrupted_compaction_harmless :
    forall (hist : list entry) (k : nat) (leftover hdr : list N),
      restart write_truncate leftover hdr hist k = restart write_truncate [] hdr hist k.
  Proof. intros. unfold Replay.restart. destruct k; reflexivity. Qed.


  (** ** a node killed during a compaction restarts to the state of the node that ran the history,
      at EVERY stage, whatever the interrupted attempt and earlier ones left at the snapshot paths *)
  Lemma start_up_cut_eq snap base (log : list entry) la :
    (match snap with Some (k, _) => base <= k | None => base = 0 end) ->
    start_up_cut S M capply cload cinit snap base (skipn base log) la = start_up snap log la.
  Proof.
    intros Hb. unfold start_up_cut, Replay.start_up. destruct snap as [[k recs] |].
    - destruct (la =? 0); [reflexivity |]. rewrite skipn_skipn'.
      replace (base + (k - base)) with k by lia. reflexivity.
    - subst base. cbn [skipn]. reflexivity.
  Qed.

  Lemma start_up_files_cut_eq snap base (log : list entry) la :
    (match snap with Some (k, _) => base <= k | None => base = 0 end) ->
    start_up_files_cut S M capply cload cinit dec_frame snap base (skipn base log) la =
    start_up_files S M capply cload cinit dec_frame snap log la.
  Proof.
    intros Hb. unfold start_up_files_cut, start_up_files. destruct snap as [[k file] |].
    - destruct (snap_read file) as [hr | |]; cbn [res_map]; try reflexivity.
      f_equal. now apply (start_up_cut_eq (Some (k, _))).
    - f_equal. now apply (start_up_cut_eq None).
  Qed.

  Lemma crash_restart_is_restart catalogued cut leftover0 hdr0 leftover hdr (hist : list entry) k00 k0 k :
    k00 <= k0 -> k0 <= k ->
    crash_restart S M capply csnap cload cinit enc dec_frame write_truncate catalogued cut
                  leftover0 hdr0 leftover hdr hist k00 k0 k =
    if catalogued then restart write_truncate leftover hdr hist k else restart write_truncate leftover0 hdr0 hist k0.
  Proof.
    intros H0 Hk. unfold crash_restart, Replay.restart, snap_at.
    destruct catalogued.
    - destruct k as [| k'].
      + assert (k0 = 0) by lia. assert (k00 = 0) by lia. subst. destruct cut; apply (start_up_files_cut_eq None); reflexivity.
      + destruct cut; apply (start_up_files_cut_eq (Some (_, _))); lia.
    - destruct k0 as [| k0'].
      + assert (k00 = 0) by lia. subst. destruct cut; apply (start_up_files_cut_eq None); reflexivity.
      + destruct cut; apply (start_up_files_cut_eq (Some (_, _))); lia.
  Qed.

  Theorem compaction_crash_points_harmless :
    forall (catalogued cut : bool) (hist : list entry) (k00 k0 k : nat) (leftover0 hdr0 leftover hdr : list N),
      k00 <= k0 -> k0 <= k -> k <= length hist -> Forall entry_ok hist ->
      node_ok (run (firstn k0 hist) init) -> codec_ok hdr0 (build_snapshot (run (firstn k0 hist) init)) ->
      node_ok (run (firstn k hist) init) -> codec_ok hdr (build_snapshot (run (firstn k hist) init)) ->
      exists nd,
        crash_restart S M capply csnap cload cinit enc dec_frame write_truncate catalogued cut
                      leftover0 hdr0 leftover hdr hist k00 k0 k = Ok nd /\
        forall c, ceq c (nd c) (run hist init c).
  Proof.
    intros catalogued cut hist k00 k0 k l0 h0 l h H00 H0 Hk OK N0 C0 N1 C1.
    rewrite crash_restart_is_restart by assumption.
    destruct catalogued; apply restart_reproduces; try assumption; lia.
  Qed.

  (** ... and the lag of the log cut is NECESSARY: were the log cut at the new snapshot's index while the
      catalogue still names the previous one, the entries between the two would be gone: stated as the
      [base <= snapshot index] premise of [start_up_files_cut_eq]; see the witness in Props/C04.v *)

End Restart.
