(** Executable glue for the correspondence check of C07: the model evaluated on the trace
    instance (SM/DispatchInst.v).  A request is abstracted to (variant, payload code):
      0   = a ConfigFullValue whose bytes do not decode
      7   = a TableManagerReq that the table actor forwards to the cache actor (T_CACHE row)
      >=8 = anything else (distinct codes for distinct requests)
    The check compares, per actor, whether the three paths agree — with what the real actors
    show — and the last_applied bookkeeping.  No proofs depend on this file. *)
From RN Require Import SM.Dispatch SM.DispatchInst.
From Coq Require Import NArith Arith.

Definition ctor_code (c : ctor) : nat :=
  match c with CPass => 0 | CAddNodeAddr => 1 | CSaveMember => 2 | CConfigAdd => 3
             | CSetFullValue => 4 | CConfigRemove => 5 end.

Definition tmsg_eqb (a b : tmsg) : bool :=
  Nat.eqb (ctor_code (fst a)) (ctor_code (fst b)) && Nat.eqb (snd a) (snd b).

Definition trace_eqb (a b : tstate) : bool := list_eqb tmsg_eqb a b.

Definition mk_reqs (l : list (variant * nat)) : list (req tpayload) := map (fun vp => tq (fst vp) (snd vp)) l.

(** per actor (in the order of all_actors): (leader = follower, leader = replay) *)
Definition settle_sched (settle : bool) (n : nat) : list (list actor) :=
  if settle then repeat (List.concat (repeat all_actors 64)) n else [].

Definition agree (l : list (variant * nat)) (sizes : list nat) (settle : bool) : list (bool * bool) :=
  let reqs := mk_reqs l in
  let wl := t_leader 3 [] reqs in
  let wf := t_follower 3 (settle_sched settle (Datatypes.S (List.length sizes))) (split sizes reqs) in
  let wr := t_replay 3 [] reqs in
  map (fun a => (trace_eqb (wst wl a) (wst wf a), trace_eqb (wst wl a) (wst wr a))) all_actors.

(** in-scope predicates on the abstracted sequence *)
Definition in_scope (l : list (variant * nat)) : bool * bool :=
  (forallb (prep_ok tpayload tdecodable) (mk_reqs l), forallb tno_forward_b (mk_reqs l)).

(** (am_last, last saved or 0) for leader and follower; entries are numbered from 1 *)
Fixpoint number (i : N) (l : list (req tpayload)) : list (N * req tpayload) :=
  match l with [] => [] | r :: rs => (i, r) :: number (i + 1)%N rs end.

Definition applied (l : list (variant * nat)) (sizes : list nat) : (N * N) * (N * N) :=
  let es := number 1%N (mk_reqs l) in
  let al := leader_applied tpayload tmsg tbuild tdecodable thandler_ok es (mkAm 0 []) in
  let af := follower_applied tpayload tmsg tbuild tdecodable (split sizes es) (mkAm 0 []) in
  ((am_last al, last (am_saved al) 0%N), (am_last af, last (am_saved af) 0%N)).

(** which actor a request is sent to (leader table), as an index into all_actors; 99 = none *)
Definition target_index (v : variant) : nat :=
  match lookup leader_table v with
  | Some rw => match r_actor rw with
               | AIndex => 0 | ASequence => 1 | AConfig => 2 | ATable => 3
               | ANamespace => 4 | AMcp => 5 | ANaming => 6 | ACache => 7 end
  | None => 99
  end.
