(** Model of the notification side of ConfigActor (src/config/core.rs:296-394, 776-864) and of
    Subscriber (src/config/config_subscribe.rs): ConfigListener::{add,notify,timeout}, the
    LISTENER / Subscribe compare-then-register handlers, and the whole actor as a mailbox state
    machine [step : actor -> msg -> actor * list event].  The wall clock read by
    [ConfigListener::timeout] is the argument of the [MTick] message (logical clock).
    Literal transcription; executable definitions only. *)
From RN Require Export SM.Config.
Local Open Scope N_scope.

Inductive lresult := LNull | LData (ks : list key).

(** ConfigListener.  A sender (the oneshot channel of one LISTENER request) is represented by
    the request's identifier [lid]. *)
Record lstate := mkL {
  l_version : N;
  l_listener : list (key * list N);      (* HashMap<ConfigKey, Vec<u64>> *)
  l_time : list (Z * list N);            (* BTreeMap<i64, Vec<OnceListener>> (versions) *)
  l_sender : list (N * N);               (* HashMap<u64, Sender>: version -> lid *)
}.

Definition l_new : lstate := mkL 0 [] [] [].

Definition push_version {K} (cmp : K -> K -> comparison) (m : list (K * list N)) (k : K) (v : N) :=
  match sm_get cmp m k with
  | Some l => sm_put cmp m k (l ++ [v])
  | None => sm_put cmp m k [v]
  end.

(** ConfigListener::add *)
Definition l_add (l : lstate) (items : list (key * str)) (lid : N) (time : Z) : lstate :=
  let version := l_version l + 1 in
  let listener := fold_left (fun m it => push_version key_cmp m (fst it) version) items (l_listener l) in
  mkL version listener (push_version Z.compare (l_time l) time version)
      (sm_put N.compare (l_sender l) version lid).

(** answer the listed versions that still have a sender; returns (sender_map, answers) *)
Fixpoint answer_versions (senders : list (N * N)) (vs : list N) (r : lresult)
  : list (N * N) * list (N * lresult) :=
  match vs with
  | [] => (senders, [])
  | v :: vs' =>
      match sm_get N.compare senders v with
      | Some lid =>
          let '(s', evs) := answer_versions (sm_del N.compare senders v) vs' r in
          (s', (lid, r) :: evs)
      | None => answer_versions senders vs' r
      end
  end.

(** ConfigListener::notify *)
Definition l_notify (l : lstate) (k : key) : lstate * list (N * lresult) :=
  match sm_get key_cmp (l_listener l) k with
  | Some vs =>
      let '(senders, evs) := answer_versions (l_sender l) vs (LData [k]) in
      (mkL (l_version l) (sm_del key_cmp (l_listener l) k) (l_time l) senders, evs)
  | None => (l, [])
  end.

(** the loop of ConfigListener::timeout over (at most 10000) buckets in key order *)
Fixpoint timeout_scan (now : Z) (buckets : list (Z * list N)) (senders : list (N * N))
  : list Z * list (N * N) * list (N * lresult) :=
  match buckets with
  | [] => ([], senders, [])
  | (t, vs) :: rest =>
      if (t <? now)%Z then
        let '(senders1, evs1) := answer_versions senders vs LNull in
        let '(keys, senders2, evs2) := timeout_scan now rest senders1 in
        (t :: keys, senders2, evs1 ++ evs2)
      else ([], senders, [])
  end.

Definition TAKE : nat := N.to_nat 10000.

Definition l_timeout (l : lstate) (now : Z) : lstate * list (N * lresult) :=
  let '(keys, senders, evs) := timeout_scan now (firstn TAKE (l_time l)) (l_sender l) in
  (mkL (l_version l) (l_listener l) (fold_left (fun m t => sm_del Z.compare m t) keys (l_time l)) senders,
   evs).

(** Subscriber: two maps that must mirror each other *)
Record sstate := mkS {
  s_listener : list (key * sset str);    (* key -> clients *)
  s_clients : list (str * sset key);     (* client -> keys *)
}.

Definition s_new : sstate := mkS [] [].

Definition set_insert_in {K E} (cmpk : K -> K -> comparison) (cmpe : E -> E -> comparison)
           (m : list (K * sset E)) (k : K) (e : E) : list (K * sset E) :=
  match sm_get cmpk m k with
  | Some set => sm_put cmpk m k (ss_add cmpe set e)
  | None => sm_put cmpk m k (ss_add cmpe [] e)
  end.

(** Subscriber::add_subscribe *)
Definition s_add (s : sstate) (client : str) (keys : list key) : sstate :=
  let listener := fold_left (fun m k => set_insert_in key_cmp str_cmp m k client) keys (s_listener s) in
  let set0 := match sm_get str_cmp (s_clients s) client with Some set => set | None => [] end in
  let set1 := fold_left (fun st k => ss_add key_cmp st k) keys set0 in
  mkS listener (sm_put str_cmp (s_clients s) client set1).

(** first loop of remove_subscribe / remove_client_subscribe: take [e] out of the sets of the
    listed keys, collecting the keys whose set became empty *)
Fixpoint remove_from_sets {K E} (cmpk : K -> K -> comparison) (cmpe : E -> E -> comparison)
         (m : list (K * sset E)) (ks : list K) (e : E) : list (K * sset E) * list K :=
  match ks with
  | [] => (m, [])
  | k :: ks' =>
      match sm_get cmpk m k with
      | Some set =>
          let set' := ss_del cmpe set e in
          let '(m', rm) := remove_from_sets cmpk cmpe (sm_put cmpk m k set') ks' e in
          (m', if ss_is_empty set' then k :: rm else rm)
      | None => remove_from_sets cmpk cmpe m ks' e
      end
  end.

Definition del_all {K V} (cmp : K -> K -> comparison) (m : list (K * V)) (ks : list K) :=
  fold_left (fun m k => sm_del cmp m k) ks m.

(** Subscriber::remove_subscribe *)
Definition s_remove (s : sstate) (client : str) (keys : list key) : sstate :=
  let '(l1, rm) := remove_from_sets key_cmp str_cmp (s_listener s) keys client in
  let listener := del_all key_cmp l1 rm in
  let clients :=
    match sm_get str_cmp (s_clients s) client with
    | Some set =>
        let set' := fold_left (fun st k => ss_del key_cmp st k) keys set in
        if ss_is_empty set' then sm_del str_cmp (s_clients s) client
        else sm_put str_cmp (s_clients s) client set'
    | None => s_clients s
    end in
  mkS listener clients.

(** Subscriber::remove_client_subscribe *)
Definition s_remove_client (s : sstate) (client : str) : sstate :=
  match sm_get str_cmp (s_clients s) client with
  | Some set =>
      let '(l1, rm) := remove_from_sets key_cmp str_cmp (s_listener s) (ss_elems set) client in
      mkS (del_all key_cmp l1 rm) (sm_del str_cmp (s_clients s) client)
  | None => s
  end.

(** Subscriber::remove_config_key *)
Definition s_remove_key (s : sstate) (k : key) : sstate :=
  match sm_get key_cmp (s_listener s) k with
  | Some set =>
      let '(c1, rm) := remove_from_sets str_cmp key_cmp (s_clients s) (ss_elems set) k in
      mkS (sm_del key_cmp (s_listener s) k) (del_all str_cmp c1 rm)
  | None => s
  end.

(** Subscriber::notify: the client set sent to BiStreamManage (conn_manage is injected) *)
Definition s_notify (s : sstate) (k : key) : option (list str) :=
  option_map ss_elems (sm_get key_cmp (s_listener s) k).

(** * the actor *)
Record actor := mkA { a_store : store; a_l : lstate; a_s : sstate }.

Definition actor_new : actor := mkA store_new l_new s_new.

Inductive event :=
| EAnswer (lid : N) (r : lresult)          (* a value sent on a LISTENER oneshot channel *)
| ENotify (k : key) (clients : list str)   (* BiStreamManageCmd::NotifyConfig *)
| EChanged (client : str) (ks : list key). (* ConfigResult::ChangeKey returned by Subscribe *)

Inductive msg :=
| MRaft (c : raft_cmd)
| MTmp (k : key) (v : str) (now : N)
| MListen (lid : N) (items : list (key * str)) (time : Z)
| MTick (now : Z)
| MSub (client : str) (items : list (key * str))
| MUnsub (client : str) (keys : list key)
| MUnsubClient (client : str).

Section Actor.
  Variable H : str -> str.

  (** the md5 a client should hold for [k]: the stored md5, "" when the key is absent *)
  Definition md5_now (s : store) (k : key) : str :=
    match cache_get s k with Some v => cv_md5 v | None => [] end.

  (** the comparison loop shared by LISTENER and Subscribe *)
  Definition item_changed (s : store) (it : key * str) : bool :=
    match cache_get s (fst it) with
    | Some v => negb (str_eqb (cv_md5 v) (snd it))
    | None => negb (str_is_empty (snd it))
    end.

  Definition changes (s : store) (items : list (key * str)) : list key :=
    map fst (filter (item_changed s) items).

  Definition notify_key (a : actor) (st : store) (k : key) : actor * list event :=
    let '(l', evs) := l_notify (a_l a) k in
    (mkA st l' (a_s a),
     map (fun e => EAnswer (fst e) (snd e)) evs
         ++ match s_notify (a_s a) k with Some cs => [ENotify k cs] | None => [] end).

  Definition step (a : actor) (m : msg) : actor * list event :=
    match m with
    | MRaft c =>
        let '(st, nk) := apply_raft H (a_store a) c in
        match nk with
        | Some k =>
            let '(a1, evs) := notify_key a st k in
            match c with
            | ConfigRemove _ => (mkA (a_store a1) (a_l a1) (s_remove_key (a_s a1) k), evs)
            | _ => (a1, evs)
            end
        | None => (mkA st (a_l a) (a_s a), [])
        end
    | MTmp k v now => (mkA (set_tmp_config H (a_store a) k v now) (a_l a) (a_s a), [])
    | MListen lid items time =>
        let ch := changes (a_store a) items in
        match ch with
        | [] => if (time <=? 0)%Z then (a, [EAnswer lid (LData [])])
                else (mkA (a_store a) (l_add (a_l a) items lid time) (a_s a), [])
        | _ => (a, [EAnswer lid (LData ch)])
        end
    | MTick now =>
        let '(l', evs) := l_timeout (a_l a) now in
        (mkA (a_store a) l' (a_s a), map (fun e => EAnswer (fst e) (snd e)) evs)
    | MSub client items =>
        let ch := changes (a_store a) items in
        (mkA (a_store a) (a_l a) (s_add (a_s a) client (map fst items)),
         match ch with [] => [] | _ => [EChanged client ch] end)
    | MUnsub client keys => (mkA (a_store a) (a_l a) (s_remove (a_s a) client keys), [])
    | MUnsubClient client => (mkA (a_store a) (a_l a) (s_remove_client (a_s a) client), [])
    end.

  Fixpoint run (a : actor) (ms : list msg) : actor * list (list event) :=
    match ms with
    | [] => (a, [])
    | m :: ms' =>
        let '(a1, evs) := step a m in
        let '(a2, rest) := run a1 ms' in
        (a2, evs :: rest)
    end.
End Actor.
