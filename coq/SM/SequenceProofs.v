(** Proofs for C19, part 1: the replicated counters (SequenceDbManager).  Ids / ranges of one
    key are consecutive intervals: pairwise disjoint and increasing; snapshot + load restores
    the counters exactly; applying a log suffix a second time only moves counters forward. *)
From RN Require Import Base.SMap Base.SMapProofs SM.ConfigKey SM.ConfigKeyProofs SM.Sequence.
From Coq Require Import ZifyBool ZifyNat ZifyN.
Local Open Scope N_scope.

Local Notation SOK := str_cmp_ok.

(** the next id the counter of [k] will hand out *)
Definition next_free (m : seqdb) (k : str) : N :=
  match sm_get str_cmp m k with Some id => id | None => 1 end.

(** explicit resets of [k] (excluded by the property: "unless a sequence is explicitly reset") *)
Definition resets (k : str) (r : seqreq) : bool :=
  match r with
  | RSetId k' _ => str_eqb k' k
  | RRemoveId k' => str_eqb k' k
  | _ => false
  end.

(** what a request draws from the counter of [k]: (first id, how many) *)
Definition draws (k : str) (m : seqdb) (r : seqreq) : option (N * N) :=
  match r with
  | RNextId k' => if str_eqb k' k then Some (next_free m k, 1) else None
  | RNextRange k' step => if str_eqb k' k then Some (next_free m k, step) else None
  | _ => None
  end.

Definition size_of (k : str) (r : seqreq) : N :=
  match r with
  | RNextId k' => if str_eqb k' k then 1 else 0
  | RNextRange k' step => if str_eqb k' k then step else 0
  | _ => 0
  end.

Definition db_run (m : seqdb) (rs : list seqreq) : seqdb := fold_left (fun m r => fst (db_apply m r)) rs m.

(** every draw of [k] along a run, in order *)
Fixpoint draws_of (k : str) (m : seqdb) (rs : list seqreq) : list (N * N) :=
  match rs with
  | [] => []
  | r :: rs' =>
      match draws k m r with
      | Some d => d :: draws_of k (fst (db_apply m r)) rs'
      | None => draws_of k (fst (db_apply m r)) rs'
      end
  end.

Lemma str_cmp_match {A} a b (x y : A) :
  match str_cmp a b with Eq => x | _ => y end = if str_eqb a b then x else y.
Proof. unfold str_eqb. destruct (str_cmp a b); reflexivity. Qed.

Lemma next_free_put m k v k' :
  next_free (sm_put str_cmp m k v) k' = if str_eqb k' k then v else next_free m k'.
Proof. unfold next_free. rewrite (get_put _ SOK), str_cmp_match. destruct (str_eqb k' k); reflexivity. Qed.

(** the result of a request is exactly its draw: the id / range start is [next_free] before *)
Lemma db_apply_result m r :
  snd (db_apply m r) =
  match r with
  | RNextId k => SNextId (next_free m k)
  | RNextRange k step => SNextRange (next_free m k) step
  | _ => SNone
  end.
Proof.
  destruct r as [k|k step|k id|k]; cbn [db_apply]; try reflexivity.
  - unfold db_next_id, next_free. destruct (sm_get str_cmp m k); reflexivity.
  - unfold db_next_range, next_free. destruct (sm_get str_cmp m k); reflexivity.
Qed.

Lemma str_eqb_sym' a b : str_eqb a b = str_eqb b a.
Proof.
  destruct (str_eqb a b) eqn:E.
  - apply str_eqb_eq in E. subst. symmetry. apply str_eqb_refl.
  - symmetry. apply str_eqb_neq. apply str_eqb_neq in E. congruence.
Qed.

Lemma next_free_del m k k' : sm_wf str_cmp m ->
  next_free (sm_del str_cmp m k) k' = if str_eqb k' k then 1 else next_free m k'.
Proof.
  intros W. unfold next_free. rewrite (get_del _ SOK) by exact W. rewrite str_cmp_match.
  destruct (str_eqb k' k); reflexivity.
Qed.

Lemma db_apply_wf m r : sm_wf str_cmp m -> sm_wf str_cmp (fst (db_apply m r)).
Proof.
  intros W. destruct r as [k|k step|k id|k]; cbn [db_apply].
  - unfold db_next_id. destruct (sm_get str_cmp m k); cbn [fst]; apply (wf_put _ SOK); exact W.
  - unfold db_next_range. destruct (sm_get str_cmp m k); cbn [fst]; apply (wf_put _ SOK); exact W.
  - cbn [fst]. apply (wf_put _ SOK). exact W.
  - cbn [fst]. apply wf_del. exact W.
Qed.

Lemma db_run_wf m rs : sm_wf str_cmp m -> sm_wf str_cmp (db_run m rs).
Proof.
  revert m. induction rs as [|r rs IH]; intros m W; cbn [db_run fold_left]; auto.
  apply IH. apply db_apply_wf. exact W.
Qed.

(** a request that does not reset [k] moves its counter forward by exactly what it draws *)
Lemma db_apply_next_free m r k : sm_wf str_cmp m -> resets k r = false ->
  next_free (fst (db_apply m r)) k = next_free m k + size_of k r.
Proof.
  intros W NR. destruct r as [k'|k' step|k' id|k']; cbn [db_apply size_of resets] in *.
  - unfold db_next_id. destruct (sm_get str_cmp m k') as [id|] eqn:G; cbn [fst];
      rewrite next_free_put, (str_eqb_sym' k k'); destruct (str_eqb k' k) eqn:E; try lia;
      apply str_eqb_eq in E; subst k'; unfold next_free; rewrite G; lia.
  - unfold db_next_range. destruct (sm_get str_cmp m k') as [id|] eqn:G; cbn [fst];
      rewrite next_free_put, (str_eqb_sym' k k'); destruct (str_eqb k' k) eqn:E; try lia;
      apply str_eqb_eq in E; subst k'; unfold next_free; rewrite G; lia.
  - cbn [fst]. rewrite next_free_put, (str_eqb_sym' k k'), NR. lia.
  - cbn [fst]. rewrite next_free_del by exact W. rewrite (str_eqb_sym' k k'), NR. lia.
Qed.

Fixpoint total_size (k : str) (rs : list seqreq) : N :=
  match rs with [] => 0 | r :: rs' => size_of k r + total_size k rs' end.

Lemma db_run_next_free m rs k : sm_wf str_cmp m -> (forall r, In r rs -> resets k r = false) ->
  next_free (db_run m rs) k = next_free m k + total_size k rs.
Proof.
  revert m. induction rs as [|r rs IH]; intros m W NR; cbn [db_run fold_left total_size]; [lia|].
  fold (db_run (fst (db_apply m r)) rs). rewrite IH.
  - rewrite db_apply_next_free; auto; [lia|]. apply NR. left. reflexivity.
  - apply db_apply_wf. exact W.
  - intros r' I. apply NR. right. exact I.
Qed.

Lemma draws_size k m r d : draws k m r = Some d -> d = (next_free m k, size_of k r).
Proof.
  destruct r as [k'|k' step|k' id|k']; cbn [draws size_of]; try discriminate;
    destruct (str_eqb k' k); try discriminate; intros [= <-]; reflexivity.
Qed.

Lemma draws_none_size k m r : draws k m r = None -> size_of k r = 0.
Proof.
  destruct r as [k'|k' step|k' id|k']; cbn [draws size_of]; auto; destruct (str_eqb k' k); try discriminate; auto.
Qed.

(** the draws of [k] along a reset-free run are CONSECUTIVE intervals starting at next_free:
    each one begins where the previous one ended *)
Inductive consecutive : N -> list (N * N) -> N -> Prop :=
| cons_nil : forall a, consecutive a [] a
| cons_cons : forall a len l b, consecutive (a + len) l b -> consecutive a ((a, len) :: l) b.

Lemma draws_consecutive k m rs : sm_wf str_cmp m -> (forall r, In r rs -> resets k r = false) ->
  consecutive (next_free m k) (draws_of k m rs) (next_free (db_run m rs) k).
Proof.
  revert m. induction rs as [|r rs IH]; intros m W NR; cbn [draws_of db_run fold_left]; [constructor|].
  fold (db_run (fst (db_apply m r)) rs).
  assert (NR0 : resets k r = false) by (apply NR; left; reflexivity).
  assert (IH' := IH (fst (db_apply m r)) (db_apply_wf m r W) (fun r' I => NR r' (or_intror I))).
  rewrite (db_apply_next_free m r k W NR0) in IH'.
  destruct (draws k m r) as [d|] eqn:D.
  - apply draws_size in D. subst d. constructor. exact IH'.
  - apply draws_none_size in D. rewrite D in IH'. replace (next_free m k + 0) with (next_free m k) in IH' by lia.
    exact IH'.
Qed.

(** consecutive intervals are pairwise disjoint and increasing, and lie in [a, b) *)
Lemma consecutive_bounds a l b : consecutive a l b ->
  a <= b /\ forall s len, In (s, len) l -> a <= s /\ s + len <= b.
Proof.
  induction 1 as [a|a len l b C IH].
  - split; [lia|]. contradiction.
  - destruct IH as [L IH]. split; [lia|]. intros s len' [E|I].
    + inversion E; subst. lia.
    + specialize (IH _ _ I). lia.
Qed.

Lemma consecutive_sorted a l b : consecutive a l b ->
  forall i j si li sj lj, (i < j)%nat -> nth_error l i = Some (si, li) -> nth_error l j = Some (sj, lj) ->
  si + li <= sj.
Proof.
  induction 1 as [a|a len l b C IH]; intros i j si li sj lj Lt Ni Nj.
  - destruct i; discriminate.
  - destruct j as [|j]; [lia|]. destruct i as [|i]; cbn [nth_error] in *.
    + inversion Ni; subst. apply nth_error_In in Nj.
      destruct (consecutive_bounds _ _ _ C) as [_ B]. specialize (B _ _ Nj). lia.
    + apply (IH i j si li sj lj); [lia|exact Ni|exact Nj].
Qed.

(** THEOREM (unique, increasing): along every reset-free request history the ids / ranges
    drawn from one key never overlap and each later one lies above every earlier one *)
Theorem db_draws_disjoint_increasing k m rs :
  sm_wf str_cmp m -> (forall r, In r rs -> resets k r = false) ->
  forall i j si li sj lj, (i < j)%nat ->
    nth_error (draws_of k m rs) i = Some (si, li) -> nth_error (draws_of k m rs) j = Some (sj, lj) ->
    si + li <= sj.
Proof.
  intros W NR. eapply consecutive_sorted. apply draws_consecutive; auto.
Qed.

(** every id drawn is below the counter afterwards, at or above the counter before *)
Theorem db_draws_bounds k m rs :
  sm_wf str_cmp m -> (forall r, In r rs -> resets k r = false) ->
  forall s len, In (s, len) (draws_of k m rs) -> next_free m k <= s /\ s + len <= next_free (db_run m rs) k.
Proof.
  intros W NR. apply consecutive_bounds. apply draws_consecutive; auto.
Qed.

(** snapshot + load restores the counters exactly *)
Lemma db_load_get (recs acc : list (str * N)) k : sm_wf str_cmp recs ->
  sm_get str_cmp (fold_left (fun m kv => sm_put str_cmp m (fst kv) (snd kv)) recs acc) k =
  match sm_get str_cmp recs k with Some v => Some v | None => sm_get str_cmp acc k end.
Proof.
  revert acc. induction recs as [|[k1 v1] recs IH]; intros acc W; cbn [fold_left]; [reflexivity|].
  destruct W as [F W]. rewrite IH by exact W. cbn [fst snd sm_get].
  destruct (str_cmp k k1) eqn:C.
  - apply str_cmp_eq in C. subst k1. rewrite (get_none_lt_all _ _ _ F).
    rewrite (get_put_same _ SOK). reflexivity.
  - rewrite (get_none_lt_all str_cmp recs k).
    + rewrite (get_put_other _ SOK); auto. intros ->. rewrite (proj2 (str_cmp_eq k1 k1) eq_refl) in C. discriminate.
    + eapply (Forall_lt_trans _ SOK); eauto.
  - destruct (sm_get str_cmp recs k); auto.
    rewrite (get_put_other _ SOK); auto. intros ->. rewrite (proj2 (str_cmp_eq k1 k1) eq_refl) in C. discriminate.
Qed.

Lemma db_load_wf (recs acc : list (str * N)) : sm_wf str_cmp acc ->
  sm_wf str_cmp (fold_left (fun m kv => sm_put str_cmp m (fst kv) (snd kv)) recs acc).
Proof.
  revert acc. induction recs as [|kv recs IH]; intros acc W; cbn [fold_left]; auto.
  apply IH. apply (wf_put _ SOK). exact W.
Qed.

Theorem db_snapshot_roundtrip m : sm_wf str_cmp m -> db_load (db_snapshot m) = m.
Proof.
  intros W. unfold db_load, db_snapshot. apply (wf_ext _ SOK); auto.
  - apply db_load_wf. cbn. auto.
  - intros k. rewrite db_load_get by exact W. destruct (sm_get str_cmp m k); reflexivity.
Qed.

(** THEOREM (install into live state): a node whose counters lag (any [follower] state) is caught up
    by the leader's snapshot while it runs: every counter the leader has is taken over exactly, the
    others keep the follower's value; hence whatever the node draws from [k] afterwards lies at or
    above everything the leader had handed out before the snapshot *)
Theorem db_install_next_free leader follower k : sm_wf str_cmp leader ->
  next_free (db_install follower (db_snapshot leader)) k =
  match sm_get str_cmp leader k with Some v => v | None => next_free follower k end.
Proof.
  intros W. unfold next_free, db_install, db_snapshot. rewrite db_load_get by exact W.
  destruct (sm_get str_cmp leader k); reflexivity.
Qed.

Theorem db_install_continues k leader follower more :
  sm_wf str_cmp leader -> sm_wf str_cmp follower -> sm_get str_cmp leader k <> None ->
  (forall r, In r more -> resets k r = false) ->
  forall s len, In (s, len) (draws_of k (db_install follower (db_snapshot leader)) more) -> next_free leader k <= s.
Proof.
  intros WL WF HK NR s len HIn.
  assert (WI : sm_wf str_cmp (db_install follower (db_snapshot leader))) by (apply db_load_wf; exact WF).
  destruct (db_draws_bounds k _ more WI NR s len HIn) as [Hlo _].
  rewrite db_install_next_free in Hlo by exact WL.
  unfold next_free. destruct (sm_get str_cmp leader k) as [v|]; [exact Hlo | congruence].
Qed.

(** THEOREM (restart): live history L1 ++ L2 ++ L3; the snapshot holds the counters after
    L1 ++ L2 but the log is replayed from the end of L1 (L2 is applied a SECOND time).  For a
    key that is not reset in L2 ++ L3 the restarted counter is at or above the live one: every id
    drawn afterwards is above every id drawn live (gaps, never duplicates).  With L2 = [] the
    restarted state is exactly the live state. *)
Theorem db_restart_replay_overlap k L1 L2 L3 :
  (forall r, In r (L2 ++ L3) -> resets k r = false) ->
  let live := db_run [] (L1 ++ L2 ++ L3) in
  let restarted := db_run (db_load (db_snapshot (db_run [] (L1 ++ L2)))) (L2 ++ L3) in
  next_free live k <= next_free restarted k /\
  (forall s len, In (s, len) (draws_of k (db_run [] L1) (L2 ++ L3)) -> s + len <= next_free restarted k) /\
  (forall more s len, (forall r, In r more -> resets k r = false) ->
     In (s, len) (draws_of k restarted more) -> next_free live k <= s).
Proof.
  intros NR live restarted.
  assert (W0 : sm_wf str_cmp ([] : seqdb)) by (cbn; auto).
  assert (W12 : sm_wf str_cmp (db_run [] (L1 ++ L2))) by (apply db_run_wf; exact W0).
  assert (E1 : live = db_run (db_run [] L1) (L2 ++ L3)) by (unfold live, db_run; rewrite fold_left_app; reflexivity).
  assert (E2 : db_run [] (L1 ++ L2) = db_run (db_run [] L1) L2) by (unfold db_run; rewrite fold_left_app; reflexivity).
  assert (W1 : sm_wf str_cmp (db_run [] L1)) by (apply db_run_wf; exact W0).
  assert (NR2 : forall r, In r L2 -> resets k r = false) by (intros r I; apply NR, in_or_app; auto).
  assert (Nlive : next_free live k = next_free (db_run [] L1) k + total_size k (L2 ++ L3)).
  { rewrite E1. apply db_run_next_free; auto. }
  assert (Nrest : next_free restarted k = next_free (db_run [] L1) k + total_size k L2 + total_size k (L2 ++ L3)).
  { unfold restarted. rewrite db_snapshot_roundtrip by exact W12. rewrite db_run_next_free; auto.
    rewrite E2, db_run_next_free; auto. }
  split; [lia|]. split.
  - intros s len I. destruct (db_draws_bounds k (db_run [] L1) (L2 ++ L3) W1 NR s len I) as [_ B].
    rewrite <- E1 in B. lia.
  - intros more s len NRm I.
    assert (Wr : sm_wf str_cmp restarted).
    { unfold restarted. apply db_run_wf. rewrite db_snapshot_roundtrip by exact W12. exact W12. }
    destruct (db_draws_bounds k restarted more Wr NRm s len I) as [B _]. lia.
Qed.

Theorem db_restart_replay_exact L1 L3 :
  db_run (db_load (db_snapshot (db_run [] L1))) L3 = db_run [] (L1 ++ L3).
Proof.
  rewrite db_snapshot_roundtrip by (apply db_run_wf; cbn; auto).
  unfold db_run. rewrite fold_left_app. reflexivity.
Qed.

(** the hypotheses are satisfiable by a non-trivial history *)
Example db_example :
  let k := [107] in
  let rs := [RNextId k; RNextRange k 100; RNextId [97]; RNextRange k 5; RNextId k] in
  (forall r, In r rs -> resets k r = false) /\
  draws_of k [] rs = [(1, 1); (2, 100); (102, 5); (107, 1)].
Proof.
  split.
  - intros r I. cbn in I. repeat (destruct I as [<-|I]; [reflexivity|]). contradiction.
  - vm_compute. reflexivity.
Qed.
